"""Simulator for the server-side protocol object: virtual-clock loop, fake transport,
scripted handlers / middleware / upload handlers (DESIGN.md §13)."""
from __future__ import annotations

import asyncio
import json
import zlib
import re
import urllib.parse as up

from ..core import cps, hexb


class VLoop(asyncio.SelectorEventLoop):
    def __init__(self):
        super().__init__()
        self._vt = 0.0

    def time(self):
        return self._vt

    def advance(self, dt):
        self._vt += dt


class WallClock:
    """stands in for the `time` module inside the server modules: the WALL clock (`time.time()`) can be stepped forwards or
    backwards (NTP sync, `date -s`, suspend/resume) independently of the event loop's monotonic clock"""

    def __init__(self):
        import time as _t

        self._t = _t
        self.offset = 0.0

    def time(self):
        return self._t.time() + self.offset

    def __getattr__(self, name):
        return getattr(self._t, name)


def install_wall(*modules):
    """put one WallClock in place of `time` in every given module that imports it; returns (clock, restore)"""
    w = WallClock()
    # (with several connections on one loop the installs nest: always restore the REAL module)
    saved = [(m, m.time._t if isinstance(m.time, WallClock) else m.time) for m in modules if hasattr(m, "time")]
    for m, _ in saved:
        m.time = w

    def restore():
        for m, t in saved:
            m.time = t

    return w, restore


class FakeTransport:
    """records write/close; writes after close() are dropped (asyncio semantics)"""

    def __init__(self, peer=("192.0.2.7", 4711), cert_der: bytes | None = None):
        self.acts: list = []
        self.closed = False
        self.dropped: list = []
        self.peer = peer
        self.cert_der = cert_der

    def write(self, d):
        if self.closed:
            self.dropped.append(bytes(d))
        else:
            self.acts.append(["w", bytes(d).hex()])

    def close(self):
        if not self.closed:
            self.closed = True
            self.acts.append(["close"])

    def abort(self):
        self.close()

    def is_closing(self):
        return self.closed

    def get_extra_info(self, name, default=None):
        if name == "peername":
            return self.peer
        if name == "ssl_object" and self.cert_der is not None:
            der = self.cert_der

            class _S:
                def getpeercert(self, binary_form=False):
                    return der if binary_form else {}

            return _S()
        return default


class FlowTransport(FakeTransport):
    """a transport that signals pause_writing during a chosen write, like asyncio's when its buffer fills"""

    def __init__(self, *a, **kw):
        super().__init__(*a, **kw)
        self.limit = None        # pause is signalled during write number limit+1 from now
        self.protocol = None
        self.limits_set = []
        self.paused = False      # what the transport last told the protocol

    def set_write_buffer_limits(self, high=None, low=None):
        self.limits_set.append([high, low])

    def write(self, d):
        super().write(d)
        if self.limit is not None and not self.closed:
            if self.limit == 0:
                self.limit = None
                self.paused = True
                self.protocol.pause_writing()
            else:
                self.limit -= 1


async def run_flow(loop: VLoop, c):
    """drive the response write pump: case = {resp, evs: [["s"] | ["lim", k] | ["rw"] | ["pw"] | ["l"]]}"""
    from nauyaca.server.protocol import GeminiServerProtocol

    log = {"h": 0, "exc": []}

    def h(req):
        log["h"] += 1
        return mkresp(c["resp"])

    p = GeminiServerProtocol(h, None, None)
    t = FlowTransport()
    t.protocol = p
    loop.set_exception_handler(lambda lp, cx: log["exc"].append(str(cx.get("exception") or cx.get("message"))[:120]))
    try:
        p.connection_made(t)
    except Exception as ex:  # noqa: BLE001
        log["exc"].append(f"connection_made: {type(ex).__name__}: {ex}"[:120])
    lost = False
    lens = []
    for e in c["evs"]:
        try:
            if e[0] == "s":
                if not t.closed and not lost:
                    p.data_received(b"gemini://h/flow\r\n")
            elif e[0] == "lim":
                t.limit = e[1]
            elif e[0] == "rw":
                if not lost:
                    t.paused = False
                    p.resume_writing()
            elif e[0] == "pw":
                if not lost:
                    t.paused = True
                    p.pause_writing()
            elif e[0] == "l":
                if not lost:
                    lost = True
                    p.connection_lost(None)
            elif e[0] == "tick":
                loop.advance(e[1] / 8)
                await asyncio.sleep(0)
        except Exception as ex:  # noqa: BLE001
            log["exc"].append(f"{type(ex).__name__}: {ex}"[:120])
        await _drain()
        lens.append(len(t.acts))
    obs = {"acts": [(f"w{len(a[1]) // 2}" if a[0] == "w" else "close") for a in t.acts], "raw": "".join(a[1] for a in t.acts if a[0] == "w"),
           "dropped": len(t.dropped), "h": log["h"], "exc": list(log["exc"]), "lens": lens, "limits": t.limits_set[:2],
           "paused_end": t.paused, "lost": lost}
    loop.set_exception_handler(lambda lp, cx: None)
    if p.timeout_handle is not None:
        p.timeout_handle.cancel()
    return obs


def mkresp(r):
    from nauyaca.protocol.response import GeminiResponse

    st, meta, body = r
    if body is not None:
        body = body[1] if body[0] == "s" else (b"Z" * body[1] if body[0] == "z" else bytes.fromhex(body[1]))
        if r[2][0] == "b" and len(body) % 3:
            # handlers may hand over any bytes-like object (bytearray, memoryview, BytesIO.getbuffer()): same bytes on the wire
            body = bytearray(body) if len(body) % 3 == 1 else memoryview(body)
    return GeminiResponse(status=st, meta=meta, body=body)


def enc_resp(r) -> str:
    st, meta, body = r
    b = "n" if body is None else ("s:" + cps(body[1]) if body[0] == "s" else (f"z:{body[1]}" if body[0] == "z" else "b:" + (body[1] or "-")))
    return f"{st}/{cps(meta)}/{b}"


def enc_case(c, verb="connx") -> str:
    """driver line for a connection case (verb `sys`: the composed machine, with the transport's flow-control events)"""
    h = c["handler"]
    hs = "s:" + enc_resp(h[1]) if h[0] == "s" else h[0]
    parts = []
    evs = []
    pending = None
    for e in c["evs"]:
        if e[0].endswith("!"):
            if pending is not None:
                evs.append(pending)
            pending = [e[0][:-1]] + list(e[1:])
        else:
            evs.append(e)
            if pending is not None:
                evs.append(pending)
                pending = None
    if pending is not None:
        evs.append(pending)
    for e in evs:
        k = e[0]
        if k == "d":
            parts.append("d:" + (e[1] or "-"))
        elif k == "md":
            parts.append("md:" + cps(e[1]))
        elif k in ("ha", "ua"):
            parts.append(k + ":" + enc_resp(e[1]))
        elif k == "tick":
            parts.append(f"k:{e[1]}")
        elif k == "wall":
            parts.append("k:0")             # a step of the wall clock is no event for the model: time there is the loop's monotonic clock
        elif k == "lim":
            parts.append(f"lim:{e[1]}")
        else:
            parts.append(k)
    ip, nf = env_bits(c)
    return f"{verb} {ip} {nf} {int(c['mw'])} {int(c['up'])} {hs} " + " ".join(parts)


def env_bits(c) -> tuple[int, int]:
    """what urlsplit asks of ipaddress / NFKC for the request line of this case (opaque parameters of the URL model)"""
    data = b"".join(bytes.fromhex(e[1]) for e in c["evs"] if e[0] == "d")
    i = data.find(b"\r\n")
    line = data[:i] if i >= 0 else data
    try:
        u = line.decode("utf-8")
    except UnicodeDecodeError:
        return 1, 1
    if u.startswith("titan://"):
        u = "gemini://" + u.split(";", 1)[0][8:]
    ipok, nf = 1, 1
    try:
        up.urlsplit(u)
    except ValueError as e:
        m = str(e)
        if "NFKC" in m:
            nf = 0
        elif "Invalid IPv6 URL" in m:
            pass
        else:
            ipok = 0
    return ipok, nf


async def _drain():
    # "the event loop runs until no callback is ready": task start, a few awaits inside real middleware
    # components (up to 3 slow ones in a chain), done-callbacks
    for _ in range(24):
        await asyncio.sleep(0)


_CERTS: list | None = None


def cert_pool():
    """four self-signed certificates (EC, Ed25519, RSA, and a look-alike of the first) as (der, sha256-hex fingerprint); generated once per process"""
    global _CERTS
    if _CERTS is None:
        import datetime
        import hashlib

        from cryptography import x509
        from cryptography.hazmat.primitives import hashes, serialization
        from cryptography.hazmat.primitives.asymmetric import ec, ed25519, rsa
        from cryptography.x509.oid import NameOID

        out = []
        # the 4th certificate is a look-alike of the 1st: same subject, issuer and serial number, another key
        for i, key in enumerate([ec.generate_private_key(ec.SECP256R1()), ed25519.Ed25519PrivateKey.generate(), rsa.generate_private_key(65537, 2048),
                                 ec.generate_private_key(ec.SECP256R1())]):
            name = x509.Name([x509.NameAttribute(NameOID.COMMON_NAME, f"client{i % 3}")])
            now = datetime.datetime(2026, 1, 1)
            cert = (x509.CertificateBuilder().subject_name(name).issuer_name(name).public_key(key.public_key()).serial_number(1000 + i % 3)
                    .not_valid_before(now).not_valid_after(now + datetime.timedelta(days=3650))
                    .sign(key, None if isinstance(key, ed25519.Ed25519PrivateKey) else hashes.SHA256()))
            der = cert.public_bytes(serialization.Encoding.DER)
            out.append((der, "sha256:" + hashlib.sha256(der).hexdigest()))  # the format get_certificate_fingerprint uses
        _CERTS = out
    return _CERTS


async def run_conn(loop: VLoop, c, middleware=None, upload_handler=None, handler=None, cert_der=None, peer=("192.0.2.7", 4711)):
    """Drive the real GeminiServerProtocol through the scripted event list of case `c`.

    Scripted handler/middleware/upload objects complete at their events (gate futures); real
    components may be passed instead (`middleware`, `upload_handler`, `handler`)."""
    from nauyaca.server import protocol as sp
    from nauyaca.server.protocol import GeminiServerProtocol

    if c.get("cert") is not None:
        cert_der = cert_pool()[c["cert"]][0]
    if c.get("peer"):
        # what asyncio reports as peername: (host, port) on AF_INET, (host, port, flowinfo, scope_id) on AF_INET6
        peer = (c["peer"], 4711, 0, 0) if ":" in c["peer"] else (c["peer"], 4711)
    else:
        # the shape of the peer name is not part of the case: vary it (stable per case) over what real transports report
        import json as _json
        import zlib as _zlib

        v = _zlib.crc32(_json.dumps(c, sort_keys=True, default=str).encode()) % 8
        if v == 1:
            peer = ("2001:db8::7", 4711, 0, 0)
        elif v == 2:
            peer = ("::1", 4711, 0, 0)
        elif v == 3:
            peer = ("fe80::1c2:3%eth0", 4711, 0, 3)
    log = {"h": 0, "u": 0, "m": 0, "content": b"", "order": [], "mwargs": [], "hargs": [], "exc": []}
    gates: dict = {}
    hspec = c["handler"]

    def h(req):
        log["h"] += 1
        log["order"].append("h")
        log["hargs"].append([getattr(req, "hostname", None), getattr(req, "port", None), getattr(req, "path", None), getattr(req, "query", None), getattr(req, "raw_url", None)])
        if hspec[0] == "s":
            return mkresp(hspec[1])
        if hspec[0] == "r":
            raise RuntimeError("boom\nline2")

        async def co():
            g = loop.create_future()
            gates["h"] = g
            return await g

        return co()

    class Up:
        # the public knobs of the real FileUploadHandler, so that code probing the handler object finds them
        max_size = 8
        upload_dir = "/nonexistent"
        allowed_types = None
        auth_tokens = None
        enable_delete = True

        async def handle_upload(self, req):
            log["u"] += 1
            log["order"].append("u")
            log["content"] = bytes(req.content)
            log["hargs"].append([getattr(req, "hostname", None), getattr(req, "port", None), getattr(req, "path", None), None, getattr(req, "raw_url", None)])
            g = loop.create_future()
            gates["u"] = g
            return await g

    class MW:
        async def process_request(self, u, ip, fp=None):
            log["m"] += 1
            log["order"].append("m")
            log["mwargs"].append([u, ip, fp])
            g = loop.create_future()
            gates["m"] = g
            return await g

    mwobj = middleware if middleware is not None else (MW() if c["mw"] else None)
    upobj = upload_handler if upload_handler is not None else (Up() if c["up"] else None)
    p = GeminiServerProtocol(handler or h, mwobj, upobj)
    t = FlowTransport(peer=peer, cert_der=cert_der)      # behaves like FakeTransport until a `lim` event arms a pause
    t.protocol = p

    def on_exc(lp, ctx):
        log["exc"].append(str(ctx.get("exception") or ctx.get("message"))[:120])

    loop.set_exception_handler(on_exc)
    lost = False
    lens: list[int] = []
    wall, restore_wall = install_wall(sp)
    try:
        p.connection_made(t)
    except Exception as ex:  # asyncio calls connection_made from the loop: the exception is logged, the connection goes on
        log["exc"].append(f"connection_made: {type(ex).__name__}: {ex}"[:120])
    queue = [list(e) for e in c["evs"]]
    qi = 0
    while qi < len(queue):
        e = queue[qi]
        qi += 1
        k = e[0]
        racy = k.endswith("!")
        if racy:
            k = k[:-1]
            gk = {"ua": "u", "ur": "u", "ha": "h", "hr": "h", "ma": "m", "md": "m", "mr": "m", "mn": "m"}[k]
            if gk not in gates or gates[gk].done() or qi >= len(queue):
                # no task to finish right now: the event simply happens after the next one
                if qi < len(queue):
                    queue.insert(qi + 1, [k] + e[1:])
                    continue
                racy = False
        try:
            if k == "d":
                # asyncio never delivers data after connection_lost; after transport.close() it still can: sslproto's
                # FLUSHING state runs _do_read() once more and hands what is in the incoming BIO to the protocol
                if not lost:
                    p.data_received(bytes.fromhex(e[1]))
            elif k == "t":
                loop.advance(sp.REQUEST_TIMEOUT + 1)
                await asyncio.sleep(0)
            elif k == "tick":
                loop.advance(e[1] / 8)
                await asyncio.sleep(0)
            elif k == "l":
                if not lost:
                    lost = True
                    if c.get("eof", zlib.crc32(json.dumps(c["evs"]).encode()) & 1):
                        # a clean end of stream from the peer (FIN / close_notify): asyncio calls eof_received() first; under TLS
                        # whatever it returns the connection is then closed.  (Otherwise: an abrupt loss, connection_lost only.)
                        eof = getattr(p, "eof_received", None)
                        if eof is not None:
                            eof()      # no loop iteration in between: what a queued callback writes now goes to a closing transport
                    p.connection_lost(None)
            elif k == "wall":
                wall.offset += e[1]          # the wall clock is stepped; the loop's monotonic clock and its timers are not
                await asyncio.sleep(0)
            elif k == "lim":
                t.limit = e[1]
            elif k == "rw":
                if not lost:
                    t.paused = False
                    p.resume_writing()
            elif k == "pw":
                if not lost:
                    t.paused = True
                    p.pause_writing()
            elif k in ("ma", "mr", "mn", "md"):
                g = gates.pop("m", None)
                if g and not g.done():
                    if k == "ma":
                        log["order"].append("allow")
                        g.set_result((True, None))
                    elif k == "mr":
                        g.set_exception(ValueError("mw\nfail"))
                    elif k == "mn":
                        g.set_result((False, None))
                    else:
                        g.set_result((False, e[1]))
            elif k in ("ha", "hr"):
                g = gates.pop("h", None)
                if g and not g.done():
                    if k == "ha":
                        g.set_result(mkresp(e[1]))
                    else:
                        g.set_exception(RuntimeError("h\rfail"))
            elif k in ("ua", "ur"):
                g = gates.pop("u", None)
                if g and not g.done():
                    if k == "ua":
                        g.set_result(mkresp(e[1]))
                    else:
                        g.set_exception(OSError("disk\nfull"))
        except Exception as ex:  # an exception escaping a protocol callback reaches the event loop
            log["exc"].append(f"{type(ex).__name__}: {ex}"[:120])
        if racy:
            # one loop iteration only: the awaiting task finishes and its done-callback is queued, but the next
            # event (a read or a disconnect queued before it) is delivered first
            await asyncio.sleep(0)
        else:
            await _drain()
        lens.append(len(t.acts))
    pending = [k for k, g in gates.items() if not g.done()]
    obs = {
        "acts": [list(a) for a in t.acts],
        "dropped": len(t.dropped),
        "h": log["h"], "u": log["u"], "m": log["m"],
        "content": hexb(log["content"]),
        "timer": p.timeout_handle is not None,
        "order": list(log["order"]), "mwargs": list(log["mwargs"]), "hargs": list(log["hargs"]),
        "pending": pending, "exc": list(log["exc"]), "lost": lost, "lens": lens,
        "racy": any(e[0].endswith("!") for e in c["evs"]),
        "awaiting": bool(getattr(p, "awaiting_titan_content", False)),
        "paused_end": t.paused,
    }
    # tear down what the case left behind so that nothing fires during a later case on this loop
    restore_wall()
    loop.set_exception_handler(lambda lp, ctx: None)
    if p.timeout_handle is not None:
        p.timeout_handle.cancel()
    for g in gates.values():
        if not g.done():
            g.cancel()
    await _drain()
    return obs


HEADER_RE = re.compile(rb"^([1-6][0-9]) ([^\r\n]*)\r\n", re.S)


def parse_response(raw: bytes):
    """(status, meta bytes, body bytes) if `raw` starts with a well-formed header, else None"""
    m = HEADER_RE.match(raw)
    if not m:
        return None
    meta = m.group(2)
    if len(meta) > 1024:
        return None
    return int(m.group(1)), meta, raw[m.end():]


def wellformed_trace(acts) -> tuple[bool, str]:
    """C01 on a write/close trace: [] or  write+ close  with header(+body) well-formed, body only for 2x."""
    if not acts:
        return True, "silent"
    if acts[-1] != ["close"]:
        return False, "writes without a final close"
    if any(a == ["close"] for a in acts[:-1]):
        return False, "close before the end of the trace"
    raw = b"".join(bytes.fromhex(a[1]) for a in acts[:-1])
    pr = parse_response(raw)
    if pr is None:
        return False, f"not a well-formed response header: {raw[:80]!r}"
    st, meta, body = pr
    if body and not (20 <= st <= 29):
        return False, f"body of {len(body)} bytes with status {st}"
    return True, f"status {st}"


def match_tokens(tokens: list[str], acts) -> bool:
    """compare the model's output tokens (w:<hex> | ~NN | close) with the implementation's trace.
    Writes are compared as a byte stream (the implementation may hand a body to the transport in pieces);
    `close` must sit at the same place."""
    def split(seq, is_close, payload):
        groups, cur = [], []
        for x in seq:
            if is_close(x):
                groups.append(cur)
                cur = []
            else:
                cur.append(payload(x))
        return groups, cur
    tg, trest = split(tokens, lambda t: t == "close", lambda t: t)
    ag, arest = split(acts, lambda a: a == ["close"], lambda a: bytes.fromhex(a[1]))
    if len(tg) != len(ag) or bool(trest) != bool(arest):
        return False
    for toks, writes in list(zip(tg, ag)) + ([(trest, arest)] if trest else []):
        raw = b"".join(writes)
        if any(t.startswith("~") for t in toks):
            pr = parse_response(raw)
            if len(toks) != 1 or pr is None or pr[0] != int(toks[0][1:]) or pr[2]:
                return False
        else:
            want = b"".join(b"" if t == "w:-" else bytes.fromhex(t[2:]) for t in toks)
            if raw != want or (bool(toks) != bool(writes)):
                return False
    return True
