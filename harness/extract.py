"""Extraction (DESIGN.md §1, tie no. 2): read the constants, literal tables and
source-shape facts the theorems depend on from the CURRENT source tree and
regenerate lean/NauyacaVerif/Gen/Params.lean.  Theorems in Props/*.lean are
stated over `NauyacaVerif.Gen.*`, so `lake build` re-checks them against what
the code says now.  An item that cannot be found is simply not emitted: the
theorems that need it then fail to build (a broken obligation).
"""
from __future__ import annotations

import ast
import importlib
from pathlib import Path
from typing import Any

from . import core


def inline_constants(tree):
    """Constant propagation for the extraction passes: a module-level `NAME = <literal>` (assigned once, never re-bound) and a
    class-level `NAME = <literal>` (never assigned through an instance) are read as their literal wherever they are used
    (`NAME`, `self.NAME`, `cls.NAME`, `Class.NAME`), so that naming a literal does not hide it from the extraction."""
    lits = (str, int, float, bytes)

    def simple(st):
        v = getattr(st, "value", None)
        return isinstance(st, (ast.Assign, ast.AnnAssign)) and isinstance(v, ast.Constant) and type(v.value) in lits

    stores: dict[str, int] = {}
    for n in ast.walk(tree):
        if isinstance(n, ast.Name) and isinstance(n.ctx, (ast.Store, ast.Del)):
            stores[n.id] = stores.get(n.id, 0) + 1
        elif isinstance(n, (ast.arg,)):
            stores[n.arg] = stores.get(n.arg, 0) + 2          # a parameter of that name shadows the constant
    mod = {}
    for st in tree.body:
        if simple(st):
            for t in (st.targets if isinstance(st, ast.Assign) else [st.target]):
                if isinstance(t, ast.Name) and stores.get(t.id) == 1:
                    mod[t.id] = st.value
    attr_stores = {n.attr for n in ast.walk(tree) if isinstance(n, ast.Attribute) and isinstance(n.ctx, (ast.Store, ast.Del))}
    classes = {c.name: c for c in ast.walk(tree) if isinstance(c, ast.ClassDef)}
    cattr: dict[str, ast.Constant] = {}
    dup = set()
    for c in classes.values():
        for st in c.body:
            if simple(st):
                for t in (st.targets if isinstance(st, ast.Assign) else [st.target]):
                    if isinstance(t, ast.Name) and t.id not in attr_stores:
                        if t.id in cattr:
                            dup.add(t.id)
                        cattr[t.id] = st.value
    for d in dup:
        cattr.pop(d, None)
    if not mod and not cattr:
        return tree
    import copy

    class T(ast.NodeTransformer):
        def visit_Name(self, node):
            if isinstance(node.ctx, ast.Load) and node.id in mod:
                return ast.copy_location(copy.deepcopy(mod[node.id]), node)
            return node

        def visit_Attribute(self, node):
            if isinstance(node.ctx, ast.Load) and node.attr in cattr and isinstance(node.value, ast.Name) \
                    and (node.value.id in ("self", "cls") or node.value.id in classes):
                return ast.copy_location(copy.deepcopy(cattr[node.attr]), node)
            return self.generic_visit(node)

    return ast.fix_missing_locations(T().visit(tree))


def parse_source(path: Path):
    return inline_constants(ast.parse(Path(path).read_text()))


def _tree(src: Path, rel: str):
    return parse_source(src / rel)


def _func(t, cls: str | None, name: str):
    for n in ast.walk(t):
        if cls is None and isinstance(n, (ast.FunctionDef, ast.AsyncFunctionDef)) and n.name == name:
            return n
        if isinstance(n, ast.ClassDef) and n.name == cls:
            for f in n.body:
                if isinstance(f, (ast.FunctionDef, ast.AsyncFunctionDef)) and f.name == name:
                    return f
    return None


def _with_private_callees(tree, func, depth: int = 3):
    """`func` plus the private methods / functions of the module it calls (`x._name(...)`), transitively up to `depth`"""
    defs: dict[str, list] = {}
    for n in ast.walk(tree):
        if isinstance(n, (ast.FunctionDef, ast.AsyncFunctionDef)) and n.name.startswith("_") and not n.name.startswith("__"):
            defs.setdefault(n.name, []).append(n)
    seen, todo = [func], [(func, 0)]
    while todo:
        f, d = todo.pop()
        if d >= depth:
            continue
        for c in ast.walk(f):
            if isinstance(c, ast.Call):
                name = c.func.attr if isinstance(c.func, ast.Attribute) else getattr(c.func, "id", None)
                for g in defs.get(name, []):
                    if all(g is not x for x in seen):
                        seen.append(g)
                        todo.append((g, d + 1))
    return seen


def _consts(node, kinds=(int, float)):
    return [c.value for c in ast.walk(node) if isinstance(c, ast.Constant) and type(c.value) in kinds]


def _strs(node):
    return [c.value for c in ast.walk(node) if isinstance(c, ast.Constant) and isinstance(c.value, str)]


def _has_await(node) -> bool:
    return any(isinstance(n, (ast.Await, ast.AsyncFor, ast.AsyncWith)) for n in ast.walk(node))


def lean_str(s: str) -> str:
    return "[" + ", ".join(str(ord(c)) for c in s) + "]"


def extract() -> tuple[dict[str, Any], list[str]]:
    """Returns (items, problems).  items maps a Lean identifier to its value (None = not found)."""
    core.setup_import_path()
    src = core.REPO / "src" / "nauyaca"
    out: dict[str, Any] = {}
    problems: list[str] = []

    def safe(name, thunk):
        try:
            out[name] = thunk()
        except Exception as e:  # noqa: BLE001
            out[name] = None
            problems.append(f"{name}: {type(e).__name__}: {e}")

    K = importlib.import_module("nauyaca.protocol.constants")
    SP = importlib.import_module("nauyaca.server.protocol")
    CP = importlib.import_module("nauyaca.client.protocol")
    status = importlib.import_module("nauyaca.protocol.status")

    safe("maxRequest", lambda: int(K.MAX_REQUEST_SIZE))
    safe("maxBody", lambda: int(K.MAX_RESPONSE_BODY_SIZE))
    safe("maxRedirects", lambda: int(K.MAX_REDIRECTS))
    safe("defaultPort", lambda: int(K.DEFAULT_PORT))
    safe("defaultMaxFileSize", lambda: int(K.DEFAULT_MAX_FILE_SIZE))
    # times in 1/8 s so that they are exact naturals
    safe("requestTimeout8", lambda: _exact8(SP.REQUEST_TIMEOUT))
    safe("maxMeta", lambda: int(SP.MAX_META_SIZE))
    safe("writeChunk", lambda: int(SP.WRITE_CHUNK_SIZE))
    safe("maxHeader", lambda: int(CP.MAX_RESPONSE_HEADER_SIZE))
    safe("statusCodes", lambda: sorted(int(s.value) for s in status.StatusCode))

    # --- literals buried in function bodies
    try:
        mw = _tree(src, "server/middleware.py")
        # the clean-up task of RateLimiter: `_cleanup_loop` and whatever private helpers of the class it was split into
        loop = next((c for c in ast.walk(mw) if isinstance(c, ast.ClassDef) and c.name == "RateLimiter"), None) \
            if _func(mw, "RateLimiter", "_cleanup_loop") is not None else None
        nums = _consts(loop) if loop else []
        sleeps = [a.value for n in ast.walk(loop) if isinstance(n, ast.Call) and getattr(n.func, "attr", "") == "sleep"
                  for a in n.args if isinstance(a, ast.Constant)] if loop else []
        out["cleanupPeriod"] = int(sleeps[0]) if len(sleeps) == 1 else None
        ages = [c.comparators[0].value for c in ast.walk(loop) if isinstance(c, ast.Compare) and len(c.ops) == 1
                and isinstance(c.ops[0], ast.Gt) and isinstance(c.comparators[0], ast.Constant)
                and "last_update" in ast.unparse(c.left)] if loop else []
        out["cleanupAge"] = int(ages[0]) if len(ages) == 1 else None
        if out["cleanupPeriod"] is None or out["cleanupAge"] is None:
            problems.append(f"rate-limiter clean-up literals not found (numbers seen: {nums})")
        # eviction must also require that the bucket has refilled (C10)
        out["evictOnlyRefilled"] = bool(loop) and any(
            isinstance(c, ast.Compare) and "capacity" in ast.unparse(c) and "refill_rate" in ast.unparse(c) for c in ast.walk(loop))
        atomic = True
        for cls, fn in (("TokenBucket", "consume"), ("RateLimiter", "process_request")):
            f = _func(mw, cls, fn)
            if f is None:
                atomic = False
                problems.append(f"{cls}.{fn} not found")
            elif _has_await(f):
                atomic = False
                problems.append(f"{cls}.{fn} contains an await: concurrent calls are no longer serialised")
        out["limiterAtomic"] = atomic
        resp = set()
        for cls in ("AccessControl", "CertificateAuth"):
            # every response line literal anywhere in the class (process_request or a private helper it delegates to)
            for c in ast.walk(mw):
                if isinstance(c, ast.ClassDef) and c.name == cls:
                    resp |= {s for s in _strs(c) if s.endswith("\r\n")}
        out["mwResponses"] = sorted(resp)
    except Exception as e:  # noqa: BLE001
        problems.append(f"middleware.py: {e}")

    try:
        tls = _tree(src, "server/tls_protocol.py")
        # module-level integer constants, so that `recv(TLS_CHUNK_SIZE)` is read as its literal
        ints = {t.id: st.value.value for st in tls.body if isinstance(st, (ast.Assign, ast.AnnAssign)) and isinstance(getattr(st, "value", None), ast.Constant)
                and isinstance(st.value.value, int) for t in (st.targets if isinstance(st, ast.Assign) else [st.target]) if isinstance(t, ast.Name)}
        out["recvSizes"] = sorted({(a.value if isinstance(a, ast.Constant) else ints[a.id]) for n in ast.walk(tls) if isinstance(n, ast.Call)
                                   and isinstance(n.func, ast.Attribute) and n.func.attr in ("recv", "bio_read") for a in n.args
                                   if isinstance(a, ast.Constant) or (isinstance(a, ast.Name) and a.id in ints)})
        w = _func(tls, "TLSTransportWrapper", "write")
        # `write` and the private methods (of any class of the module) it delegates to
        body = _with_private_callees(tls, w) if w else []
        out["wrapperUsesSendall"] = bool(w) and any(isinstance(n, ast.Attribute) and n.attr == "sendall" for f in body for n in ast.walk(f)) \
            and not any(isinstance(n, ast.Attribute) and n.attr == "send" for f in body for n in ast.walk(f))
    except Exception as e:  # noqa: BLE001
        problems.append(f"tls_protocol.py: {e}")

    try:
        sp = _tree(src, "server/protocol.py")
        out["fixedMetas"] = sorted({s for n in ast.walk(sp) if isinstance(n, ast.Call) and isinstance(n.func, ast.Attribute)
                                    and n.func.attr == "_send_error_response" for a in n.args for s in _strs(a)
                                    if not isinstance(a, ast.JoinedStr)})
        # every transport.write in the server protocol must sit inside _send_response (one choke point, C01)
        writers = set()
        for cls in [n for n in ast.walk(sp) if isinstance(n, ast.ClassDef) and n.name == "GeminiServerProtocol"]:
            for f in cls.body:
                if isinstance(f, (ast.FunctionDef, ast.AsyncFunctionDef)):
                    for n in ast.walk(f):
                        if isinstance(n, ast.Call) and isinstance(n.func, ast.Attribute) and n.func.attr == "write" \
                                and "transport" in ast.unparse(n.func.value):
                            writers.add(f.name)
        out["serverWriters"] = sorted(writers)
    except Exception as e:  # noqa: BLE001
        problems.append(f"server/protocol.py: {e}")

    return out, problems


def _exact8(x: float) -> int:
    v = x * 8
    if v != int(v):
        raise ValueError(f"{x} is not a multiple of 1/8 s")
    return int(v)


NAT_ITEMS = ["maxRequest", "maxBody", "maxRedirects", "defaultPort", "defaultMaxFileSize", "requestTimeout8", "maxMeta", "writeChunk", "maxHeader",
             "cleanupPeriod", "cleanupAge"]
BOOL_ITEMS = ["evictOnlyRefilled", "limiterAtomic", "wrapperUsesSendall"]
NATLIST_ITEMS = ["statusCodes", "recvSizes"]
STRLIST_ITEMS = ["mwResponses", "fixedMetas", "serverWriters"]


def render(items: dict[str, Any], extra: dict[str, str] | None = None) -> str:
    lines = ["-- GENERATED by harness/extract.py from the current source tree on every run — do not edit",
             "namespace NauyacaVerif.Gen"]
    for k in NAT_ITEMS:
        v = items.get(k)
        lines.append(core.lean_item(k, "Nat", None if v is None else str(v)))
    for k in BOOL_ITEMS:
        v = items.get(k)
        lines.append(core.lean_item(k, "Bool", None if v is None else ("true" if v else "false")))
    for k in NATLIST_ITEMS:
        v = items.get(k)
        lines.append(core.lean_item(k, "List Nat", None if v is None else str(list(v))))
    for k in STRLIST_ITEMS:
        v = items.get(k)
        lines.append(core.lean_item(k, "List (List Nat)", None if v is None else "[" + ", ".join(lean_str(s) for s in v) + "]"))
    for k, v in (extra or {}).items():
        lines.append(v)
    lines.append("end NauyacaVerif.Gen")
    return "\n".join(lines) + "\n"


def regenerate(extra_items: dict[str, Any] | None = None, extra_lean: dict[str, str] | None = None) -> tuple[dict[str, Any], list[str], bool]:
    """Write Gen/Params.lean if its content changed.  Returns (items, problems, changed)."""
    items, problems = extract()
    if extra_items:
        items.update(extra_items)
    text = render(items, extra_lean)
    f = core.LEAN / "NauyacaVerif" / "Gen" / "Params.lean"
    f.parent.mkdir(exist_ok=True)
    changed = not f.exists() or f.read_text() != text
    if changed:
        f.write_text(text)
    return items, problems, changed


if __name__ == "__main__":
    import sys
    if "--write" in sys.argv:
        items, problems, changed = regenerate()
        print("Params.lean", "rewritten" if changed else "unchanged")
    else:
        items, problems = extract()
        print(render(items))
    for p in problems:
        print("-- PROBLEM:", p)
