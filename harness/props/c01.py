"""C01  Exactly one well-formed Gemini response per connection."""
from __future__ import annotations

import random

from ..core import Family, cps, hexb
from ..sim import srv as sim
from .pumpfam import PumpFamily, gen_pump_case
from .srvfam import BODIES, METAS, STATUSES, ConnFamily, racy

ID = "C01"
READY = True
LEAN_TARGETS = ["NauyacaVerif.Props.C01"]
THEOREMS = ['NauyacaVerif.C01.render_wf', 'NauyacaVerif.C01.trace_shape', 'NauyacaVerif.C01.nothing_after_close', 'NauyacaVerif.C01.trace_progress', 'NauyacaVerif.C01.line_decides', 'NauyacaVerif.C01.lost_silent', 'NauyacaVerif.C01.fixedMetas_clean', 'NauyacaVerif.C01.pump_trace_shape', 'NauyacaVerif.C01.pump_silent_before_handshake', 'NauyacaVerif.C01.maxMeta_tie', 'NauyacaVerif.C01.writeChunk_tie', 'NauyacaVerif.C01.flow_pieces', 'NauyacaVerif.C01.flow_writes_prefix', 'NauyacaVerif.C01.flow_closed_complete', 'NauyacaVerif.C01.flow_quiet', 'NauyacaVerif.C01.flow_resume_finishes', 'NauyacaVerif.C01.maxRequest_tie', 'NauyacaVerif.C01.sys_silent_before_decision', 'NauyacaVerif.C01.sys_decided_wellformed', 'NauyacaVerif.C01.sys_written_prefix', 'NauyacaVerif.C01.sys_trace_shape', 'NauyacaVerif.C01.sys_closed_complete', 'NauyacaVerif.C01.sys_lost_quiet', 'NauyacaVerif.C01.sys_resume_completes']
LEAN_TARGETS = LEAN_TARGETS + ["NauyacaVerif.Props.Tr.PumpResponse", "NauyacaVerif.Props.Tr.Results"]
TRANSLATED = ["pumpResponse", "resumeWriting", "pauseWriting", "connectionLost", "sendResponse", "handleHandlerResult", "handleUploadResult"]
THEOREMS = THEOREMS + [f"NauyacaVerif.Translated.{t}" for t in ("loop_eq", "pump_eq", "resume_eq", "pause_eq", "lost_eq", "resume_reachable", "send_eq", "send_reachable",
                                                                     "handleHandlerResult_eq", "handleUploadResult_eq", "handler_result_answers")]
EXTRACT = ["maxMeta", "maxRequest", "serverWriters", "writeChunk"]
EXTRACT_EXPECT = {"serverWriters": ["_pump_response"]}  # every transport.write of the server protocol sits in one function
LEVEL_TEXT = "Proved for every configuration and EVERY event list (all orderings of reads, timer, middleware/handler/upload completions of any outcome, disconnect): the output trace is empty or one well-formed response (two digits 10-69, space, meta without CR/LF <= 1024 bytes, CRLF, body only with 2x; for every status/meta/body incl. lone surrogates) followed by close, nothing after close, nothing after a disconnect, a decided request with no pending task IS answered, a complete line / >1024 bytes always decides (for every segmentation); lifted to the PyOpenSSL pump model; and for the write pump under flow control (M-Flow: responses are handed to the transport in pieces, pause/resume at any point): writes are always an in-order prefix of the pieces, close only after all of them, nothing while paused. The correspondence compares the real GeminiServerProtocol byte-for-byte and event-by-event (when the response is written) with the model, and the real pump over memory-BIO TLS. Partial: the stdlib TLS backend is asyncio's transport (identity transport in the model); texts of exception-derived metas are only checked for well-formedness."
LEVEL_NOTE = "Trusted: Lean kernel (axioms propext, Classical.choice, Quot.sound only); the hand-written model Srv.step/Srv.pumpStep is tied to /repo by extraction (constants, 'every transport.write sits in _send_response') and by the correspondence run of every check (fake transport with asyncio's write-after-close semantics, virtual-clock loop, scripted handlers; real PyOpenSSL pump over memory BIOs); asyncio's transport/timer contract, OpenSSL's record layer and Python exception texts are assumed, see assumptions."
TECHNIQUE = 'Lean 4 proof (invariant induction over all event lists of an executable connection state machine) + differential correspondence with the real asyncio protocol objects under a virtual clock'
ASSUMPTIONS = [
    "asyncio transport contract: data_received in order, nothing after connection_lost/close, write after close dropped, call_later not before its deadline",
    "handler, middleware and upload handler bodies are parameters (scripted: sync value / sync raise / coroutine completed at a scripted event)",
    "exception message texts inside 40/59 metas are Python's: the model fixes only the status of those responses (token ~NN) and the correspondence checks their well-formedness",
]


class Events(ConnFamily):
    name = "events"

    def oracle(self, case, obs):
        return _named(case, obs, self.oracle_c01(case, obs) or self.oracle_once(case, obs))


# spellings of the Titan `size` parameter: what clients, libraries and people write for a number.  Python's int() takes a sign,
# white space around, single underscores between digits; everything else - floats, infinities, exponents, other bases, empty -
# is refused.  A parser made "lenient" meets conversions that fail in OTHER ways than int() does (float("inf") converts, int() of
# it raises OverflowError, int(float("nan")) a ValueError, 1e999 is inf, Decimal/Fraction raise their own classes): whatever the
# spelling, the line is a full request line and gets its one response.  ASCII only (the model's `pyInt` is the ASCII fragment).
SIZE_SPELLINGS = ["inf", "-inf", "+inf", "Infinity", "-Infinity", "INF", "iNf", "infinity", "nan", "NaN", "-nan", "+NAN", "1e999", "-1e999", "1E400", "9e308", "2e308",
                  "1e309", "1e3", "1e0", "1E2", "1e+2", "1e-2", "1e-999", "0e0", "1024.0", "3.0", "3.", "0.0", "-0.0", "1.5", ".5", "5.", "3.0e0", "1_0.0", "1e1_0",
                  "0x10", "0X1f", "0b11", "0o7", "010", "00", "1_000", "1__0", "_1", "1_", "+3", "-0", "+0", "--3", "+-3", "- 3", "", " ", "3 ", " 3", "3L", "3j", "1e", "e3",
                  "1/2", "3/1", "1,000", "1 000", "3;", "3%", "%33", "0.5e1", "5e-1", "1e400000", "9" * 25, "9" * 400, "-" + "9" * 30, "1" + "0" * 310, "1" + "0" * 310 + ".0",
                  "0." + "0" * 330 + "1", "True", "None", "3\t", "\t3", "3\x0b", "3\x00", "x", "size", "=3", "3=3", "inf=3", "1e999;mime=text/plain", "inf;token=t",
                  "3;size=inf", "inf;size=3", "1e999;size=0", "0;size=1e999", "nan;size=nan"]


class Sizes(ConnFamily):
    """Titan request lines whose `size` parameter is spelled in every way a number gets spelled (see SIZE_SPELLINGS), sent to a server
    WITH an upload handler (most of the time), in one read or cut anywhere, with the content (or less, or more) behind the line: the line
    is complete, so exactly one response - a refusal or, for a size Python's int() takes, what the upload handler says - and the close.
    Same implementation runner, model line and oracle as family `events`."""

    name = "sizes"
    quick_n = 480
    thorough_n = 8000

    def gen(self, rng: random.Random, n: int):
        from .srvfam import MW_LINES, cut, gen_resp

        def line(sp):
            return b"titan://h/f;size=" + sp.encode("latin1")

        fixed = [{"mw": False, "up": True, "handler": ["a"], "evs": [["d", (line(sp) + b"\r\nabc").hex()]]} for sp in SIZE_SPELLINGS]
        k = 0
        for c in self.share(fixed):
            k += 1
            yield c
        while k < n:
            k += 1
            sp = rng.choice(SIZE_SPELLINGS)
            r = rng.random()
            ln = line(sp) if r < 0.7 else b"titan://h/d/e.txt;mime=text/plain;size=" + sp.encode("latin1") if r < 0.8 else b"titan://h/f;token=t;size=" + sp.encode("latin1") + b";mime=a/b" \
                if r < 0.9 else b"titan://h/f; size = " + sp.encode("latin1")
            tail = rng.choice([b"", b"abc", b"ab", b"abcdef", bytes(rng.randrange(256) for _ in range(rng.randint(0, 12)))])
            data = cut(rng, ln + b"\r\n" + tail, 2)
            mw = rng.random() < 0.25
            rest = []
            if mw:
                rest.append(rng.choice([["ma"], ["ma"], ["ma"], ["mr"], ["md", rng.choice(MW_LINES)]]))
            q = rng.random()
            if q < 0.55:
                rest.append(["ua", gen_resp(rng)])
            elif q < 0.65:
                rest.append(["ur"])
            elif q < 0.8:
                rest.append(rng.choice([["t"], ["tick", 100], ["tick", 241], ["l"]]))
            if rng.random() < 0.15:
                rest.insert(rng.randint(0, len(rest)), rng.choice([["t"], ["l"], ["d", "6162"], ["d", "0d0a"]]))
            c = {"mw": mw, "up": rng.random() < 0.88, "handler": rng.choice([["a"], ["s", gen_resp(rng)], ["r"]]), "evs": [["d", x.hex()] for x in data] + rest}
            yield racy(rng, c) if rng.random() < 0.15 else c

    def oracle(self, case, obs):
        return _named(case, obs, self.oracle_c01(case, obs) or self.oracle_once(case, obs))

    def key(self, case, obs):
        ok, what = sim.wellformed_trace(obs["acts"])
        ln = _first_line(case)
        sp = ln.rsplit(b"size", 1)[-1].lstrip(b" =")[:6].decode("latin1") if b"size" in ln else "-"
        return f"{what}|{sp}|up{int(case['up'])}|u{obs['u']}|{'lost' if obs['lost'] else ''}|{'await' if obs['awaiting'] else ''}"


def _named(case, obs, v):
    """a verdict with the request line it is about (and the exception that left a protocol callback, if one did)"""
    if v is None:
        return None
    return (v[0], v[1] + f" (request line {_first_line(case)!r}, upload handler {'configured' if case['up'] else 'absent'}"
                         + (f"; an exception reached the event loop: {obs['exc'][0]}" if obs["exc"] else "") + ")")


def _first_line(case) -> bytes:
    data = b"".join(bytes.fromhex(e[1]) for e in case["evs"] if e[0] == "d")
    return data.split(b"\r\n", 1)[0][:80]


class Render(Family):
    """the single place where a response becomes bytes: `_encode_response` vs `Srv.render`"""

    name = "render"
    quick_n = 4000
    thorough_n = 100000

    def gen(self, rng: random.Random, n: int):
        alphabet = ["a", " ", "\r", "\n", "é", "€", "😀", "\udc80", "\ud800", "\x00", "\x7f", ";", "=", " "]
        for i in range(n):
            if i % 4 == 0:
                r = [rng.choice(STATUSES), rng.choice(METAS), rng.choice(BODIES)]
            else:
                k = rng.choice([0, 1, 5, 30, 340, 341, 342, 511, 512, 513, 1023, 1024, 1025, 1030])
                meta = "".join(rng.choice(alphabet) for _ in range(k)) if rng.random() < 0.5 else rng.choice(["é", "€", "😀", "a"]) * k
                bk = rng.random()
                body = None if bk < 0.2 else (["s", "".join(rng.choice(alphabet) for _ in range(rng.randint(0, 20)))] if bk < 0.6 else ["b", bytes(rng.randrange(256) for _ in range(rng.randint(0, 20))).hex()])
                r = [rng.choice(STATUSES + [rng.randint(-3, 120)]), meta, body]
            yield {"resp": r}

    def impl(self, case):
        # black box: a synchronous handler returns the response; observe what reaches the transport
        from .srvfam import get_loop

        loop = get_loop()
        c = {"mw": False, "up": False, "handler": ["s", case["resp"]], "evs": [["d", b"gemini://h/\r\n".hex()]]}
        o = loop.run_until_complete(sim.run_conn(loop, c))
        ws = [a[1] for a in o["acts"] if a[0] == "w"]
        closed = bool(o["acts"]) and o["acts"][-1] == ["close"]
        return {"header": ws[0] if ws else "-", "body": "".join(ws[1:]) or "-", "writes": len(ws), "closed": closed, "exc": o["exc"]}

    def model(self, case):
        return "render " + sim.enc_resp(case["resp"])

    def expect(self, case, out):
        _, h, b = out.split(" ")
        return {"header": h, "body": b, "writes": 1 if b == "-" else 2, "closed": True, "exc": []}

    def oracle(self, case, obs):
        raw = (bytes.fromhex(obs["header"]) if obs["header"] != "-" else b"") + (bytes.fromhex(obs["body"]) if obs["body"] != "-" else b"")
        if not raw and not obs["closed"]:
            return ("no-response", "a complete request was answered with nothing at all" + (f" (exception escaped: {obs['exc'][:1]})" if obs["exc"] else ""))
        ok, what = sim.wellformed_trace([["w", raw.hex()], ["close"]] if obs["closed"] else [["w", raw.hex()]])
        if not ok:
            return ("malformed-response", what)
        return None

    def key(self, case, obs):
        st, meta, body = case["resp"]
        cls = "none" if body is None else body[0]
        out = bytes.fromhex(obs["header"])[:2].decode("latin1") if obs["header"] != "-" else "none"
        return f"st{'ok' if isinstance(st, int) and 10 <= st <= 69 else 'bad'}|meta{min(len(meta), 1025) // 256}|{cls}|out{out}"


class Pump(PumpFamily):
    """both halves of C01 on the PyOpenSSL backend: the decrypted stream is one well-formed response, then close"""

    name = "pump"

    def gen(self, rng, n):
        # bodies around and far beyond the TLS record size and the pump's flush sizes: never half-written
        big = [{"up": False, "mw": False, "handler": ["s", [20, "application/octet-stream", ["z", size]]], "app": [b"gemini://localhost/big\r\n".hex()],
                "close_notify": False, "plaintext": None, "cutseed": size, "maxcuts": cuts, "stall": None, "cert": None, "post": []}
               for size in (16384, 16385, 70000, 262144, 524288, 600000, 1100000, 2500000) for cuts in (0, 3)]
        for c in self.share(big):
            yield c
        for c in self.share(self.talkative()):
            yield c
        for i in range(n):
            c = gen_pump_case(rng)
            # asyncio's contract for what this backend runs on (a TCP transport): an exception that leaves data_received() is fatal,
            # the transport is force-closed and connection_lost(exc) follows - the client gets whatever had been written, no more
            c["fatal"] = True
            if i % 12 == 0:   # bytes sent without TLS: never a Gemini response, never a handler
                c["plaintext"] = rng.choice([b"gemini://localhost/\r\n", b"GET / HTTP/1.0\r\n\r\n", bytes(rng.randrange(256) for _ in range(30)), b"\x16\x03\x01\x00\x05hello"]).hex()
            yield c

    @staticmethod
    def talkative():
        """clients that keep sending after their complete request while the answer is still pending (a handler that completes later,
        the middleware task, an upload handler at work): a second request line, an upload body nobody asked for, single bytes, a full
        TLS record; every record in a read of its own or all of them in one.  The extra bytes are the client's business - the request
        has been delivered, so its one response is due as soon as the handler has finished."""
        ok = [20, "text/gemini", ["s", "# late\n"]]
        extras = [[b"gemini://localhost/second\r\n"], [b"x"], [b"\r\n"], [b"more", b"and more"], [b"E" * 16384], [b"a", b"b", b"c"]]
        out = []
        for k, extra in enumerate(extras):
            for req, up, mw, post in (
                    ([b"gemini://localhost/page\r\n"], False, False, [["ha", ok]]),
                    ([b"gemini://localhost/page\r\n"], True, True, [["ma"], ["ha", ok]]),
                    ([b"gemini://localhost/page\r\n"], False, True, [["md", "53 Access denied\r\n"]]),
                    ([b"gemini://localhost/page\r\n"], False, False, [["hr"]]),
                    ([b"titan://localhost/f;size=3\r\n", b"abc"], True, False, [["ua", ok]]),
                    ([b"titan://localhost/f;size=3\r\nabc"], True, True, [["ma"], ["ur"]])):
                for sep in (True, False):
                    n_rec = len(req) + len(extra)
                    out.append({"up": up, "mw": mw, "handler": ["a"], "app": [x.hex() for x in req + extra], "close_notify": False, "plaintext": None,
                                "cutseed": k, "maxcuts": 0, "stall": None, "cert": [None, 0][k % 2], "post": post, "fatal": True,
                                "edgecuts": {"s": [[-j, 0] for j in range(1, n_rec + 1)]} if sep else None})
        return out

    @staticmethod
    def oracle_answered(case, obs):
        """the half of C01 the well-formedness rules do not cover on this backend: a client that completed the TLS handshake and
        delivered a full request line (or more than 1024 bytes) and is still there gets its response once nothing the server waits
        for is outstanding.  Judged only when the case leaves no doubt: no stall, no close_notify from the client (a client that
        has said good-bye may be left without an answer), every scripted completion that was started has been completed."""
        if case.get("stall") or case.get("close_notify") or obs.get("pending") is None or obs["pending"]:
            return None
        data = b"".join(bytes.fromhex(a) for a in case["app"])
        if b"\r\n" not in data and len(data) <= 1024:
            return None
        if obs["plain"] != "-":
            return None
        sent = b"".join(bytes.fromhex(a) for a in case["app"])
        line = sent.split(b"\r\n", 1)[0][:80]
        after = sent.split(b"\r\n", 1)[1] if b"\r\n" in sent else b""
        return ("no-response", f"the client completed the TLS handshake, delivered the request line {line!r}"
                               + (f" and then {len(after)} more bytes ({after[:24]!r}...)" if after else "")
                               + f" in {len(case['app'])} TLS records and stayed connected; handler calls h={obs['h']} u={obs['u']} m={obs['m']}, nothing is outstanding"
                               + f" - yet it received 0 bytes (TCP connection closed: {obs['tcpclosed']}"
                               + (f"; an exception left data_received, which asyncio treats as fatal: {obs['exc'][0]}" if obs["exc"] else "") + ")")

    def oracle(self, case, obs):
        if case.get("plaintext") is not None:
            if obs["h"] or obs["u"] or obs["m"] or obs["plain"] != "-":
                return ("plaintext-served", f"bytes sent without TLS reached a handler or elicited a response: {obs}")
            return None
        return self.oracle_wellformed(case, obs) or self.oracle_once(case, obs) or self.oracle_answered(case, obs)


class Content(Family):
    """content that flows from a document root into responses: file names that cannot be decoded or that contain
    CR/LF, listings on/off, locations routing — through the real Router / StaticFileHandler behind the protocol.
    No model line: the renderer theorem covers every (status, meta, body); this family checks the glue."""

    name = "content"
    quick_n = 150
    thorough_n = 3000

    def gen(self, rng: random.Random, n: int):
        names = ["a.gmi", "index.gmi", "sp ace.txt", "caf\u00e9.gmi", "bad\udcff.gmi", "cr\rlf\n.gmi", "x" * 200 + ".gmi", "dir", "bin.dat", "%41.gmi"]
        for _ in range(n):
            files = rng.sample(names, rng.randint(1, 6))
            paths = ["/", "/dir/", "/dir", "/nope", "/bad%ED%B3%BF.gmi", "/a.gmi", "/sp%20ace.txt", "/bin.dat", "/" + "y" * 300, "/%00", "/cr%0Dlf%0A.gmi", "/caf%C3%A9.gmi"]
            yield {"files": files, "listing": rng.random() < 0.7, "path": rng.choice(paths), "routing": rng.choice(["root", "locations"]),
                   "bin": rng.random() < 0.5}

    def impl(self, case):
        import os
        import shutil
        import tempfile

        from nauyaca.server.handler import StaticFileHandler
        from nauyaca.server.router import Router, RouteType

        from .srvfam import get_loop

        d = tempfile.mkdtemp(prefix="nv-c01-")
        try:
            root = os.path.join(d, "root")
            os.makedirs(os.path.join(root, "dir"))
            for nm in case["files"]:
                if nm == "dir":
                    continue
                p = os.path.join(os.fsencode(root), os.fsencode(nm.encode("utf-8", "surrogateescape").decode("utf-8", "surrogateescape")))
                try:
                    with open(p, "wb") as f:
                        f.write(b"\xff\xfe binary" if (nm.endswith(".dat") and case["bin"]) else ("# " + nm.encode("utf-8", "replace").decode()).encode())
                    with open(os.path.join(os.fsencode(root), b"dir", os.path.basename(p)), "wb") as f:
                        f.write(b"sub")
                except OSError:
                    pass
            sh = StaticFileHandler(root, enable_directory_listing=case["listing"])
            router = Router()
            if case["routing"] == "locations":
                router.add_route("/dir/", sh.handle, RouteType.PREFIX)
            router.set_default_handler(sh.handle)
            loop = get_loop()
            c = {"mw": False, "up": False, "handler": ["a"], "evs": [["d", (b"gemini://h" + case["path"].encode() + b"\r\n").hex()]]}
            o = loop.run_until_complete(sim.run_conn(loop, c, handler=router.route))
            return {"acts": o["acts"], "exc": o["exc"]}
        finally:
            shutil.rmtree(d, ignore_errors=True)

    def oracle(self, case, obs):
        ok, what = sim.wellformed_trace(obs["acts"])
        if not ok:
            return ("malformed-response", what)
        if not obs["acts"]:
            return ("no-response", f"complete request for {case['path']!r} answered with nothing (exceptions: {obs['exc'][:1]})")
        return None

    def key(self, case, obs):
        ok, what = sim.wellformed_trace(obs["acts"])
        return f"{what}|{case['path'][:8]}|listing{int(case['listing'])}|{case['routing']}"


class Flow(Family):
    """the response write pump under a transport that pauses and resumes writing (what asyncio's TLS transport does
    to a large response and a slow reader): pieces in order, nothing while paused, close only after the last piece"""

    name = "flow"
    quick_n = 600
    thorough_n = 12000

    def gen(self, rng: random.Random, n: int):
        sizes = [0, 1, 65535, 65536, 65537, 131072, 131073, 200000, 262144, 400000]
        fixed = []
        for size in sizes:
            for evs in ([["s"]], [["lim", 0], ["s"], ["rw"]], [["lim", 1], ["s"], ["lim", 0], ["rw"], ["rw"]], [["lim", 0], ["s"], ["l"], ["rw"]],
                        [["lim", 2], ["s"], ["rw"], ["rw"]], [["s"], ["pw"], ["rw"]], [["pw"], ["s"], ["rw"]], [["lim", 0], ["s"], ["lim", 0], ["rw"], ["lim", 0], ["rw"], ["rw"], ["rw"], ["rw"], ["rw"], ["rw"]]):
                fixed.append({"resp": [20, "application/octet-stream", ["z", size]], "evs": evs})
        for c in self.share(fixed):
            yield c
        for _ in range(n):
            size = rng.choice(sizes + [rng.randint(0, 500000)])
            st = rng.choice([20, 20, 20, 51, 30])
            evs = []
            if rng.random() < 0.7:
                evs.append(["lim", rng.randint(0, 4)])
            if rng.random() < 0.1:
                evs.append(["pw"])
            evs.append(["s"])
            for _ in range(rng.randint(0, 8)):
                r = rng.random()
                evs.append(["rw"] if r < 0.5 else ["lim", rng.randint(0, 3)] if r < 0.8 else ["pw"] if r < 0.9 else ["l"] if r < 0.95 else ["s"])
            yield {"resp": [st, "application/octet-stream", ["z", size]], "evs": evs}

    def impl(self, case):
        from .srvfam import get_loop

        loop = get_loop()
        return loop.run_until_complete(sim.run_flow(loop, case))

    def model(self, case):
        m = {"s": "s", "rw": "r", "pw": "p", "l": "l"}
        return "flow " + sim.enc_resp(case["resp"]) + " " + " ".join(f"k:{e[1]}" if e[0] == "lim" else f"t:{e[1]}" if e[0] == "tick" else m[e[0]] for e in case["evs"])

    def expect(self, case, out):
        assert out.startswith("ok "), out
        body = out[3:].split(" ")[0]
        return {"acts": [x for x in body.split(",") if x]}

    def same(self, exp, obs):
        return exp["acts"] == obs["acts"] and not obs["exc"] and obs["dropped"] == 0

    def oracle(self, case, obs):
        st, meta, body = case["resp"]
        want = (f"{st} {meta}\r\n".encode() + (b"Z" * body[1] if 20 <= st <= 29 else b"")).hex()
        raw = obs["raw"]
        if not want.startswith(raw):
            return ("flow-not-prefix", f"what was written is not a prefix of the response ({len(raw) // 2} bytes written)")
        acts = obs["acts"]
        if "close" in acts:
            if acts[-1] != "close" or acts.count("close") != 1:
                return ("bytes-after-close", f"trace {acts}")
            if raw != want:
                return ("half-written", f"connection closed after {len(raw) // 2} of {len(want) // 2} response bytes")
        if obs["dropped"]:
            return ("bytes-after-close", f"{obs['dropped']} writes after the close")
        if obs["h"] and raw and "close" not in acts and not obs.get("lost") and not obs.get("paused_end", True):
            # the transport is accepting data (its last word was resume_writing, or it never paused), the peer is there,
            # a response was begun: it must have been finished AND ended -- in Gemini the close is the end-of-response mark
            return ("never-closed" if raw == want else "stuck-half-written",
                    f"{len(raw) // 2} of {len(want) // 2} response bytes written, transport writable, peer connected, but the connection was not closed")
        return None

    def key(self, case, obs):
        return f"pieces{len([a for a in obs['acts'] if a != 'close'])}|closed{int('close' in obs['acts'])}|evs{min(len(case['evs']), 6)}"


class Sys(Family):
    """the composed machine M-Sys: reads, middleware, handlers, the timer AND a transport that pauses and resumes writing, all in
    one event list against the real `GeminiServerProtocol`: whatever the order, the bytes that reach the transport are a prefix
    of the one response that was decided, and the connection is closed only when all of it was written"""

    name = "sys"
    quick_n = 1500
    thorough_n = 40000

    def gen(self, rng: random.Random, n: int):
        from .srvfam import gen_case, gen_orderly, gen_resp

        def big(r):
            return [r[0], r[1], ["z", rng.choice([0, 1, 65535, 65536, 65537, 131072, 200000, 300000])]] if 20 <= r[0] <= 29 and rng.random() < 0.6 else r

        def happy():
            # a valid request (possibly split), admitted, answered with a body of several pieces
            line = rng.choice([b"gemini://h/x\r\n", b"gemini://h/a/b?q=1\r\n", b"titan://h/f;size=3\r\nabc", b"titan://h/f;size=0\r\n"])
            cut = rng.randint(1, len(line) - 1)
            data = [line] if rng.random() < 0.5 else [line[:cut], line[cut:]]
            mw = rng.random() < 0.4
            titan = line.startswith(b"titan")
            resp = [rng.choice([20, 20, 20, 21, 51]), "application/octet-stream", ["z", rng.choice([1, 65536, 65537, 131072, 200000, 262144, 300000, 400000])]]
            hk = rng.choice(["s", "a"])
            evs = [["d", x.hex()] for x in data]
            if mw:
                evs.append(rng.choice([["ma"], ["ma"], ["ma"], ["md", "53 no\r\n"]]))
            if titan:
                evs.append(["ua", resp])
            elif hk == "a":
                evs.append(["ha", resp])
            return {"mw": mw, "up": titan or rng.random() < 0.3, "handler": ["s", resp] if hk == "s" else ["a"], "evs": evs}

        for i in range(n):
            c = happy() if i % 5 < 3 else gen_orderly(rng) if i % 5 == 3 else gen_case(rng)
            if c["handler"][0] == "s":
                c["handler"] = ["s", big(c["handler"][1])]
            evs = [[e[0], big(e[1])] if e[0] in ("ha", "ua") else e for e in c["evs"]]
            # the transport's side of the story, anywhere in the event list
            for _ in range(rng.randint(1, 5)):
                r = rng.random()
                ev = ["lim", rng.randint(0, 3)] if r < 0.45 else ["pw"] if r < 0.6 else ["rw"]
                evs.insert(rng.randint(0, len(evs)), ev)
            if rng.random() < 0.15:
                evs.insert(rng.randint(0, len(evs)), rng.choice([["l"], ["tick", 241], ["tick", 100]]))
            evs += [["rw"]] * rng.choice([0, 1, 2, 6])
            c["evs"] = evs
            c["eof"] = rng.random() < 0.5
            yield c

    def impl(self, case):
        from .srvfam import get_loop

        loop = get_loop()
        return loop.run_until_complete(sim.run_conn(loop, case))

    def model(self, case):
        return sim.enc_case(case, verb="sys")

    def expect(self, case, out):
        assert out.startswith("ok "), out
        left, _, right = out[3:].partition(" | ")
        dec, _, rest = right.partition(" h=")
        kv = dict(x.split("=", 1) for x in ("h=" + rest).split())
        return {"acts": [x for x in left.strip().split(",") if x], "decided": dec[len("decided="):].split(), "h": int(kv["h"]), "u": int(kv["u"]), "m": int(kv["m"]),
                "paused": kv["paused"] == "true"}

    def same(self, exp, obs):
        got = [("close" if a[0] == "close" else f"w{len(a[1]) // 2}") for a in obs["acts"]]
        want = exp["acts"]
        if "w~" in want:        # the text of the message comes from a Python exception: one write, then the close
            ok = len(got) == len(want) and all(g == w or (w == "w~" and g.startswith("w")) for g, w in zip(got, want))
        else:
            ok = got == want
        if ok and not any(t.startswith("~") or t.startswith("W") for t in exp["decided"]):
            raw = b"".join(bytes.fromhex(a[1]) for a in obs["acts"] if a[0] == "w")
            full = b"".join(bytes.fromhex(t[2:]) for t in exp["decided"] if t.startswith("w:") and t != "w:-")
            ok = full.startswith(raw)
        return ok and exp["h"] == obs["h"] and exp["u"] == obs["u"] and exp["m"] == obs["m"] and obs["dropped"] == 0 and not obs["exc"]

    def oracle(self, case, obs):
        acts = obs["acts"]
        raw = b"".join(bytes.fromhex(a[1]) for a in acts if a[0] == "w")
        if ["close"] in acts:
            ok, what = sim.wellformed_trace(acts)
            if not ok:
                return ("malformed-response" if acts[-1] == ["close"] and acts.count(["close"]) == 1 else "bytes-after-close", what)
        elif raw:
            i = raw.find(b"\r\n")
            if i >= 0 and sim.HEADER_RE.match(raw) is None:
                return ("malformed-response", f"header written so far is not well-formed: {raw[:60]!r}")
            if not obs["lost"] and not obs["paused_end"] and not obs["pending"]:
                return ("never-closed", f"{len(raw)} response bytes written, transport writable, peer connected, nothing pending, but the connection was not closed")
        if obs["dropped"]:
            return ("bytes-after-close", f"{obs['dropped']} writes after the close")
        return ConnFamily.oracle_once(case, obs)

    def key(self, case, obs):
        n = len([a for a in obs["acts"] if a[0] == "w"])
        return f"w{min(n, 6)}|closed{int(['close'] in obs['acts'])}|h{obs['h']}u{obs['u']}m{obs['m']}|{'lost' if obs['lost'] else ''}|paused{int(obs['paused_end'])}"

    def shrink(self, case, bad):
        return ConnFamily.shrink(self, case, bad)


# what a handler can hand back instead of a response (a forgotten `return`, the pieces of a response as a tuple, the header as
# text, a bare status, ...) and what it can raise: ordinary values and Exception classes, each built afresh per call
JUNK = {
    "none": lambda: None,
    "tuple": lambda: (20, "text/gemini", "ok\n"),
    "str": lambda: "20 text/gemini\r\nok\n",
    "bytes": lambda: b"20 text/gemini\r\nok\n",
    "int": lambda: 20,
    "true": lambda: True,
    "dict": lambda: {"status": 20, "meta": "text/gemini", "body": "ok\n"},
    "list": lambda: [20, "text/gemini"],
    "object": lambda: object(),
    "class": lambda: __import__("nauyaca.protocol.response", fromlist=["GeminiResponse"]).GeminiResponse,     # the class, not an instance
    "duck-nourl": lambda: __import__("types").SimpleNamespace(status=20, meta="text/gemini", body="ok\n"),     # a look-alike without .url
    "duck": lambda: __import__("types").SimpleNamespace(status=20, meta="text/gemini", body="ok\n", url=None),
    "generator": lambda: (x for x in (20, "text/gemini")),
    # look-alikes that have a `.url` but lack the attributes a response is serialised from (found by builder b1 on the tree before
    # fix db3047c: the response was marked as sent before `.status` was read, nothing was written and nothing closed the connection)
    "urlonly": lambda: __import__("types").SimpleNamespace(url="x"),
    "nostatus": lambda: __import__("types").SimpleNamespace(url="gemini://h/", meta="text/gemini", body="ok\n"),
}
RAISES = {
    "runtime": lambda: RuntimeError("boom"),
    "crlf": lambda: ValueError("first\r\nsecond 20 text/gemini\r\n"),
    "key": lambda: KeyError("k"),
    "oserror": lambda: OSError(28, "No space left on device"),
    "long": lambda: Exception("x" * 3000),
    "nonascii": lambda: LookupError("caf\u00e9 \u20ac \U0001f600 \udcff"),
    "empty": lambda: Exception(),
    "timeout": lambda: TimeoutError(),
    "assert": lambda: AssertionError(("a", 1)),
    "unicode": lambda: UnicodeDecodeError("utf-8", b"\xff", 0, 1, "invalid start byte"),
    "stopiter": lambda: StopAsyncIteration("done"),
    "memory": lambda: MemoryError(),
    # not an Exception but a BaseException: what `task.result()` raises for a cancelled task (before fix 66c03c5 it escaped the
    # done-callbacks: no response, no close)
    "cancelled": lambda: __import__("asyncio").CancelledError(),
}



# a response OBJECT whose fields are not what the annotations say (status: int, meta: str, body: str | bytes | None): handlers build
# the meta from a list of MIME parameters and forget the join, pass the header dict, a bytearray from a buffer, an Exception as the
# message, an enum member as status ...  The encoder's contract is "never raises, always a well-formed header": it must hold for
# values that cannot be hashed, compared, cached, sliced or concatenated like a str - every one of them has an ordinary str().
# name -> () -> (status, meta, body), built afresh per call
@__import__("dataclasses").dataclass
class _Record:      # eq=True without frozen: instances are unhashable
    mime: str = "text/gemini"


class _ListSub(list):
    pass


class _OddStr(str):     # a str in every respect except that it cannot be a dict key
    __hash__ = None


def _enum20():
    return __import__("nauyaca.protocol.status", fromlist=["StatusCode"]).StatusCode.SUCCESS


class _NoStr:
    """an object whose own text conversion fails (a lazy template that cannot be rendered, a proxy whose target is gone)"""

    def __str__(self):
        raise RuntimeError("cannot be rendered")


class _NoBool(list):
    def __bool__(self):
        raise ValueError("truth value is ambiguous")


class _MixEnum(int, __import__("enum").Enum):
    """an Enum with int mixed in (not an IntEnum): it IS an int, and formats as its member name"""
    OK = 20
    GONE = 52


class _OddInt(int):
    """an int whose text is not its digits (a unit-carrying or pretty-printing subclass)"""

    def __str__(self):
        return "twenty"

    __format__ = lambda self, spec: "twenty"      # noqa: E731


class _NoInt(int):
    def __int__(self):
        raise RuntimeError("no plain value")


ODD = {
    "status=mixed-enum": lambda: (_MixEnum.OK, "text/gemini", "ok\n"),
    "status=mixed-enum,52": lambda: (_MixEnum.GONE, "Gone", None),
    "status=int-with-odd-text": lambda: (_OddInt(20), "text/gemini", "ok\n"),
    "status=int-without-int": lambda: (_NoInt(20), "text/gemini", "ok\n"),
    "meta=str-raises": lambda: (20, _NoStr(), "ok\n"),
    "meta=str-raises,51": lambda: (51, _NoStr(), None),
    "body=str-raises": lambda: (20, "text/gemini", _NoStr()),
    "body=bool-raises": lambda: (20, "text/gemini", _NoBool(["a"])),
    "meta=list": lambda: (20, ["text/gemini", "charset=utf-8"], "ok\n"),
    "meta=dict": lambda: (20, {"mime": "text/gemini"}, "ok\n"),
    "meta=set": lambda: (20, {"text/gemini"}, "ok\n"),
    "meta=bytearray": lambda: (20, bytearray(b"text/gemini"), "ok\n"),
    "meta=bytes": lambda: (20, b"text/gemini", "ok\n"),
    "meta=memoryview": lambda: (20, memoryview(b"text/gemini"), "ok\n"),
    "meta=tuple": lambda: (20, ("text/gemini", "lang=en"), "ok\n"),
    "meta=tuple-of-list": lambda: (20, ("text/gemini", ["lang=en"]), "ok\n"),
    "meta=nested": lambda: (20, [["a"], {"b": [1]}], "ok\n"),
    "meta=list-subclass": lambda: (20, _ListSub(["text/gemini"]), "ok\n"),
    "meta=record": lambda: (20, _Record(), "ok\n"),
    "meta=unhashable-str": lambda: (20, _OddStr("text/gemini"), "ok\n"),
    "meta=deque": lambda: (20, __import__("collections").deque(["text/gemini"]), "ok\n"),
    "meta=crlf-list": lambda: (20, ["a\r\nb", "20 x\r\n"], "ok\n"),
    "meta=long-list": lambda: (20, ["x" * 600, "\u20ac" * 400], "ok\n"),
    "meta=exception": lambda: (51, KeyError("no\r\nsuch"), None),
    "meta=none": lambda: (20, None, "ok\n"),
    "meta=int": lambda: (51, 404, None),
    "meta=float": lambda: (20, 1.5, "ok\n"),
    "meta=nan": lambda: (44, float("nan"), None),
    "meta=decimal": lambda: (44, __import__("decimal").Decimal("2.5"), None),
    "meta=true": lambda: (20, True, "ok\n"),
    "meta=enum": lambda: (20, _enum20(), "ok\n"),
    "meta=object": lambda: (20, object(), "ok\n"),
    "meta=frozenset": lambda: (20, frozenset(["text/gemini"]), "ok\n"),
    "meta=range": lambda: (20, range(3), "ok\n"),
    "meta=list,51": lambda: (51, ["Not", "found"], None),
    "meta=dict,30": lambda: (30, {"to": "gemini://h/y"}, None),
    "meta=list,10": lambda: (10, ["Name?"], None),
    "meta=bytearray,60": lambda: (60, bytearray(b"cert"), "not for the wire"),
    "status=enum": lambda: (_enum20(), "text/gemini", "ok\n"),
    "status=enum,meta=list": lambda: (_enum20(), ["text/gemini"], "ok\n"),
    "status=float": lambda: (20.0, "text/gemini", "ok\n"),
    "status=str": lambda: ("20", "text/gemini", "ok\n"),
    "status=list": lambda: ([20], ["text/gemini"], "ok\n"),
    "status=none,meta=dict": lambda: (None, {"a": 1}, "ok\n"),
    "status=true": lambda: (True, "text/gemini", "ok\n"),
    "status=nan": lambda: (float("nan"), "x", None),
    "status=huge": lambda: (10 ** 400, ["x"], None),
    "body=list": lambda: (20, "text/gemini", ["# a", "b"]),
    "body=dict": lambda: (20, "text/gemini", {"a": 1}),
    "body=int": lambda: (20, "text/gemini", 7),
    "body=zero": lambda: (20, "text/gemini", 0),
    "body=list,51": lambda: (51, "Not found", ["leak"]),
    "body=bytearray,meta=list": lambda: (20, ["application/octet-stream"], bytearray(b"\x00\xff")),
    "body=exception": lambda: (20, "text/plain", ValueError("x\udcffy")),
}


def _odd_repr(name) -> str:
    try:
        return ", ".join(repr(x)[:50] for x in ODD[name]())
    except Exception as e:  # noqa: BLE001
        return f"? {type(e).__name__}"


class Outcomes(Family):
    """whatever a request or upload handler DOES - hands back a response, hands back something that is no response at all, raises
    an exception of whatever class - and WHEN it does it - at once (synchronous handler), after some turns of the event loop, after
    some time (coroutine handlers, every upload handler): one well-formed response, then the close.  The deferred completions are
    the point: their results are looked at in a done-callback of the task, where an exception that escapes reaches nobody.
    Direct oracle (the renderer theorem and M-Sys cover what a response becomes; a value that is no response behaves, for the
    model, like a handler that raises)."""

    name = "outcomes"
    quick_n = 1200
    thorough_n = 15000

    GEMINI = [b"gemini://h/x\r\n", b"gemini://h/a/b?q=1\r\n", b"gemini://h/\r\nEXTRA"]
    TITAN = [b"titan://h/f;size=3\r\nabc", b"titan://h/f;size=0\r\n", b"titan://h/d/e.txt;size=5;mime=text/plain;token=t\r\nhello"]

    def gen(self, rng: random.Random, n: int):
        from .srvfam import cut, gen_resp

        outs = [["junk", k] for k in JUNK] + [["raise", k] for k in RAISES] + [["odd", k] for k in ODD]
        fixed = []
        for kind in ("sync", "async", "upload"):
            for out in outs:
                for wait in (["y", 0], ["y", 3], ["t", 4]):
                    if kind == "sync" and (wait != ["y", 0] or out == ["raise", "cancelled"]):
                        continue        # (CancelledError is what a cancelled TASK's result raises: deferred completions only)
                    line = (self.TITAN if kind == "upload" else self.GEMINI)[0]
                    fixed.append({"kind": kind, "out": out, "wait": wait, "mw": False,
                                  "evs": [["d", line.hex()]] + ([["tick", 8]] if wait[0] == "t" else [])})
        k = 0
        for c in self.share(fixed):
            k += 1
            yield c
        while k < n:
            k += 1
            kind = rng.choice(("sync", "async", "async", "upload", "upload"))
            r = rng.random()
            out = ["resp", gen_resp(rng)] if r < 0.25 else rng.choice(outs)
            if out == ["raise", "cancelled"] and kind == "sync":
                kind = "async"
            wait = ["y", rng.choice((0, 1, 2, 5, 9))] if rng.random() < 0.6 else ["t", rng.choice((1, 4, 8, 40, 400, 4000))]
            line = rng.choice(self.TITAN if kind == "upload" else self.GEMINI)
            mw = rng.random() < 0.3
            evs = [["d", x.hex()] for x in cut(rng, line, 2)]
            if mw:
                evs.append(["ma"])
            if wait[0] == "t" and kind != "sync":
                q = rng.random()
                steps = [wait[1]] if q < 0.4 else [1] * min(wait[1], 10) + [wait[1]] if q < 0.7 else [wait[1] * 3] if q < 0.9 else [max(1, wait[1] // 2)]
                evs += [["tick", t] for t in steps]
            # the transport's and the peer's side of the story, anywhere
            for _ in range(rng.choice((0, 0, 1, 2))):
                q = rng.random()
                evs.insert(rng.randint(0, len(evs)), ["lim", rng.randint(0, 2)] if q < 0.4 else ["pw"] if q < 0.6 else ["rw"] if q < 0.8 else ["l"])
            evs += [["rw"]] * rng.choice((0, 2))
            yield {"kind": kind, "out": out, "wait": wait, "mw": mw, "evs": evs, "eof": rng.random() < 0.5}

    def impl(self, case):
        import asyncio

        from .srvfam import get_loop

        loop = get_loop()
        st = {"started": 0, "finished": 0}
        kind, out, wait = case["kind"], case["out"], case["wait"]

        def produce():
            st["finished"] += 1
            if out[0] == "resp":
                return sim.mkresp(out[1])
            if out[0] == "raise":
                raise RAISES[out[1]]()
            if out[0] == "odd":
                from nauyaca.protocol.response import GeminiResponse

                status, meta, body = ODD[out[1]]()
                return GeminiResponse(status=status, meta=meta, body=body, url="gemini://h/x" if len(out[1]) % 2 else None)
            return JUNK[out[1]]()

        async def later():
            if wait[0] == "t":
                await asyncio.sleep(wait[1] / 8)
            else:
                for _ in range(wait[1]):
                    await asyncio.sleep(0)
            return produce()

        def handler(req):
            st["started"] += 1
            return produce() if kind == "sync" else later()

        class Up:
            async def handle_upload(self, req):
                st["started"] += 1
                return await later()

        c = {"mw": case["mw"], "up": True, "handler": ["a"], "evs": case["evs"]}
        if "eof" in case:
            c["eof"] = case["eof"]
        o = loop.run_until_complete(sim.run_conn(loop, c, handler=handler, upload_handler=Up()))
        # a handler still waiting for its time when the case ends must not wake up during a later case on this loop
        left = [t for t in asyncio.all_tasks(loop) if not t.done()]
        for t in left:
            t.cancel()
        if left:
            loop.run_until_complete(sim._drain())
        return {"acts": o["acts"], "lens": o["lens"], "dropped": o["dropped"], "exc": o["exc"], "lost": o["lost"], "paused_end": o["paused_end"],
                "pending": o["pending"], "m": o["m"], "started": st["started"], "finished": st["finished"]}

    def oracle(self, case, obs):
        acts = obs["acts"]
        what = f"{case['kind']} handler that " + {"resp": "returns a response", "junk": f"returns {case['out'][1]!r} (no response object)", "raise": f"raises {case['out'][1]!r}",
                                                     "odd": f"returns GeminiResponse(status, meta, body) with {case['out'][1]} [{_odd_repr(case['out'][1])}]"}[case["out"][0]] \
            + ("" if case["kind"] == "sync" else f" after {case['wait'][1]} turns of the event loop" if case["wait"][0] == "y" else f" after {case['wait'][1] / 8} s")
        esc = f"; an exception reached the event loop: {obs['exc'][0]}" if obs["exc"] else ""
        if obs["started"] > 1 or obs["finished"] > 1:
            return ("handler-twice", f"{what}: invoked {obs['started']} times on one connection")
        raw = b"".join(bytes.fromhex(a[1]) for a in acts if a[0] == "w")
        if obs["dropped"]:
            return ("bytes-after-close", f"{what}: {obs['dropped']} writes after the close")
        li = next((i for i, e in enumerate(case["evs"]) if e[0] == "l"), None)
        if li is not None and any(a[0] == "w" for a in acts[obs["lens"][li - 1] if li else 0:]) and obs["finished"] and not acts[:obs["lens"][li - 1] if li else 0]:
            # (pieces of a response begun before the peer went away are the write pump's business, family sys)
            return ("write-after-disconnect", f"{what}: the peer had disconnected before anything was written, yet {len(raw)} bytes were written afterwards")
        if ["close"] in acts:
            ok, why = sim.wellformed_trace(acts)
            if not ok:
                return ("malformed-response" if acts[-1] == ["close"] and acts.count(["close"]) == 1 else "bytes-after-close", f"{what}: {why}{esc}")
            return None
        if raw:
            if raw.find(b"\r\n") >= 0 and sim.HEADER_RE.match(raw) is None:
                return ("malformed-response", f"{what}: header written so far is not well-formed: {raw[:60]!r}")
            if not obs["lost"] and not obs["paused_end"]:
                return ("never-closed", f"{what}: {len(raw)} response bytes written, transport writable, peer connected, but the connection was not closed{esc}")
            return None
        # nothing written, not closed: only while somebody has not had his say yet, or when the peer is gone
        if obs["finished"] and not obs["lost"] and not obs["paused_end"]:
            return ("no-response", f"{what}: the request was complete, the handler has finished, the peer is still connected - and nothing was written, "
                                   f"the connection is still open{esc}")
        return None

    def key(self, case, obs):
        raw = b"".join(bytes.fromhex(a[1]) for a in obs["acts"] if a[0] == "w")
        w = "y0" if case["wait"] == ["y", 0] else case["wait"][0]
        return f"{case['kind']}|{case['out'][0]}:{case['out'][1] if case['out'][0] != 'resp' else ''}|{w}|mw{int(case['mw'])}|{raw[:2].decode('latin1') or '-'}|closed{int(['close'] in obs['acts'])}|fin{obs['finished']}"

    def shrink(self, case, bad):
        return ConnFamily.shrink(self, case, bad)


class Pair(Family):
    """two (or three) connections served by one process at the same time, their events interleaved: every connection gets exactly the
    response it gets when it is alone - nothing of one connection (buffers, queues, cached requests, peer data) shows up in another"""

    name = "pair"
    quick_n = 500
    thorough_n = 12000

    def gen(self, rng: random.Random, n: int):
        from .srvfam import gen_orderly

        sysfam = Sys()
        sub = sysfam.gen(random.Random(rng.randrange(1 << 30)), 10 ** 9)
        for i in range(n):
            conns = []
            for j in range(rng.choice([2, 2, 3])):
                c = next(sub) if rng.random() < 0.7 else gen_orderly(rng)
                # no clock events: the connections share one event loop clock, so a tick of one is a tick of all
                c["evs"] = [e for e in c["evs"] if e[0] not in ("t", "tick", "wall")]
                c["peer"] = f"192.0.2.{j + 1}"
                c["cert"] = rng.choice([None, None, 0, 1, 2])
                c["delay"] = rng.randint(0, 40)
                conns.append(c)
            yield {"conns": conns}

    def impl(self, case):
        import asyncio

        from .srvfam import get_loop

        loop = get_loop()

        async def one(c):
            for _ in range(c["delay"]):
                await asyncio.sleep(0)
            return await sim.run_conn(loop, c)

        async def together():
            return await asyncio.gather(*(one(c) for c in case["conns"]))

        keep = ("acts", "h", "u", "m", "content", "dropped", "exc", "mwargs", "hargs", "lost", "paused_end", "pending")
        tog = [{k: o[k] for k in keep} for o in loop.run_until_complete(together())]
        alone = [{k: o[k] for k in keep} for o in (loop.run_until_complete(one(c)) for c in case["conns"])]
        return {"together": tog, "alone": alone}

    def model(self, case):
        return None      # each connection alone is compared with M-Sys in family sys

    def oracle(self, case, obs):
        sysfam = Sys()
        for j, (c, t, a) in enumerate(zip(case["conns"], obs["together"], obs["alone"])):
            v = sysfam.oracle(c, t)
            if v:
                return (v[0], f"connection {j + 1} of {len(case['conns'])} served at the same time: " + v[1])
            if t != a:
                diff = [k for k in t if t[k] != a[k]]
                return ("connections-interfere", f"connection {j + 1} of {len(case['conns'])}: served together with the others it differs from being served alone in {diff}: "
                                                 f"{str({k: t[k] for k in diff})[:300]} vs alone {str({k: a[k] for k in diff})[:300]}")
        return None

    def key(self, case, obs):
        return "+".join(sorted(f"w{min(len([a for a in o['acts'] if a[0] == 'w']), 4)}c{int(['close'] in o['acts'])}h{o['h']}u{o['u']}" for o in obs["together"]))


class LiveTail(Family):
    """The real `start_server` (stdlib TLS transport) serving a file small enough that the whole response is handed to the
    transport at once, to a client that reads 32 KiB and then pauses for 31 s of server time: close() has been called, the
    rest is in the transport's buffer, and it must still arrive (asyncio's default ssl_shutdown_timeout of 30 s would tear
    the connection down first -- the response would be neither whole nor absent).  Delegates to C06's live family."""
    realtime = True     # runs on the wall clock (sockets, threads): a failure is re-run once before it counts (core.run_family)
    name = "livetail"
    parallel = False
    quick_n = 2
    thorough_n = 8

    def __init__(self):
        from . import c06
        self._live = c06.Live()

    def gen(self, rng: random.Random, n: int):
        from . import c06
        sizes = [98304, 65536 + 16384, 49152, 114688, 131072, 65536, 40000, 100000]
        rng.shuffle(sizes)
        for sz in sizes[:n]:
            d = c06.gen_dims(rng, sz + rng.randint(0, 64), True)
            d.update({"btype": "str", "status": 20, "fill": "ascii", "meta": "f.gmi", "mode": "static", "supplied": rng.random() < 0.5,
                      "reader": "stall", "stalls": 1, "sndbuf": 4096, "rcvbuf": 2048})
            yield d

    def impl(self, case):
        return self._live.impl(case)

    def model(self, case):
        return self._live.model(case)

    def expect(self, case, out):
        return self._live.expect(case, out)

    def same(self, expected, obs):
        return self._live.same(expected, obs)

    def oracle(self, case, obs):
        return self._live.oracle(case, obs)

    def key(self, case, obs):
        return self._live.key(case, obs)


FAMILIES = [Events(), Sizes(), Render(), Pump(), Content(), Flow(), Sys(), Outcomes(), Pair(), LiveTail()]
