import NauyacaVerif.Fs.Static
namespace Fs

/-! ## M-Upload: `FileUploadHandler.handle_upload / _handle_delete / _is_safe_path`
    as response status + the list of filesystem effects.

Storing (step 6 of `handle_upload`): note which ancestors of the target are missing, create them,
create a fresh sibling temporary file exclusively (`open("xb")`), write, `os.replace` onto the
target; on any failure remove the temporary file (if it was created here) and the directories
created here, deepest first.

The filesystem is the abstract `OS` of `Fs/Static.lean` (`resolve` = `Path.resolve()`, `kind` =
what `stat` sees) extended by `lexists` (what `lstat` sees: is there an entry of this name at
all); `Faults` are the injected storage failures.  Failures that the layout itself causes (a
regular file where a directory is needed, a directory where the file should go, a name longer
than NAME_MAX, an entry that already carries the temporary name) are derived from the OS. -/
abbrev Bytes := List Nat

structure UOS extends OS where
  /-- `lstat` succeeds: some entry (file, directory, symlink — dangling or not) has this name -/
  lexists : Path → Bool
  /-- `os.path.realpath(p)` (non-strict): none = it raised `OSError` / `ValueError` -/
  realpath : Path → Option Path

structure UCfg where
  dir : Path                       -- resolved upload directory
  maxSize : Nat
  allowedTypes : Option (List String)   -- none or [] = all allowed
  tokens : List String                   -- [] = no authentication
  enableDelete : Bool
  tag : String := "0"                    -- `secrets.token_hex(8)` as it appears in the temporary name
  tooLong : Name → Bool := fun n => n.utf8ByteSize > 255          -- NAME_MAX (the OS refuses such a component)
  hasNul : Name → Bool := fun n => n.contains (Char.ofNat 0)     -- embedded NUL (Python refuses the path)

structure UReq where
  comps : List Name      -- request.path.lstrip("/") split on "/"
  size : Nat
  mime : String
  token : Option String
  content : Bytes        -- the bytes that followed the request line

inductive Effect where
  | mkdir (p : Path)                               -- one directory created by `mkdir(parents=True)`
  | writeTemp (p : Path) (b : Bytes) (ok : Bool)   -- file created exclusively; b = the bytes that reached it; ok = false: the write raised
  | rename (src dst : Path) (ok : Bool)
  | unlink (p : Path) (ok : Bool)
  | rmdir (p : Path)                               -- clean-up of a directory created by this request
deriving Repr, DecidableEq

/-- what the storage layer does when asked (fault injection points) -/
structure Faults where
  mkdirFailAt : Option Nat := none       -- the (n+1)-th directory creation raises
  openOk : Bool := true                  -- creating the temporary file raises
  writeFailAfter : Option Nat := none    -- the write raises after n bytes
  renameOk : Bool := true
  unlinkOk : Bool := true

/-- `raised` = the exception leaves `handle_upload` (the protocol layer answers 40) -/
inductive UStatus where | s20 | s40 | s50 | s51 | s59 | s60 | raised
deriving Repr, DecidableEq

def tempName (tag : String) : Name := "." ++ tag ++ ".upload"

def hasNul (c : UCfg) (comps : List Name) : Bool := comps.any c.hasNul

def authOk (c : UCfg) (r : UReq) : Bool :=
  c.tokens.isEmpty || (match r.token with | some t => !t.isEmpty && c.tokens.contains t | none => false)

def typeOk (c : UCfg) (r : UReq) : Bool :=
  match c.allowedTypes with
  | none => true
  | some l => l.isEmpty || l.contains r.mime

/-- `_is_safe_path`: inside the upload directory (component-wise) AND a fixpoint of `realpath` —
    `Path.resolve()` can return a path that still contains symlinks (a link whose target passes
    through the link itself), and those could lead anywhere -/
def safePath (os : UOS) (c : UCfg) (t : Path) : Bool := inside c.dir t && os.realpath t == some t

def consPath (p : Path) (r : Bool × List Path) : Bool × List Path := (r.1, p :: r.2)

/-- `target.parent.mkdir(parents=True, exist_ok=True)` walking down from the upload directory:
    existing directories are passed, missing ones created (until one fails), anything else is an error.
    Returns (succeeded, directories created, outermost first). -/
def mkdirWalk (os : OS) (c : UCfg) (f : Faults) : Path → List Name → Nat → Bool × List Path
  | _, [], _ => (true, [])
  | cur, n :: rest, made =>
    match os.kind (cur ++ [n]) with
    | .dir => mkdirWalk os c f (cur ++ [n]) rest made
    | .missing =>
      if c.tooLong n then (false, [])
      else if f.mkdirFailAt = some made then (false, [])
      else consPath (cur ++ [n]) (mkdirWalk os c f (cur ++ [n]) rest (made + 1))
    | _ => (false, [])

/-- does `stat` of a path below the upload directory meet a component longer than NAME_MAX before
    it meets a missing or non-directory one?  (`Path.exists()` then raises instead of returning False) -/
def probeLong (os : OS) (c : UCfg) : Path → List Name → Bool
  | _, [] => false
  | cur, n :: rest =>
    if os.kind cur != .dir then false
    else if c.tooLong n then true
    else probeLong os c (cur ++ [n]) rest

def tempPath (c : UCfg) (target : Path) : Path := target.dropLast ++ [tempName c.tag]

def mkParents (os : UOS) (c : UCfg) (f : Faults) (target : Path) : Bool × List Path :=
  mkdirWalk os.toOS c f c.dir (target.dropLast.drop c.dir.length) 0

def made (os : UOS) (c : UCfg) (f : Faults) (target : Path) : List Effect := (mkParents os c f target).2.map .mkdir
/-- the clean-up of the failure path: created directories are removed again, deepest first -/
def undo (os : UOS) (c : UCfg) (f : Faults) (target : Path) : List Effect := (mkParents os c f target).2.reverse.map .rmdir

/-- step 6 of `handle_upload` for a target that passed the containment check -/
def store (os : UOS) (c : UCfg) (f : Faults) (target : Path) (content : Bytes) : UStatus × List Effect :=
  if probeLong os.toOS c c.dir (target.dropLast.drop c.dir.length) then (.s40, [])       -- `ancestor.exists()` raises
  else if !(mkParents os c f target).1 then (.s40, made os c f target ++ undo os c f target)
  else if os.lexists (tempPath c target) || !f.openOk then (.s40, made os c f target ++ undo os c f target)
  else match f.writeFailAfter with
    | some k =>
      (.s40, made os c f target ++
        [.writeTemp (tempPath c target) (content.take k) false, .unlink (tempPath c target) true] ++ undo os c f target)
    | none =>
      if !f.renameOk || os.kind target = .dir || c.tooLong (target.getLast?.getD "") then
        (.s40, made os c f target ++
          [.writeTemp (tempPath c target) content true, .rename (tempPath c target) target false, .unlink (tempPath c target) true] ++
          undo os c f target)
      else
        (.s20, made os c f target ++ [.writeTemp (tempPath c target) content true, .rename (tempPath c target) target true])

/-- `_handle_delete` after the `enable_delete` test -/
def deleteAt (os : UOS) (c : UCfg) (f : Faults) (t : Path) : UStatus × List Effect :=
  if !safePath os c t then (.s59, [])
  else if probeLong os.toOS c c.dir (t.drop c.dir.length) then (.raised, [])   -- `target.exists()` raises ENAMETOOLONG
  else if os.kind t = .missing then (.s51, [])
  else if f.unlinkOk && os.kind t != .dir then (.s20, [.unlink t true])
  else (.s40, [.unlink t false])

def handleUpload (os : UOS) (c : UCfg) (f : Faults) (r : UReq) : UStatus × List Effect :=
  if !authOk c r then (.s60, [])
  else if r.size > c.maxSize then (.s50, [])
  else if !typeOk c r then (.s59, [])
  else if r.size = 0 then
    if !c.enableDelete then (.s50, [])
    else if hasNul c r.comps then (.raised, [])
    else match os.resolve (c.dir ++ r.comps) with
      | none => (.raised, [])
      | some t => deleteAt os c f t
  else if hasNul c r.comps then (.raised, [])
  else match os.resolve (c.dir ++ r.comps) with
    | none => (.raised, [])
    | some t =>
      if !safePath os c t || t == c.dir then (.s59, [])
      else store os c f t (r.content.take r.size)

/-! ### a file-level view of the effects: which regular files exist with which bytes afterwards -/
abbrev Files := List (Path × Bytes)

def Files.set (fs : Files) (p : Path) (b : Bytes) : Files := (p, b) :: fs.filter (·.1 != p)
def Files.del (fs : Files) (p : Path) : Files := fs.filter (·.1 != p)
def Files.get (fs : Files) (p : Path) : Option Bytes := (fs.find? (·.1 == p)).map (·.2)

def applyEffect (fs : Files) : Effect → Files
  | .mkdir _ => fs
  | .rmdir _ => fs
  | .writeTemp p b _ => fs.set p b            -- whatever reached the file before the write ended or failed
  | .rename s d ok => if ok then (match fs.get s with | some b => (fs.del s).set d b | none => fs) else fs
  | .unlink p ok => if ok then fs.del p else fs

def applyAll (fs : Files) (es : List Effect) : Files := es.foldl applyEffect fs

/-- paths an effect touches -/
def Effect.paths : Effect → List Path
  | .mkdir p => [p]
  | .rmdir p => [p]
  | .writeTemp p _ _ => [p]
  | .rename s d _ => [s, d]
  | .unlink p _ => [p]

/-! ### a directory-level view: which directories exist afterwards that did not exist before -/
def dirEffect (ds : List Path) : Effect → List Path
  | .mkdir p => ds ++ [p]
  | .rmdir p => ds.filter (· != p)
  | _ => ds

def dirsAfter (ds : List Path) (es : List Effect) : List Path := es.foldl dirEffect ds

end Fs
