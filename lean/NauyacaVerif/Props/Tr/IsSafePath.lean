import NauyacaVerif.Gen.Fn.IsSafePath
import NauyacaVerif.Fs.StaticPy
/-!
`StaticFileHandler._is_safe_path`, TRANSLATED (regenerated from the current source on every run), is the containment test
`Fs.inside` that the model of the static handler - and the translation of `StaticFileHandler.handle`, which took it as given -
apply to every RESOLVED path before anything is served: the document root is a prefix of the path, component by component
(not character by character: `/srv/capsule-private` is not inside `/srv/capsule`; not "up to the shorter of the two").
-/
namespace NauyacaVerif.Translated
open NauyacaVerif.Gen.Fn Fs

theorem is_safe_path_eq (root p : Path) : isSafePath root p = inside root p := by
  unfold isSafePath relativeToE inside
  cases hp : List.isPrefixOf root p <;> simp [hp]

/-- what containment means: the path is the root followed by further components -/
theorem is_safe_path_iff (root p : Path) : isSafePath root p = true ↔ ∃ rest, p = root ++ rest := by
  rw [is_safe_path_eq]; unfold inside
  exact List.isPrefixOf_iff_prefix.trans ⟨fun ⟨t, h⟩ => ⟨t, h.symm⟩, fun ⟨t, h⟩ => ⟨t, h.symm⟩⟩
end NauyacaVerif.Translated
