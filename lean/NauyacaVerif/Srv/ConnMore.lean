import NauyacaVerif.Srv.ConnProof

/-! Further invariants of the server connection machine: silence after disconnect, progress,
    explicit-time timeout (C15) and what a handler can ever be given (C08). -/
namespace Srv

/-! ### primitive facts about `respondWith` and friends -/
theorem respondWith_lost (s : St) (o : List Out) (h : s.lost = true) :
    (respondWith s o).out = s.out ∧ (respondWith s o).lost = true := by
  simp [respondWith, h]

theorem respondWith_lost_eq (s : St) (o : List Out) : (respondWith s o).lost = s.lost := by
  unfold respondWith; split <;> rfl

theorem respondWith_now (s : St) (o : List Out) : (respondWith s o).now = s.now := by
  unfold respondWith; split <;> rfl

theorem respondWith_timer (s : St) (o : List Out) (h : (respondWith s o).timer = true) : s.timer = true ∧ (s.lost = true ∨ s.sent = true) := by
  unfold respondWith at h; split at h
  · rename_i hc; exact ⟨h, by simpa using hc⟩
  · simp at h

/-- once the peer is gone nothing is written any more, whatever happens -/
theorem lost_silent (cfg : Cfg) (s : St) (e : Ev) (h : s.lost = true) :
    (step cfg s e).out = s.out ∧ (step cfg s e).lost = true := by
  cases e with
  | data c => simp [step, h]
  | timeout => simp [step, h]
  | tick dt => simp [step, h]
  | lost => simp [step, h]
  | mwAllow =>
    simp only [step]; split
    · unfold route; simp only; split
      · exact respondWith_lost _ _ (by simpa using h)
      · exact respondWith_lost _ _ (by simpa using h)
      · simpa using h
    · simpa [startUpload] using h
    · exact ⟨rfl, h⟩
  | mwDeny l => simp only [step]; split <;> first | exact respondWith_lost _ _ h | exact ⟨rfl, h⟩
  | mwRaise => simp only [step]; split <;> first | exact respondWith_lost _ _ h | exact ⟨rfl, h⟩
  | hDone r => simp only [step]; split <;> first | exact respondWith_lost _ _ h | exact ⟨rfl, h⟩
  | hRaise => simp only [step]; split <;> first | exact respondWith_lost _ _ h | exact ⟨rfl, h⟩
  | uDone r => simp only [step]; split <;> first | exact respondWith_lost _ _ h | exact ⟨rfl, h⟩
  | uRaise => simp only [step]; split <;> first | exact respondWith_lost _ _ h | exact ⟨rfl, h⟩

theorem lost_silent_run (cfg : Cfg) (s : St) (evs : List Ev) (h : s.lost = true) :
    (evs.foldl (step cfg) s).out = s.out := by
  induction evs generalizing s with
  | nil => rfl
  | cons e es ih =>
    have := lost_silent cfg s e h
    simp only [List.foldl_cons]
    rw [ih _ this.2, this.1]

/-- a peer that disconnects before anything was decided receives nothing at all -/
theorem lost_first_silent (cfg : Cfg) (pre post : List Ev) (h : (run cfg pre).out = []) :
    (run cfg (pre ++ [.lost] ++ post)).out = [] := by
  unfold run at *
  simp only [List.foldl_append, List.foldl_cons, List.foldl_nil]
  rw [lost_silent_run cfg _ post (by simp [step])]
  simpa [step] using h
end Srv

namespace Srv
/-! ### frame facts: the clock only moves on `tick`, the timer is never re-armed -/
theorem respond_now (s : St) (r : Resp) : (respond s r).now = s.now := by unfold respond; exact respondWith_now _ _
theorem respondFixed_now (s : St) (st : Int) (m : String) : (respondFixed s st m).now = s.now := respond_now _ _
theorem respondDyn_now (s : St) (n : Nat) : (respondDyn s n).now = s.now := respondWith_now _ _

theorem route_now (cfg : Cfg) (s : St) : (route cfg s).now = s.now := by
  unfold route; simp only; split
  · exact respond_now _ _
  · exact respondDyn_now _ _
  · rfl

theorem dispatchG_now (cfg : Cfg) (s : St) : (dispatchG cfg s).now = s.now := by
  unfold dispatchG; split
  · rfl
  · exact route_now _ _

theorem dispatchT_now (cfg : Cfg) (s : St) : (dispatchT cfg s).now = s.now := by
  unfold dispatchT; simp only; split <;> rfl

theorem onLine_now (cfg : Cfg) (s : St) (l r : Bytes) : (onLine cfg s l r).now = s.now := by
  unfold onLine; simp only
  split
  · exact respondFixed_now _ _ _
  · split
    · split
      · exact respondFixed_now _ _ _
      · split
        · exact respondDyn_now _ _
        · split
          · exact dispatchT_now _ _
          · rfl
    · split
      · exact dispatchG_now _ _
      · exact respondDyn_now _ _

theorem lineStep_now (cfg : Cfg) (s : St) (b : Bytes) : (lineStep cfg s b).now = s.now := by
  unfold lineStep; split
  · split
    · exact respondFixed_now _ _ _
    · rfl
  · split
    · exact respondFixed_now _ _ _
    · exact onLine_now _ _ _ _

theorem titanStep_now (cfg : Cfg) (s : St) (b : Bytes) : (titanStep cfg s b).now = s.now := by
  unfold titanStep; split
  · exact dispatchT_now _ _
  · rfl

theorem step_now (cfg : Cfg) (s : St) (e : Ev) (he : ∀ dt, e ≠ .tick dt) : (step cfg s e).now = s.now := by
  cases e with
  | tick dt => exact absurd rfl (he dt)
  | data c =>
    simp only [step]; split
    · rfl
    · split
      · split
        · rfl
        · exact lineStep_now _ _ _
      · exact titanStep_now _ _ _
      · rfl
  | timeout => simp only [step]; split; exact respondFixed_now _ _ _; rfl
  | lost => rfl
  | mwAllow => simp only [step]; split; exact route_now _ _; rfl; rfl
  | mwDeny l => simp only [step]; split <;> first | exact respond_now _ _ | rfl
  | mwRaise => simp only [step]; split <;> first | exact respondFixed_now _ _ _ | rfl
  | hDone r => simp only [step]; split <;> first | exact respond_now _ _ | rfl
  | hRaise => simp only [step]; split <;> first | exact respondDyn_now _ _ | rfl
  | uDone r => simp only [step]; split <;> first | exact respond_now _ _ | rfl
  | uRaise => simp only [step]; split <;> first | exact respondDyn_now _ _ | rfl

/-- the request timer is armed exactly once, in `connection_made`: no primitive re-arms it -/
theorem respondWith_tm (s : St) (o : List Out) (h : (respondWith s o).timer = true) : s.timer = true :=
  (respondWith_timer s o h).1
theorem respond_tm (s : St) (r : Resp) (h : (respond s r).timer = true) : s.timer = true := by
  unfold respond at h; exact respondWith_tm _ _ h
theorem respondFixed_tm (s : St) (st : Int) (m : String) (h : (respondFixed s st m).timer = true) : s.timer = true :=
  respond_tm _ _ h
theorem respondDyn_tm (s : St) (n : Nat) (h : (respondDyn s n).timer = true) : s.timer = true := respondWith_tm _ _ h

theorem route_tm (cfg : Cfg) (s : St) (h : (route cfg s).timer = true) : s.timer = true := by
  unfold route at h; simp only at h; split at h
  · (have := respond_tm _ _ h; simpa using this)
  · (have := respondDyn_tm _ _ h; simpa using this)
  · exact h

theorem dispatchG_tm (cfg : Cfg) (s : St) (h : (dispatchG cfg s).timer = true) : s.timer = true := by
  unfold dispatchG at h; split at h
  · exact h
  · (have := route_tm _ _ h; simpa using this)

theorem dispatchT_tm (cfg : Cfg) (s : St) (h : (dispatchT cfg s).timer = true) : s.timer = true := by
  unfold dispatchT at h; simp only at h; split at h <;> simp [startUpload] at h

theorem onLine_tm (cfg : Cfg) (s : St) (l r : Bytes) (h : (onLine cfg s l r).timer = true) : s.timer = true := by
  unfold onLine at h; simp only at h
  split at h
  · (have := respondFixed_tm _ _ _ h; simpa using this)
  · split at h
    · split at h
      · (have := respondFixed_tm _ _ _ h; simpa using this)
      · split at h
        · (have := respondDyn_tm _ _ h; simpa using this)
        · split at h
          · (have := dispatchT_tm _ _ h; simpa using this)
          · exact h
    · split at h
      · have := dispatchG_tm _ _ h; simp at this
      · have := respondDyn_tm _ _ h; simp at this

theorem lineStep_tm (cfg : Cfg) (s : St) (b : Bytes) (h : (lineStep cfg s b).timer = true) : s.timer = true := by
  unfold lineStep at h; split at h
  · split at h
    · (have := respondFixed_tm _ _ _ h; simpa using this)
    · exact h
  · split at h
    · (have := respondFixed_tm _ _ _ h; simpa using this)
    · (have := onLine_tm _ _ _ _ h; simpa using this)

theorem titanStep_tm (cfg : Cfg) (s : St) (b : Bytes) (h : (titanStep cfg s b).timer = true) : s.timer = true := by
  unfold titanStep at h; split at h
  · (have := dispatchT_tm _ _ h; simpa using this)
  · exact h

theorem step_timer_mono (cfg : Cfg) (s : St) (e : Ev) (h : (step cfg s e).timer = true) : s.timer = true := by
  cases e with
  | tick dt =>
    simp only [step] at h; split at h
    · have := respondFixed_tm _ _ _ h; simpa using this
    · exact h
  | data c =>
    simp only [step] at h; split at h
    · exact h
    · split at h
      · split at h
        · exact h
        · exact lineStep_tm _ _ _ h
      · exact titanStep_tm _ _ _ h
      · exact h
  | timeout => simp only [step] at h; split at h; exact respondFixed_tm _ _ _ h; exact h
  | lost => simp [step] at h
  | mwAllow =>
    simp only [step] at h; split at h
    · have := route_tm _ _ h; simpa using this
    · simpa [startUpload] using h
    · exact h
  | mwDeny l => simp only [step] at h; split at h <;> first | exact respond_tm _ _ h | exact h
  | mwRaise => simp only [step] at h; split at h <;> first | exact respondFixed_tm _ _ _ h | exact h
  | hDone r => simp only [step] at h; split at h <;> first | exact respond_tm _ _ h | exact h
  | hRaise => simp only [step] at h; split at h <;> first | exact respondDyn_tm _ _ h | exact h
  | uDone r => simp only [step] at h; split at h <;> first | exact respond_tm _ _ h | exact h
  | uRaise => simp only [step] at h; split at h <;> first | exact respondDyn_tm _ _ h | exact h

/-! ### C15: explicit time -/
/-- while the request timer is armed the deadline has not passed -/
def TimeInv (s : St) : Prop := s.timer = true → s.now < requestTimeout8

theorem step_timeInv (cfg : Cfg) (s : St) (e : Ev) (hi : Inv cfg s) (ht : TimeInv s) : TimeInv (step cfg s e) := by
  intro h
  have h0 := step_timer_mono cfg s e h
  by_cases he : ∃ dt, e = .tick dt
  · obtain ⟨dt, rfl⟩ := he
    have hw := hi.timerIff.mp h0
    simp only [step] at h ⊢
    split
    · rename_i hc
      -- the timer fired: the response is sent (connected, unanswered), so the timer is off — contradiction
      rw [if_pos hc] at h
      have := respondWith_timer _ _ (by unfold respondFixed respond at h; exact h)
      simp [hw.2.1, hw.2.2] at this
    · rename_i hc
      simp only [h0, hw.2.1, Bool.not_false, true_and, ge_iff_le, Nat.not_le] at hc
      simpa using hc
  · have hne : ∀ dt, e ≠ .tick dt := fun dt hh => he ⟨dt, hh⟩
    rw [step_now cfg s e hne]
    exact ht h0

theorem run_timeInv (cfg : Cfg) (evs : List Ev) : TimeInv (run cfg evs) := by
  unfold run
  have : ∀ s, Inv cfg s → TimeInv s → TimeInv (evs.foldl (step cfg) s) := by
    induction evs with
    | nil => intro s _ h; simpa using h
    | cons e es ih => intro s hi ht; exact ih _ (step_inv cfg s e hi) (step_timeInv cfg s e hi ht)
  exact this _ (inv_init cfg) (by intro _; simp [requestTimeout8])

/-- C15: once the clock has reached the deadline, a connection that is still waiting for its request is
    no longer connected — for every event list, i.e. every interleaving of data, time, completions -/
theorem silent_closed (cfg : Cfg) (evs : List Ev) (hnow : (run cfg evs).now ≥ requestTimeout8)
    (hw : waiting (run cfg evs).phase) : (run cfg evs).lost = true := by
  have hi := run_inv cfg evs
  have ht := run_timeInv cfg evs
  cases hl : (run cfg evs).lost with
  | true => rfl
  | false =>
    exfalso
    have hs : (run cfg evs).sent = false := by
      cases hs : (run cfg evs).sent with
      | false => rfl
      | true => have := hi.sentDone hs; rcases hw with h | h <;> simp [this] at h
    have := ht (hi.timerIff.mpr ⟨hw, hl, hs⟩)
    omega

/-- C15: a timeout never fires once the complete request has been received: outside the two waiting
    phases the timer is off -/
theorem no_timeout_after_complete (cfg : Cfg) (evs : List Ev) (h : ¬ waiting (run cfg evs).phase) :
    (run cfg evs).timer = false := by
  cases ht : (run cfg evs).timer with
  | false => rfl
  | true => exact absurd ((run_inv cfg evs).timerIff.mp ht).1 h

/-- … and then neither the timer event nor the passage of time writes anything -/
theorem tick_noop_after_complete (cfg : Cfg) (s : St) (dt : Nat) (h : s.timer = false) :
    (step cfg s (.tick dt)).out = s.out ∧ (step cfg s .timeout).out = s.out := by
  simp [step, h]

/-- the timeout response itself: fired on a connected, unanswered connection it is exactly
    `40 Request timeout` followed by close -/
theorem timeout_response (cfg : Cfg) (s : St) (dt : Nat) (hi : Inv cfg s) (ht : s.timer = true)
    (hd : s.now + dt ≥ requestTimeout8) :
    (step cfg s (.tick dt)).out = [.exact (render ⟨40, strOf "Request timeout", .none⟩).1, .close] := by
  have hw := hi.timerIff.mp ht
  have hout : s.out = [] := by
    rcases hi.shape with ⟨_, h⟩ | ⟨h, _⟩
    · exact h
    · simp [hw.2.2] at h
  have hb : (render ⟨40, strOf "Request timeout", .none⟩).2 = [] := by decide
  simp [step, ht, hw.2.1, hd, respondFixed, respond, respondWith, hw.2.2, hout, hb]
end Srv

namespace Srv
/-! ### C08: what a handler / middleware can ever be given -/
theorem respondWith_req (s : St) (o : List Out) : (respondWith s o).req = s.req := by
  unfold respondWith; split <;> rfl
theorem respond_req (s : St) (r : Resp) : (respond s r).req = s.req := by unfold respond; exact respondWith_req _ _
theorem respondFixed_req (s : St) (st : Int) (m : String) : (respondFixed s st m).req = s.req := respond_req _ _
theorem respondDyn_req (s : St) (n : Nat) : (respondDyn s n).req = s.req := respondWith_req _ _
theorem route_req (cfg : Cfg) (s : St) : (route cfg s).req = s.req := by
  unfold route; simp only; split
  · exact respond_req _ _
  · exact respondDyn_req _ _
  · rfl
theorem dispatchG_req (cfg : Cfg) (s : St) : (dispatchG cfg s).req = s.req := by
  unfold dispatchG; split
  · rfl
  · exact route_req _ _
theorem dispatchT_req (cfg : Cfg) (s : St) : (dispatchT cfg s).req = s.req := by
  unfold dispatchT; simp only; split <;> rfl
theorem titanStep_req (cfg : Cfg) (s : St) (b : Bytes) : (titanStep cfg s b).req = s.req := by
  unfold titanStep; split
  · exact dispatchT_req _ _
  · rfl

/-- total number of handler-side invocations (request handler, upload handler, middleware chain) -/
def St.calls (s : St) : Nat := s.hcalls + s.ucalls + s.mwcalls

theorem respondWith_calls (s : St) (o : List Out) : (respondWith s o).calls = s.calls := by
  unfold respondWith St.calls; split <;> rfl
theorem respond_calls (s : St) (r : Resp) : (respond s r).calls = s.calls := by unfold respond; exact respondWith_calls _ _
theorem respondFixed_calls (s : St) (st : Int) (m : String) : (respondFixed s st m).calls = s.calls := respond_calls _ _
theorem respondDyn_calls (s : St) (n : Nat) : (respondDyn s n).calls = s.calls := respondWith_calls _ _

theorem respondWith_phase (s : St) (o : List Out) : (respondWith s o).phase = .done := by
  unfold respondWith; split <;> rfl

def isTitanLine (line : List Char) : Bool := titanLit.isPrefixOf line

/-- the request line the server accepted for dispatch: at most 1024 bytes with its CRLF, valid UTF-8,
    and either a gemini URL `parse_url` accepts or — only when uploads are enabled — a titan line with a
    well-formed non-negative size whose URL `parse_url` accepts -/
def Accepted (cfg : Cfg) (l : Bytes) : Prop :=
  l.length + 2 ≤ maxRequest ∧ ∃ line, decodeUtf8 l = some line ∧
    ((isTitanLine line = true ∧ cfg.upload = true ∧ ∃ n, titanParse cfg.env line = some n) ∨
     (isTitanLine line = false ∧ geminiOk cfg.env line = true))

/-- whenever anything on the handler side has been invoked (or the server waits for Titan content),
    the request line was an accepted one -/
def ReqInv (cfg : Cfg) (s : St) : Prop :=
  (s.calls > 0 ∨ s.phase = .awaitTitan) → ∃ l, s.req = some l ∧ Accepted cfg l

theorem onLine_reqInv (cfg : Cfg) (s : St) (l r : Bytes) (h0 : s.calls = 0) (hlen : l.length + 2 ≤ maxRequest) :
    ReqInv cfg (onLine cfg s l r) := by
  unfold onLine; simp only
  split
  · intro h; rw [respondFixed_calls, respondFixed, respond, respondWith_phase] at h; simp [St.calls] at h h0; omega
  · rename_i line hdec
    split
    · rename_i htit
      split
      · intro h; rw [respondFixed_calls, respondFixed, respond, respondWith_phase] at h; simp [St.calls] at h h0; omega
      · rename_i hup
        split
        · intro h; rw [respondDyn_calls, respondDyn, respondWith_phase] at h; simp [St.calls] at h h0; omega
        · rename_i n hn
          have hacc : Accepted cfg l := ⟨hlen, line, hdec, Or.inl ⟨by simpa [isTitanLine] using htit, by simpa using hup, n, hn⟩⟩
          split
          · intro _; exact ⟨l, by rw [dispatchT_req], hacc⟩
          · intro _; exact ⟨l, rfl, hacc⟩
    · rename_i htit
      split
      · rename_i hok
        have hacc : Accepted cfg l := ⟨hlen, line, hdec, Or.inr ⟨by simpa [isTitanLine, ← List.isPrefixOf_iff_prefix] using htit, hok⟩⟩
        intro _; exact ⟨l, by rw [dispatchG_req], hacc⟩
      · intro h; rw [respondDyn_calls, respondDyn, respondWith_phase] at h; simp [St.calls] at h h0; omega

theorem findCRLF_le {b : Bytes} {i : Nat} (h : findCRLF b = some i) : i + 2 ≤ b.length := by
  fun_induction findCRLF b generalizing i with
  | case1 => simp at h
  | case2 => simp at h
  | case3 a c rest hc => simp at h; subst h; simp
  | case4 a c rest hc ih =>
    simp at h; obtain ⟨j, hj, rfl⟩ := h
    have := ih hj; simp at this ⊢; omega

theorem step_reqInv (cfg : Cfg) (s : St) (e : Ev) (hi : Inv cfg s) (hr : ReqInv cfg s) : ReqInv cfg (step cfg s e) := by
  -- events that neither parse a line nor change `req`: the premise already held, or nothing was called
  have keep : ∀ t : St, t.req = s.req → (t.calls > 0 ∨ t.phase = .awaitTitan → s.calls > 0 ∨ s.phase = .awaitTitan) → ReqInv cfg t := by
    intro t hreq himp hp
    obtain ⟨l, hl, ha⟩ := hr (himp hp)
    exact ⟨l, by rw [hreq]; exact hl, ha⟩
  cases e with
  | data c =>
    simp only [step]; split
    · exact hr
    · split
      · rename_i hph
        split
        · exact hr
        · have h0 : s.calls = 0 := by
            have := hi.waitingNone (Or.inl hph); simp [St.calls]; omega
          unfold lineStep
          split
          · split
            · intro h; rw [tooLong, respondFixed_calls, respondFixed, respond, respondWith_phase] at h
              simp [St.calls] at h h0; omega
            · intro h; simp [St.calls, hph] at h h0; omega
          · rename_i i hf
            split
            · intro h; rw [tooLong, respondFixed_calls, respondFixed, respond, respondWith_phase] at h
              simp [St.calls] at h h0; omega
            · rename_i hle
              have hlt := findCRLF_le hf
              exact onLine_reqInv cfg _ _ _ (by simpa [St.calls] using h0)
                (by simp only [List.length_take]; omega)
      · rename_i hph
        obtain ⟨l, hl, ha⟩ := hr (Or.inr hph)
        intro _; exact ⟨l, by rw [titanStep_req]; exact hl, ha⟩
      · exact hr
  | timeout =>
    simp only [step]; split
    · refine keep _ (respondFixed_req _ _ _) ?_
      rw [respondFixed_calls, respondFixed, respond, respondWith_phase]; intro h; left; simpa using h
    · exact hr
  | tick dt =>
    simp only [step]; split
    · refine keep _ (by rw [respondFixed_req]) ?_
      rw [respondFixed_calls, respondFixed, respond, respondWith_phase]; intro h; left; simpa [St.calls] using h
    · exact keep _ rfl (by intro h; simpa [St.calls] using h)
  | lost => exact keep _ rfl (by intro h; simpa [St.calls, step] using h)
  | mwAllow =>
    simp only [step]; split
    · rename_i hph
      have hm := hi.mwPhase (Or.inl hph)
      obtain ⟨l, hl, ha⟩ := hr (Or.inl (by simp [St.calls]; omega))
      intro _; exact ⟨l, by rw [route_req]; exact hl, ha⟩
    · rename_i hph
      have hm := hi.mwPhase (Or.inr hph)
      obtain ⟨l, hl, ha⟩ := hr (Or.inl (by simp [St.calls]; omega))
      intro _; exact ⟨l, by simpa [startUpload] using hl, ha⟩
    · exact hr
  | mwDeny l =>
    simp only [step]; split
    all_goals first
      | exact hr
      | (refine keep _ (respond_req _ _) ?_
         rw [respond_calls, respond, respondWith_phase]; intro h; left; simpa using h)
  | mwRaise =>
    simp only [step]; split
    all_goals first
      | exact hr
      | (refine keep _ (respondFixed_req _ _ _) ?_
         rw [respondFixed_calls, respondFixed, respond, respondWith_phase]; intro h; left; simpa using h)
  | hDone r =>
    simp only [step]; split
    · refine keep _ (respond_req _ _) ?_
      rw [respond_calls, respond, respondWith_phase]; intro h; left; simpa using h
    · exact hr
  | hRaise =>
    simp only [step]; split
    · refine keep _ (respondDyn_req _ _) ?_
      rw [respondDyn_calls, respondDyn, respondWith_phase]; intro h; left; simpa using h
    · exact hr
  | uDone r =>
    simp only [step]; split
    · refine keep _ (respond_req _ _) ?_
      rw [respond_calls, respond, respondWith_phase]; intro h; left; simpa using h
    · exact hr
  | uRaise =>
    simp only [step]; split
    · refine keep _ (respondDyn_req _ _) ?_
      rw [respondDyn_calls, respondDyn, respondWith_phase]; intro h; left; simpa using h
    · exact hr

theorem run_reqInv (cfg : Cfg) (evs : List Ev) : ReqInv cfg (run cfg evs) := by
  unfold run
  have : ∀ s, Inv cfg s → ReqInv cfg s → ReqInv cfg (evs.foldl (step cfg) s) := by
    induction evs with
    | nil => intro s _ h; simpa using h
    | cons e es ih => intro s hi hr; exact ih _ (step_inv cfg s e hi) (step_reqInv cfg s e hi hr)
  exact this _ (inv_init cfg) (by intro h; simp [St.calls] at h)
end Srv

namespace Srv
/-! ### C01 progress: a decided request is answered unless the peer has gone -/
def DoneInv (s : St) : Prop := s.phase = .done → s.sent = true ∨ s.lost = true

theorem respondWith_done (s : St) (o : List Out) : DoneInv (respondWith s o) := by
  intro _
  unfold respondWith
  split
  · rename_i h; rcases h with h | h
    · right; simpa using h
    · left; simpa using h
  · left; rfl

theorem route_done (cfg : Cfg) (s : St) : DoneInv (route cfg s) := by
  unfold route; simp only; split
  · exact respondWith_done _ _
  · exact respondWith_done _ _
  · intro h; simp at h

theorem dispatchG_done (cfg : Cfg) (s : St) : DoneInv (dispatchG cfg s) := by
  unfold dispatchG; split
  · intro h; simp at h
  · exact route_done _ _

theorem dispatchT_done (cfg : Cfg) (s : St) : DoneInv (dispatchT cfg s) := by
  unfold dispatchT; simp only; split <;> (intro h; simp [startUpload] at h)

theorem onLine_done (cfg : Cfg) (s : St) (l r : Bytes) : DoneInv (onLine cfg s l r) := by
  unfold onLine; simp only
  split
  · exact respondWith_done _ _
  · split
    · split
      · exact respondWith_done _ _
      · split
        · exact respondWith_done _ _
        · split
          · exact dispatchT_done _ _
          · intro h; simp at h
    · split
      · exact dispatchG_done _ _
      · exact respondWith_done _ _

theorem step_doneInv (cfg : Cfg) (s : St) (e : Ev) (h : DoneInv s) : DoneInv (step cfg s e) := by
  cases e with
  | data c =>
    simp only [step]; split
    · exact h
    · split
      · rename_i hph
        split
        · exact h
        · unfold lineStep; split
          · split
            · exact respondWith_done _ _
            · intro hh; simp [hph] at hh
          · split
            · exact respondWith_done _ _
            · exact onLine_done _ _ _ _
      · rename_i hph
        unfold titanStep; split
        · exact dispatchT_done _ _
        · intro hh; simp [hph] at hh
      · exact h
  | timeout => simp only [step]; split; exact respondWith_done _ _; exact h
  | tick dt =>
    simp only [step]; split
    · exact respondWith_done _ _
    · exact h
  | lost => intro _; right; rfl
  | mwAllow =>
    simp only [step]; split
    · exact route_done _ _
    · intro hh; simp [startUpload] at hh
    · exact h
  | mwDeny l => simp only [step]; split <;> first | exact respondWith_done _ _ | exact h
  | mwRaise => simp only [step]; split <;> first | exact respondWith_done _ _ | exact h
  | hDone r => simp only [step]; split <;> first | exact respondWith_done _ _ | exact h
  | hRaise => simp only [step]; split <;> first | exact respondWith_done _ _ | exact h
  | uDone r => simp only [step]; split <;> first | exact respondWith_done _ _ | exact h
  | uRaise => simp only [step]; split <;> first | exact respondWith_done _ _ | exact h

theorem run_doneInv (cfg : Cfg) (evs : List Ev) : DoneInv (run cfg evs) := by
  unfold run
  have : ∀ s, DoneInv s → DoneInv (evs.foldl (step cfg) s) := by
    induction evs with
    | nil => intro s h; simpa using h
    | cons e es ih => intro s h; exact ih _ (step_doneInv cfg s e h)
  exact this _ (by intro h; simp at h)

/-- exactly one response: a connection whose request has been decided and whose tasks have all completed
    (phase `done`) has, unless the peer disconnected, written one well-formed response followed by close -/
theorem done_responded (cfg : Cfg) (evs : List Ev) (hd : (run cfg evs).phase = .done) (hl : (run cfg evs).lost = false) :
    ∃ ws, (run cfg evs).out = ws ++ [.close] ∧ WFWrites ws := by
  have hs : (run cfg evs).sent = true := by
    rcases run_doneInv cfg evs hd with h | h
    · exact h
    · simp [hl] at h
  rcases (run_inv cfg evs).shape with ⟨h, _⟩ | ⟨_, h⟩
  · simp [hs] at h
  · exact h

/-- a complete request line, or more than 1024 bytes without one, always moves the connection out of the
    line-waiting phase: it is answered at once or handed to middleware / handler / Titan content wait -/
theorem onLine_phase (cfg : Cfg) (s : St) (l r : Bytes) : (onLine cfg s l r).phase ≠ .awaitLine := by
  unfold onLine; simp only
  split
  · simp [respondFixed, respond, respondWith_phase]
  · split
    · split
      · simp [respondFixed, respond, respondWith_phase]
      · split
        · simp [respondDyn, respondWith_phase]
        · split
          · unfold dispatchT; simp only; split <;> simp [startUpload]
          · simp
    · split
      · unfold dispatchG; split
        · simp
        · unfold route; simp only; split <;> simp [respond, respondDyn, respondWith_phase]
      · simp [respondDyn, respondWith_phase]

theorem line_decides (cfg : Cfg) (total : Bytes) (h : (findCRLF total).isSome ∨ total.length > maxRequest) :
    (step cfg {} (.data total)).phase ≠ .awaitLine := by
  simp only [step, Bool.false_eq_true, ↓reduceIte, List.nil_append]
  unfold lineStep
  split
  · rename_i hn
    rcases h with h | h
    · simp [hn] at h
    · rw [if_pos (by simpa using h)]; simp [tooLong, respondFixed, respond, respondWith_phase]
  · split
    · simp [tooLong, respondFixed, respond, respondWith_phase]
    · exact onLine_phase _ _ _ _
end Srv
