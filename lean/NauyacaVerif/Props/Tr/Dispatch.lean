import NauyacaVerif.Gen.Fn.HandleGeminiRequest
import NauyacaVerif.Gen.Fn.ProcessTitanUpload
import NauyacaVerif.Gen.Fn.HandleMwResult
import NauyacaVerif.Props.Tr.DataReceived
set_option linter.unusedSimpArgs false
set_option linter.unusedVariables false
/-!
The two methods `data_received` hands a complete request to — `_handle_gemini_request` and `_process_titan_upload`, TRANSLATED
(regenerated from the current source on every run) — against what `Props/Tr/DataReceived.lean` ASSUMED about them (`envOf`):
in the situation in which `data_received` calls them they do exactly that.  What remains a parameter after this step:
`GeminiRequest.from_line` (its accept/refuse decision is the model's `geminiOk`, tied by `parseUrl_eq`), `_route_request`,
`_start_titan_upload`, the creation of the middleware task and `_send_error_response`.
-/
namespace NauyacaVerif.Translated
open NauyacaVerif.Gen.Fn Srv

/-- a refusal whose text is an exception message: the model keeps only the status -/
def dynMsg : List Char := ['\x00', 'd', 'y', 'n']

def dispEnv (cfg : Cfg) : DispEnv where
  mw := cfg.mw
  upload := cfg.upload
  geminiFromLine url := if geminiOk cfg.env url then .ok () else .error dynMsg
  sendError s code msg :=
    { s with _response_sent := true, timeout_handle := false,
             m := if msg = dynMsg then respondDyn s.m code else respond s.m ⟨code, msg.map Char.toNat, .none⟩ }
  route s := { s with _response_sent := (Srv.route cfg s.m).sent, m := Srv.route cfg s.m }
  startMwG s := ({ s with m := { s.m with mwcalls := s.m.mwcalls + 1, phase := .mwG } }, ())
  startMwT s := ({ s with m := { s.m with mwcalls := s.m.mwcalls + 1, phase := .mwT } }, ())
  startUpload s := { s with m := startUpload s.m }

/-- `_handle_gemini_request`, called by `data_received` on a connection that is alive, unanswered and whose timer was just
    cancelled, does what the refinement of `data_received` assumed -/
theorem handleGeminiRequest_eq (cfg : Cfg) (peer : Bool) (s : PState) (url : List Char)
    (h1 : s.m.lost = false) (h2 : s.m.sent = false) (h3 : s._response_sent = false) (h4 : s.timeout_handle = false)
    (h5 : s._request_dispatched = false) :
    (handleGeminiRequest (dispEnv cfg) s url).1 = (envOf cfg peer).geminiRequest s url := by
  obtain ⟨disp, sent, buffer, ulr, atc, treq, th, m⟩ := s
  simp only at h1 h2 h3 h4 h5
  subst h3 h4 h5
  unfold handleGeminiRequest
  by_cases hok : geminiOk cfg.env url = true
  · cases hmw : cfg.mw <;> simp [dispEnv, envOf, hok, hmw, dispatchG, h2]
  · simp [dispEnv, envOf, hok, respondDyn, respondWith, h1, h2]

/-- `_process_titan_upload`, called with an upload handler configured and the request parsed, likewise -/
theorem processTitanUpload_eq (cfg : Cfg) (peer : Bool) (s : PState) (hu : cfg.upload = true) (ht : s.titan_request.isSome = true) :
    (processTitanUpload (dispEnv cfg) s).1 = (envOf cfg peer).processUpload s := by
  unfold processTitanUpload
  cases hmw : cfg.mw <;> simp [dispEnv, envOf, hu, ht, hmw]

/-- the middleware task's outcome as the model's events see it (`route` / `startUpload` here are the calls made AFTER an allow
    verdict: the model counts the verdict in its ghost `allowed` first) -/
def mwEnv (cfg : Cfg) (outcome : Except Unit (Bool × Option (List Char))) : MwEnv where
  taskResult := outcome
  sendError := (dispEnv cfg).sendError
  reject s line := { s with _response_sent := (respond s.m (rejection line)).sent, m := respond s.m (rejection line) }
  route s := { s with _response_sent := (Srv.route cfg { s.m with allowed := s.m.allowed + 1 }).sent,
                      m := Srv.route cfg { s.m with allowed := s.m.allowed + 1 } }
  startUpload s := { s with m := Srv.startUpload { s.m with allowed := s.m.allowed + 1 } }

/-- the model event a task outcome stands for -/
def mwEvent : Except Unit (Bool × Option (List Char)) → Ev
  | .error _ => .mwRaise
  | .ok (true, _) => .mwAllow
  | .ok (false, l) => .mwDeny l

/-- C04 on the translated code: `_handle_middleware_result` — the ONLY place a verdict of the chain is acted upon — is the model's
    `mwAllow` / `mwDeny` / `mwRaise` step: a handler or an upload is started only on an allow verdict, a deny verdict becomes the
    rejection response, an exception becomes `40 Middleware error` -/
theorem handleMwResult_eq (cfg : Cfg) (titan : Bool) (outcome : Except Unit (Bool × Option (List Char))) (s : PState)
    (hph : s.m.phase = if titan then .mwT else .mwG) :
    (handleMwResult (mwEnv cfg outcome) titan s).1.m = step cfg s.m (mwEvent outcome) := by
  unfold handleMwResult
  cases titan <;> simp only [Bool.false_eq_true, if_false, if_true] at hph
  all_goals
    rcases outcome with _ | ⟨allow, line⟩
    · simp [mwEnv, mwEvent, dispEnv, dynMsg, step, hph, respondFixed, strOf]
    · cases allow <;> simp [mwEnv, mwEvent, dispEnv, step, hph]
end NauyacaVerif.Translated
