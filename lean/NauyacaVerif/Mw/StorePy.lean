import NauyacaVerif.Mw.Bucket
/-!
`RateLimiter.buckets` as Python has it: a dictionary from addresses to `TokenBucket` OBJECTS, each carrying its own capacity and
refill rate next to its tokens and time stamp.  These are the operations the translation of `RateLimiter.process_request`
(harness/translate.py, option `store_idiom`) is written in.  Assumed about Python and nothing else: a dictionary holds references, so
`x = d[k]; x.consume()` updates the object `d` holds under `k`; `TokenBucket(capacity, refill_rate)` is a full bucket stamped with the
current monotonic time (`TokenBucket.__init__`, translated too: `pyPut_is_init` in Props/Tr/LimiterRequest.lean).
-/
namespace Mw

structure PyBucket where
  cap : Rat
  rate : Rat
  tokens : Rat
  last : Rat
deriving Repr

abbrev PyStore := List (Ip × PyBucket)

/-- `ip in self.buckets` -/
def pyHas (w : PyStore) (ip : Ip) : Bool := (w.find? (·.1 == ip)).isSome

/-- `self.buckets[ip] = TokenBucket(cap, rate)` at time `now` -/
def pyPut (now : Rat) (w : PyStore) (ip : Ip) (cap rate : Rat) : PyStore :=
  (ip, { cap := cap, rate := rate, tokens := cap, last := now }) :: w.filter (·.1 != ip)

/-- `self.buckets[ip].consume()` at time `now`: the object the dictionary holds is updated in place (`Mw.consume` is the model of
    `TokenBucket.consume`, tied to the source by `consume_eq`); a missing key is KeyError - never reached behind get-or-create -/
def pyConsumeAt (now : Rat) (w : PyStore) (ip : Ip) : PyStore × Bool :=
  match w.find? (·.1 == ip) with
  | none => (w, false)
  | some p =>
    let r := consume { cap := p.2.cap, rate := p.2.rate } { tokens := p.2.tokens, last := p.2.last } now
    ((ip, { p.2 with tokens := r.1.tokens, last := r.1.last }) :: w.filter (·.1 != ip), r.2)

/-- what the model's store sees of the Python one -/
def PyStore.abs (w : PyStore) : Store := w.map (fun p => (p.1, { tokens := p.2.tokens, last := p.2.last }))

/-- every bucket was created from the one configuration -/
def PyStore.Uniform (c : LCfg) (w : PyStore) : Prop := ∀ p ∈ w, p.2.cap = c.cap ∧ p.2.rate = c.rate

end Mw
