"""One Gemini request over the real PyOpenSSL pump (`TLSServerProtocol`) in-process: fake TCP
transport, `ssl.MemoryBIO` client, optional client certificate (RSA / EC / Ed25519).

Keys and certificates live only in a `tempfile.mkdtemp(prefix="nv-")` directory that is removed at
interpreter exit; nothing here touches /repo.
"""
from __future__ import annotations

import asyncio
import atexit
import datetime
import hashlib
import os
import shutil
import ssl
import tempfile

_STATE: dict = {}


class FakeTCP:
    def __init__(self):
        self.out: list[bytes] = []
        self.closed = False

    def write(self, b):
        if not self.closed:
            self.out.append(bytes(b))

    def close(self):
        self.closed = True

    def is_closing(self):
        return self.closed

    def get_extra_info(self, name, default=None):
        return ("192.0.2.7", 40000) if name == "peername" else default


def _mk_cert(kind: str, d: str, name: str, cn: str | None = None, serial: int | None = None) -> tuple[str, str, bytes]:
    from cryptography import x509
    from cryptography.hazmat.primitives import hashes, serialization
    from cryptography.hazmat.primitives.asymmetric import ec, ed25519, rsa
    from cryptography.x509.oid import NameOID

    if kind == "rsa":
        key = rsa.generate_private_key(public_exponent=65537, key_size=2048)
    elif kind == "ec":
        key = ec.generate_private_key(ec.SECP256R1())
    else:
        key = ed25519.Ed25519PrivateKey.generate()
    subj = x509.Name([x509.NameAttribute(NameOID.ORGANIZATION_NAME, "nv users"), x509.NameAttribute(NameOID.COMMON_NAME, cn or name)])
    now = datetime.datetime.now(datetime.timezone.utc)
    cert = (x509.CertificateBuilder().subject_name(subj).issuer_name(subj).public_key(key.public_key())
            .serial_number(serial if serial is not None else x509.random_serial_number()).not_valid_before(now - datetime.timedelta(days=1))
            .not_valid_after(now + datetime.timedelta(days=30))
            .sign(key, None if kind == "ed25519" else hashes.SHA256()))
    cpath, kpath = os.path.join(d, name + ".pem"), os.path.join(d, name + ".key")
    with open(cpath, "wb") as f:
        f.write(cert.public_bytes(serialization.Encoding.PEM))
    with open(kpath, "wb") as f:
        f.write(key.private_bytes(serialization.Encoding.PEM, serialization.PrivateFormat.PKCS8, serialization.NoEncryption()))
    return cpath, kpath, cert.public_bytes(serialization.Encoding.DER)


def state():
    """server context + six client identities (three and their look-alikes), created once per process"""
    if _STATE.get("pid") != os.getpid():
        from nauyaca.security.pyopenssl_tls import create_pyopenssl_server_context

        from .. import core as _core

        d = _core.mkdtemp("nv-fspump-")
        sc, sk, _ = _mk_cert("ec", d, "server")
        clients = {}
        # certificates 1..3: RSA / EC / Ed25519.  Certificates 4..6: look-alikes of 1..3 — self-signed with
        # ANOTHER key (of another type) but the same subject = issuer name and the same serial number, i.e.
        # everything that is public about the original except its key; their DER and fingerprint differ.
        plan = [(1, "rsa", "client-1", 1001), (2, "ec", "client-2", 1002), (3, "ed25519", "client-3", 1003),
                (4, "ec", "client-1", 1001), (5, "ed25519", "client-2", 1002), (6, "rsa", "client-3", 1003)]
        for i, kind, cn, serial in plan:
            c, k, der = _mk_cert(kind, d, f"client-{i}", cn=cn, serial=serial)
            ctx = ssl.SSLContext(ssl.PROTOCOL_TLS_CLIENT)
            ctx.check_hostname = False
            ctx.verify_mode = ssl.CERT_NONE
            ctx.load_cert_chain(c, k)
            # the property's definition of the fingerprint: SHA-256 of the DER certificate
            clients[i] = {"kind": kind + ("" if i <= 3 else f" look-alike of certificate {i - 3}"), "ctx": ctx, "der": der,
                          "fp": "sha256:" + hashlib.sha256(der).hexdigest()}
        assert len({c["fp"] for c in clients.values()}) == len(clients)
        anon = ssl.SSLContext(ssl.PROTOCOL_TLS_CLIENT)
        anon.check_hostname = False
        anon.verify_mode = ssl.CERT_NONE
        _STATE.clear()
        _STATE.update(pid=os.getpid(), dir=d, server_ctx=create_pyopenssl_server_context(sc, sk, request_client_cert=True),
                      clients=clients, anon=anon)
    return _STATE


CERT_IDS = (1, 2, 3, 4, 5, 6)


def partner(cert_id: int) -> int:
    """the certificate with the same names and serial number but another key"""
    return cert_id + 3 if cert_id <= 3 else cert_id - 3


def fingerprint(cert_id: int) -> str:
    return state()["clients"][cert_id]["fp"]


def der(cert_id: int) -> bytes:
    return state()["clients"][cert_id]["der"]


async def request(inner_factory, line: bytes, cert_id: int | None, tls13: bool = True) -> tuple[bytes, bool]:
    """Run one connection: TLS handshake (with the client certificate `cert_id`, or none), send
    `line`, collect the decrypted response.  Returns (plaintext received, tcp closed by server)."""
    from nauyaca.server.tls_protocol import TLSServerProtocol

    st = state()
    cctx = st["clients"][cert_id]["ctx"] if cert_id else st["anon"]
    cctx.maximum_version = ssl.TLSVersion.TLSv1_3 if tls13 else ssl.TLSVersion.TLSv1_2
    sp = TLSServerProtocol(inner_factory, st["server_ctx"])
    tcp = FakeTCP()
    sp.connection_made(tcp)
    inb, outb = ssl.MemoryBIO(), ssl.MemoryBIO()
    so = cctx.wrap_bio(inb, outb, server_hostname="localhost")

    def pump():
        data = outb.read()
        if data and not tcp.closed:
            sp.data_received(data)
        for b in tcp.out:
            inb.write(b)
        tcp.out.clear()

    for _ in range(10):
        try:
            so.do_handshake()
            break
        except ssl.SSLWantReadError:
            pump()
    else:
        raise RuntimeError("TLS handshake did not complete")
    pump()
    so.write(line)
    got = b""
    for _ in range(12):
        pump()
        for _ in range(4):
            await asyncio.sleep(0)
        pump()
        try:
            while True:
                x = so.read(1 << 20)
                if not x:
                    break
                got += x
        except ssl.SSLWantReadError:
            pass
        except ssl.SSLZeroReturnError:
            break
        except ssl.SSLError:
            got += b"<SSLERR>"
            break
        if tcp.closed and not tcp.out and not inb.pending:
            break
    try:
        sp.connection_lost(None)
    except Exception:  # noqa: BLE001
        pass
    return got, tcp.closed
