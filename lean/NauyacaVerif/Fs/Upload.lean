import NauyacaVerif.Fs.Static
namespace Fs

/-! ## M-Upload: `FileUploadHandler.handle_upload` (repaired: atomic replace) as response + effects -/
abbrev Bytes := List Nat

structure UCfg where
  dir : Path                       -- resolved upload directory
  maxSize : Nat
  allowedTypes : Option (List String)   -- none or [] = all allowed
  tokens : List String                   -- [] = no authentication
  enableDelete : Bool

structure UReq where
  comps : List Name      -- request.path.lstrip("/") split on "/"
  size : Nat
  mime : String
  token : Option String
  content : Bytes

inductive Effect where
  | mkdirs (p : Path)               -- `target.parent.mkdir(parents=True, exist_ok=True)`
  | writeTemp (p : Path) (b : Bytes) (ok : Bool)   -- ok = false: the write failed part-way
  | rename (src dst : Path) (ok : Bool)
  | unlink (p : Path) (ok : Bool)
deriving Repr, DecidableEq

/-- what the storage layer does when asked (fault injection points) -/
structure Faults where
  mkdirOk : Bool := true
  writeOk : Bool := true
  renameOk : Bool := true
  unlinkOk : Bool := true

inductive UStatus where | s20 | s40 | s50 | s51 | s59 | s60
deriving Repr, DecidableEq

def tempName (n : Name) : Name := "." ++ n ++ ".upload"

def authOk (c : UCfg) (r : UReq) : Bool :=
  c.tokens.isEmpty || (match r.token with | some t => !t.isEmpty && c.tokens.contains t | none => false)

def typeOk (c : UCfg) (r : UReq) : Bool :=
  match c.allowedTypes with
  | none => true
  | some l => l.isEmpty || l.contains r.mime

def store (c : UCfg) (f : Faults) (target : Path) (content : Bytes) : UStatus × List Effect :=
  let parent := target.dropLast
  let temp := parent ++ [tempName (target.getLast?.getD "")]
  if !f.mkdirOk then (.s40, [.mkdirs parent])     -- mkdir itself failed: nothing else happens
  else if !f.writeOk then (.s40, [.mkdirs parent, .writeTemp temp content false, .unlink temp true])
  else if !f.renameOk then (.s40, [.mkdirs parent, .writeTemp temp content true, .rename temp target false, .unlink temp true])
  else (.s20, [.mkdirs parent, .writeTemp temp content true, .rename temp target true])

def handleUpload (os : OS) (c : UCfg) (f : Faults) (r : UReq) : UStatus × List Effect :=
  if !authOk c r then (.s60, [])
  else if r.size > c.maxSize then (.s50, [])
  else if !typeOk c r then (.s59, [])
  else if r.size = 0 then
    if !c.enableDelete then (.s50, [])
    else match os.resolve (c.dir ++ r.comps) with
      | none => (.s40, [])
      | some t =>
        if !inside c.dir t then (.s59, [])
        else if os.kind t = .missing then (.s51, [])
        else if f.unlinkOk then (.s20, [.unlink t true]) else (.s40, [.unlink t false])
  else match os.resolve (c.dir ++ r.comps) with
    | none => (.s40, [])
    | some t =>
      if !inside c.dir t || t == c.dir then (.s59, [])
      else store c f t (r.content.take r.size)

/-! ### a file-level view of the effects: what regular files exist with which bytes afterwards -/
abbrev Files := List (Path × Bytes)

def Files.set (fs : Files) (p : Path) (b : Bytes) : Files := (p, b) :: fs.filter (·.1 != p)
def Files.del (fs : Files) (p : Path) : Files := fs.filter (·.1 != p)
def Files.get (fs : Files) (p : Path) : Option Bytes := (fs.find? (·.1 == p)).map (·.2)

def applyEffect (fs : Files) : Effect → Files
  | .mkdirs _ => fs
  | .writeTemp p b ok => if ok then fs.set p b else fs.set p (b.take (b.length / 2))   -- a torn temp file
  | .rename s d ok => if ok then (match fs.get s with | some b => (fs.del s).set d b | none => fs) else fs
  | .unlink p ok => if ok then fs.del p else fs

def applyAll (fs : Files) (es : List Effect) : Files := es.foldl applyEffect fs

/-- paths an effect touches -/
def Effect.paths : Effect → List Path
  | .mkdirs p => [p]
  | .writeTemp p _ _ => [p]
  | .rename s d _ => [s, d]
  | .unlink p _ => [p]

theorem inside_dropLast {root t : Path} (h : inside root t = true) (hne : t ≠ root) : inside root t.dropLast = true := by
  simp only [inside, List.isPrefixOf_iff_prefix] at h ⊢
  obtain ⟨s, rfl⟩ := h
  cases hs : s.reverse with
  | nil => simp at hs; subst hs; simp at hne
  | cons x xs =>
    have : s = xs.reverse ++ [x] := by
      have := congrArg List.reverse hs; simpa using this
    rw [this, ← List.append_assoc, List.dropLast_concat]
    exact List.prefix_append _ _

theorem inside_append {root p : Path} (h : inside root p = true) (x : Name) : inside root (p ++ [x]) = true := by
  simp only [inside, List.isPrefixOf_iff_prefix] at h ⊢
  exact h.trans (List.prefix_append _ _)

/-- C14: every filesystem effect of an upload or delete lies inside the upload directory -/
theorem upload_confined (os : OS) (c : UCfg) (f : Faults) (r : UReq) :
    ∀ e ∈ (handleUpload os c f r).2, ∀ p ∈ e.paths, inside c.dir p = true := by
  intro e he p hp
  unfold handleUpload at he
  split at he
  · simp at he
  · split at he
    · simp at he
    · split at he
      · simp at he
      · split at he
        · split at he
          · simp at he
          · split at he
            · simp at he
            · rename_i t _
              split at he
              · simp at he
              · rename_i hin
                have hin' : inside c.dir t = true := by simpa using hin
                split at he
                · simp at he
                · split at he <;> (simp at he; subst he; simp [Effect.paths] at hp; subst hp; exact hin')
        · split at he
          · simp at he
          · rename_i t _
            split at he
            · simp at he
            · rename_i hcond
              simp only [Bool.or_eq_true, Bool.not_eq_true', beq_iff_eq, not_or] at hcond
              have hin : inside c.dir t = true := by
                cases h : inside c.dir t <;> simp_all
              have hne : t ≠ c.dir := hcond.2
              have hpar := inside_dropLast hin hne
              have htmp := inside_append hpar (tempName (t.getLast?.getD ""))
              unfold store at he
              split at he
              · simp at he; subst he; simp [Effect.paths] at hp; subst hp; exact hpar
              · split at he
                · simp at he
                  rcases he with rfl | rfl | rfl <;> simp [Effect.paths] at hp <;> subst hp <;> assumption
                · split at he
                  · simp at he
                    rcases he with rfl | rfl | rfl | rfl <;> simp [Effect.paths] at hp
                    · subst hp; exact hpar
                    · subst hp; exact htmp
                    · rcases hp with rfl | rfl <;> assumption
                    · subst hp; exact htmp
                  · simp at he
                    rcases he with rfl | rfl | rfl <;> simp [Effect.paths] at hp
                    · subst hp; exact hpar
                    · subst hp; exact htmp
                    · rcases hp with rfl | rfl <;> assumption
end Fs

namespace Fs

theorem get_del_set (fs : Files) (t : Path) (b : Bytes) (p : Path) (h : fs.get t = none) :
    ((fs.set t b).del t).get p = fs.get p := by
  unfold Files.set Files.del Files.get at *
  have hnone : ∀ q ∈ fs, (q.1 == t) = false := by
    intro q hq
    cases hqt : (q.1 == t) with
    | false => rfl
    | true =>
      exfalso
      have : (fs.find? (·.1 == t)).isSome := by
        rw [List.find?_isSome]; exact ⟨q, hq, hqt⟩
      cases hf : fs.find? (·.1 == t) with
      | none => simp [hf] at this
      | some v => simp [hf] at h
  have e1 : ((t, b) :: fs.filter (·.1 != t)).filter (·.1 != t) = fs := by
    simp only [List.filter_cons, bne_self_eq_false, Bool.false_eq_true, ↓reduceIte, List.filter_filter, Bool.and_self]
    rw [List.filter_eq_self]
    intro q hq
    have := hnone q hq
    simp [bne, this]
  rw [e1]

/-- C14: a storing attempt that ends in a failure status leaves every existing file exactly as it was
    (the torn data only ever lived in the temporary file, which is removed) -/
theorem store_fail_unchanged (c : UCfg) (f : Faults) (t : Path) (content : Bytes) (fs : Files)
    (htmp : fs.get (t.dropLast ++ [tempName (t.getLast?.getD "")]) = none)
    (hfail : (store c f t content).1 ≠ .s20) :
    ∀ p, (applyAll fs (store c f t content).2).get p = fs.get p := by
  intro p
  unfold store at hfail ⊢
  simp only at hfail ⊢
  split
  · simp [applyAll, applyEffect]
  · split
    · simp only [applyAll, List.foldl_cons, List.foldl_nil, applyEffect, Bool.false_eq_true, ↓reduceIte]
      exact get_del_set fs _ _ p htmp
    · split
      · simp only [applyAll, List.foldl_cons, List.foldl_nil, applyEffect, ↓reduceIte, Bool.false_eq_true]
        exact get_del_set fs _ _ p htmp
      · rename_i h1 h2 h3
        simp [h1, h2, h3] at hfail

example :
    let c : UCfg := ⟨["up"], 100, none, [], false⟩
    (store c { writeOk := false } ["up", "a"] [1, 2, 3, 4]).1 = .s40 := by decide
end Fs

namespace Fs
/-- C14: anything at all happens to the filesystem only for a request that passed every guard -/
theorem upload_guarded (os : OS) (c : UCfg) (f : Faults) (r : UReq) (h : (handleUpload os c f r).2 ≠ []) :
    authOk c r = true ∧ r.size ≤ c.maxSize ∧ typeOk c r = true ∧ (r.size = 0 → c.enableDelete = true) := by
  unfold handleUpload at h
  split at h
  · simp at h
  · rename_i ha
    split at h
    · simp at h
    · rename_i hs
      split at h
      · simp at h
      · rename_i ht
        refine ⟨by simpa using ha, by omega, by simpa using ht, ?_⟩
        intro hz
        simp only [hz, ↓reduceIte] at h
        split at h
        · simp at h
        · rename_i hd; simpa using hd

/-- C14: what is stored is exactly the declared number of bytes that followed the request line -/
theorem upload_content (os : OS) (c : UCfg) (f : Faults) (r : UReq) (p : Path) (b : Bytes) (ok : Bool)
    (h : Effect.writeTemp p b ok ∈ (handleUpload os c f r).2) : b = r.content.take r.size := by
  unfold handleUpload at h
  split at h
  · simp at h
  · split at h
    · simp at h
    · split at h
      · simp at h
      · split at h
        · split at h
          · simp at h
          · split at h
            · simp at h
            · split at h
              · simp at h
              · split at h
                · simp at h
                · split at h <;> simp at h
        · split at h
          · simp at h
          · split at h
            · simp at h
            · unfold store at h
              split at h
              · simp at h
              · split at h
                · simp at h; exact h.2.1
                · split at h
                  · simp at h; exact h.2.1
                  · simp at h; exact h.2.1
end Fs
