"""Temp document trees, request-path spellings and encodings shared by C02 and C05.

A tree is a JSON-able list of entries below a fresh base directory:
    ["d", relpath] | ["f", relpath, id, utf8_ok, size] | ["l", relpath, target]
`relpath` is "/"-joined names; names are Python str (undecodable file-name bytes appear as the
lone surrogates of os.fsdecode).  Symlink targets starting with "/" are relative to the base
directory (the model's "/").  Regular files carry the sentinel `@@S<id>@@` as their first bytes.
"""
from __future__ import annotations

import os
import random
import shutil
import tempfile
import urllib.parse

SENT = "@@S%d@@"


def sentinel(fid: int) -> str:
    return SENT % fid


def sentinels_in(text: str) -> list[int]:
    out, i = [], 0
    while True:
        i = text.find("@@S", i)
        if i < 0:
            return sorted(set(out))
        j = text.find("@@", i + 3)
        if j > 0 and text[i + 3:j].isdigit():
            out.append(int(text[i + 3:j]))
        i += 3


# ----------------------------------------------------------------------------------------------
# encodings for the Lean driver
# ----------------------------------------------------------------------------------------------
def _cp(c: str) -> int:
    o = ord(c)
    # lone surrogates of undecodable bytes -> private use area, injectively (Lean's Char has no surrogates)
    return o - 0xDC80 + 0xF780 if 0xDC80 <= o <= 0xDCFF else o


def enc_name(s: str) -> str:
    return ",".join(format(_cp(c), "x") for c in s) if s else "-"


def dec_name(s: str) -> str:
    if s == "-":
        return ""
    out = []
    for t in s.split(","):
        o = int(t, 16)
        out.append(chr(o - 0xF780 + 0xDC80) if 0xF780 <= o <= 0xF7FF else chr(o))
    return "".join(out)


def enc_path(rel: str) -> str:
    return "/".join(enc_name(n) for n in rel.split("/")) if rel else "-"


def dec_path(s: str) -> str:
    return "" if s == "-" else "/".join(dec_name(n) for n in s.split("/"))


def enc_tree(ents) -> str:
    out = []
    for e in ents:
        if e[0] == "d":
            out.append("d|" + enc_path(e[1]))
        elif e[0] == "f":
            out.append(f"f|{enc_path(e[1])}|{e[2]}")
        else:
            out.append(f"l|{enc_path(e[1])}|{enc_name(e[2])}")
    return ";".join(out)


def enc_metas(ents) -> str:
    return ";".join(f"{e[2]}:{int(e[3])}:{e[4]}" for e in ents if e[0] == "f") or "-"


# ----------------------------------------------------------------------------------------------
# building
# ----------------------------------------------------------------------------------------------
def file_bytes(fid: int, utf8_ok: bool, size: int) -> bytes:
    data = sentinel(fid).encode()
    if not utf8_ok:
        data += b"\xff\xfe"
    # the second line is a gemtext heading that names the file again: whatever quotes "the title" of a file quotes its sentinel
    data += b"\n# " + sentinel(fid).encode() + b" title\n"
    if len(data) < size:
        data += b"x" * (size - len(data))
    return data


def normalise(ents):
    """Give every file its real size; returns a new entry list."""
    out = []
    for e in ents:
        if e[0] == "f":
            out.append(["f", e[1], e[2], bool(e[3]), len(file_bytes(e[2], bool(e[3]), e[4]))])
        else:
            out.append(list(e))
    return out


class Built:
    def __init__(self, ents):
        self.base = os.path.realpath(tempfile.mkdtemp(prefix="nv-"))
        self.ents = []          # the entries that were actually created
        try:
            for e in ents:
                full = os.path.join(self.base, e[1])
                par = os.path.dirname(full)
                if not os.path.isdir(par) or os.path.islink(par) or os.path.lexists(full):
                    continue
                try:
                    if e[0] == "d":
                        os.mkdir(full)
                    elif e[0] == "f":
                        with open(full, "wb") as f:
                            f.write(file_bytes(e[2], bool(e[3]), e[4]))
                    else:
                        tgt = e[2]
                        os.symlink((self.base + tgt) if tgt.startswith("/") else tgt, full)
                except (OSError, ValueError):
                    continue
                self.ents.append(list(e))
            # the model's "/" clamps "..": drop links through which the kernel would leave the base directory
            for e in list(self.ents):
                if e[0] == "l":
                    rp = os.path.realpath(os.path.join(self.base, e[1]))
                    if not (rp == self.base or rp.startswith(self.base + os.sep)):
                        os.unlink(os.path.join(self.base, e[1]))
                        self.ents.remove(e)
        except BaseException:
            self.close()
            raise

    @property
    def root(self) -> str:
        return os.path.join(self.base, "root")

    def outside_ids(self) -> list[int]:
        """ids of regular files whose os.path.realpath lies outside the document root"""
        root = os.path.realpath(self.root)
        out = []
        for e in self.ents:
            if e[0] == "f":
                rp = os.path.realpath(os.path.join(self.base, e[1]))
                if not rp.startswith(root + os.sep):
                    out.append(e[2])
        return sorted(out)

    def real_rel(self, fid: int) -> str | None:
        for e in self.ents:
            if e[0] == "f" and e[2] == fid:
                return os.path.relpath(os.path.realpath(os.path.join(self.base, e[1])), self.base)
        return None

    def marks(self) -> list[str]:
        """texts that only the name of an entry OUTSIDE the document root contains"""
        return [MARK]

    def close(self) -> None:
        shutil.rmtree(self.base, ignore_errors=True)

    def __enter__(self):
        return self

    def __exit__(self, *a):
        self.close()


class View(Built):
    """The tree of a `Built` as a server sees it whose document root is ANOTHER directory of that tree (`rootrel`,
    relative to the base directory; "" = the base directory itself): several servers / locations of one process, each
    judged against ITS root.  Owns nothing: closing it does not remove the tree."""

    def __init__(self, built: Built, rootrel: str):
        self.base = built.base
        self.rootrel = rootrel.strip("/")
        self._built = built

    @property
    def ents(self):
        return self._built.ents

    @property
    def root(self) -> str:
        return os.path.join(self.base, self.rootrel) if self.rootrel else self.base

    def outside_ids(self) -> list[int]:
        root = os.path.realpath(self.root)
        out = []
        for e in self.ents:
            if e[0] == "f":
                rp = os.path.realpath(os.path.join(self.base, e[1]))
                if not rp.startswith(root.rstrip(os.sep) + os.sep):
                    out.append(e[2])
        return sorted(out)

    def marks(self) -> list[str]:
        """the marker names (each exists once in a tree) of the directories that lie outside THIS root"""
        root = os.path.realpath(self.root)
        out = []
        for e in self.ents:
            name = e[1].rsplit("/", 1)[-1]
            if e[0] == "f" and name.startswith(MARK):
                rp = os.path.realpath(os.path.join(self.base, e[1]))
                if not rp.startswith(root.rstrip(os.sep) + os.sep):
                    out.append(name)
        return out

    def close(self) -> None:
        pass


def settle(ents):
    """Build the tree once and return the entries that really exist (parents that are real
    directories, names the filesystem accepts, no link through which the kernel leaves the base
    directory): generated cases then describe exactly the tree every later run builds."""
    with Built(ents) as b:
        return b.ents


# ----------------------------------------------------------------------------------------------
# generators
# ----------------------------------------------------------------------------------------------
UNDEC = "\udcff\udcfe"      # os.fsdecode(b"\xff\xfe")
NAMES = ["a", "b", "sub", "x y", "ü", "index.gmi", "index.gemini", "f.gmi", "é%41", "éA", "p;q", "c%20d", "c d",
         "日本", UNDEC, "A.GMI", ".gmi", "d.", "%", "%zz", "back\\slash", "q?", "h#", "ctl\x01", "n" * 200, "t.GeMiNi",
         "..x", "x..", "...", "\U0001f600", "e.txt",
         # names that are not in Unicode normalisation form C (the file system compares bytes): decomposed accents,
         # conjoining Hangul jamo, singleton code points; and their normalised twins living next to them
         "u\u0308", "e\u0301.gmi", "\u00e9.gmi", "\u1100\u1161", "\uac00", "\u2126", "\u03a9", "\u212b", "\ufb01le", "a\u0323\u0307",
         # names that begin or end with a blank (space, no-break space, ideographic space): the end of the path is the end of the request line
         "t ", " l", "nb\u00a0", "\u3000w", "t"]
MARK = "zzoutside"          # every directory outside the root holds an entry with this name prefix


def base_entries():
    return [["d", "root"], ["d", "root-evil"], ["d", "out"],
            ["f", "out/secret", 1, True, 0], ["f", "root-evil/e", 2, True, 0],
            ["d", "out/sub"], ["f", "out/sub/index.gmi", 3, True, 0],
            ["f", "out/" + MARK + "1", 4, True, 0], ["f", "root-evil/" + MARK + "2", 5, True, 0],
            ["f", "out/sub/" + MARK + "3", 6, True, 0], ["f", "root-evil/index.gmi", 7, True, 0]]


def gen_tree(rnd: random.Random, max_nodes: int = 25, names=NAMES, big: int = 400):
    ents = base_entries()
    dirs = ["root", "root-evil", "out", "out/sub"]
    fid = 8
    for _ in range(rnd.randint(2, max_nodes - len(ents))):
        inside = [d for d in dirs if d == "root" or d.startswith("root/")]
        parent = rnd.choice(dirs) if rnd.random() < 0.12 else rnd.choice(inside)
        depth = parent.count("/") + 1          # depth of the new entry's directory below the base
        if depth >= 4 and rnd.random() < 0.8:
            continue
        name = rnd.choice(names)
        k = rnd.random()
        if k >= 0.62 and rnd.random() < 0.3:
            name = rnd.choice(["index.gmi", "index.gemini"])       # index files that are links
        p = parent + "/" + name
        if any(e[1] == p for e in ents):
            continue
        if k < 0.27 and depth < 4:
            ents.append(["d", p])
            dirs.append(p)
        elif k < 0.62:
            ents.append(["f", p, fid, rnd.random() < 0.9, big if rnd.random() < 0.08 else 0])
            fid += 1
        else:
            tk = rnd.random()
            up = "../" * rnd.randint(0, depth)
            if tk < 0.2:
                tgt = rnd.choice(names)                                             # sibling (maybe dangling)
            elif tk < 0.45:
                tgt = up + rnd.choice(["out/secret", "out", "out/sub", "root-evil/e", "root-evil", "root", "root/" + rnd.choice(names)])
            elif tk < 0.7:
                tgt = "/" + rnd.choice(dirs + [e[1] for e in ents])                 # absolute, relative to the base
            elif tk < 0.78:
                tgt = name                                                          # self loop
            elif tk < 0.86:
                tgt = "../" * min(depth - 1, 1) + rnd.choice(names)                 # towards a two-step loop
            elif tk < 0.93:
                tgt = "./" + rnd.choice(names) + "/../" + rnd.choice(names) if depth >= 2 else rnd.choice(names)
            else:
                tgt = "nonexistent/" + rnd.choice(names)
            ents.append(["l", p, tgt])
    if rnd.random() < 0.3:
        # a link whose target passes through the link itself and is cancelled lexically by "..":
        # realpath() reports a loop there and hands back an unresolved, merely normalised path
        inside = [d for d in dirs if d == "root" or d.startswith("root/")]
        d = rnd.choice(inside)
        depth = d.count("/") + 1
        g1, g2 = rnd.sample([n for n in names if n not in (UNDEC,)], 2)
        if not any(e[1] in (d + "/" + g1, d + "/" + g2) for e in ents):
            ents.append(["l", d + "/" + g1, rnd.choice(["./" + g1 + "/../" + g2, g1 + "/../" + g2, "../" + d.rsplit("/", 1)[-1] + "/" + g1 + "/../" + g2
                                                         if depth >= 2 else g1 + "/../" + g2])])
            k = rnd.random()
            if k < 0.5:
                ents.append(["l", d + "/" + g2, "../" * depth + rnd.choice(["out/secret", "root-evil/e", "out/sub", "root-evil"])])
            elif k < 0.7:
                ents.append(["f", d + "/" + g2, fid, True, 0])
            elif k < 0.85:
                ents.append(["d", d + "/" + g2])
                ents.append(["l", d + "/" + g2 + "/index.gmi", "../" * (depth + 1) + "out/secret"])
            # else: dangling
    return normalise(ents)


UP_NAMES = ["up", "parent", "top", "all", "fs", "..x", "b"]


def ancestor_links(rnd: random.Random, ents, k: int = 2):
    """-> (entries, [paths of the new links]): directory symlinks INSIDE the root that lead to an ANCESTOR of the root - the
    directory above it (the model's "/": `..` from the root, `../..` one level down, an absolute target, a detour through a
    sibling and back up, a second link through the first) - or, for comparison, exactly to the root.  The directory above the
    root gets a marker entry of its own, so that a listing of it is recognised as one of a directory outside the root."""
    ents = [list(e) for e in ents]
    have = {e[1] for e in ents}
    if MARK + "0" not in have:
        ents.append(["f", MARK + "0", max([e[2] for e in ents if e[0] == "f"] + [7]) + 1, True, 0])
    dirs = [e[1] for e in ents if e[0] == "d" and (e[1] == "root" or e[1].startswith("root/")) and e[1].count("/") < 3]
    made = []
    for _ in range(k):
        d = rnd.choice(dirs if rnd.random() < 0.5 else ["root"])
        n = rnd.choice(UP_NAMES)
        p = d + "/" + n
        if p in have:
            continue
        depth = d.count("/") + 1                       # `..` steps from the link's directory to the directory above the root
        c = rnd.random()
        if c < 0.40:
            tgt = "/".join([".."] * depth)
        elif c < 0.55:
            tgt = "/"
        elif c < 0.65:
            tgt = "../" * depth + rnd.choice(["out/..", "root/..", "root-evil/../", "out/sub/../..", "."])
        elif c < 0.75:
            tgt = "/" + rnd.choice(["out/..", "root/..", "."])
        elif c < 0.85 and made:
            tgt = "../" * (depth - 1) + made[-1][len("root/"):]           # a link to the link made before
        elif c < 0.93:
            tgt = "../" * depth + "root"                                   # exactly the root: still inside
        else:
            tgt = "../" * (depth + rnd.randint(1, 2))                      # (leaves the model's "/": dropped when the tree is built)
        ents.append(["l", p, tgt])
        have.add(p)
        made.append(p)
    return ents, made


def quote_all(s: str) -> str:
    return urllib.parse.quote(s, safe="")


def own_spellings(rel_inside: str) -> tuple[str, str | None]:
    """(literal, percent-encoded) URL path of an entry given relative to the root ('' = the root)"""
    lit = "/" + rel_inside
    try:
        enc = "/" + "/".join(quote_all(n) for n in rel_inside.split("/")) if rel_inside else "/"
    except UnicodeEncodeError:      # undecodable name
        enc = None
    return lit, enc


def _enc_some(rnd: random.Random, s: str) -> str:
    out = []
    for ch in s:
        if ch != "/" and rnd.random() < 0.4:
            try:
                out.append("".join(("%%%02x" if rnd.random() < 0.5 else "%%%02X") % b for b in ch.encode("utf-8")))
            except UnicodeEncodeError:
                out.append(ch)
        else:
            out.append(ch)
    return "".join(out)


ESCAPES = ["/../out/secret", "/../../out/secret", "/../root-evil/e", "/%2e%2e/out/secret", "/%2E%2E%2Fout%2Fsecret", "/..%2fout/secret",
           "/%252e%252e/out/secret", "/..\\out\\secret", "/..%5cout%5csecret", "/%c0%ae%c0%ae/out/secret", "/.%2e/out/secret",
           "/sub/../../out/secret", "/./../out/secret", "/..;/out/secret", "/../root-evil/", "/../out/sub/", "/../out/", "/..",
           "/../", "/%00", "/a%00b", "/\x00", "/%2e", "/%2e/", "/.", "/./", "//", "/", "", "/%", "/%4", "/%zz", "/%ff", "/%e2%82",
           "/\x7f", "/\x01", "/%01", "/%0a", "/%09", "/a\tb", "/ ", "/%20", "/.../", "/....", "/root", "/root/", "/-evil/e",
           "/../root", "/../root/", "/?", "/#", "/a?b/../../out/secret", "/a#b"]


def _encodable(s: str) -> bool:
    try:
        s.encode("utf-8")
        return True
    except UnicodeEncodeError:
        return False


def spellings(rnd: random.Random, ents, n: int) -> list[str]:
    """request paths (the text after `gemini://h`) aimed at the entries of a tree"""
    inside = [e[1][len("root"):] or "/" for e in ents if (e[1] == "root" or e[1].startswith("root/")) and _encodable(e[1])]
    names = [n for n in (e[1].rsplit("/", 1)[-1] for e in ents) if _encodable(n) and not n.startswith(MARK)]
    out: list[str] = []
    # the own path of every plain file, literally and percent-encoded (completeness), first
    for e in ents:
        if e[0] == "f" and e[1].startswith("root/") and rnd.random() < 0.5:
            lit, enc = own_spellings(e[1][len("root/"):])
            if enc is not None:          # (a name with undecodable bytes has no spelling in a UTF-8 request line)
                out.append(lit)
                out.append(enc)
    rnd.shuffle(out)
    out = out[:max(2, n // 2)]
    while len(out) < n:
        base = rnd.choice(inside + ["/", "/zz"])
        k = rnd.random()
        if k < 0.10:
            s = base
        elif k < 0.18:
            s = base + "/"
        elif k < 0.26:
            s = urllib.parse.quote(base, safe="/" if rnd.random() < 0.5 else "")
        elif k < 0.32:
            s = _enc_some(rnd, base)
        elif k < 0.38:
            s = base.replace("/", "/" * rnd.randint(2, 3))
        elif k < 0.46:       # dot / dot-dot at any depth
            parts = base.split("/")
            i = rnd.randint(1, len(parts))
            ins = rnd.choice([["."], [rnd.choice(names + ["zz"]), ".."], ["..", parts[i - 1] if i - 1 < len(parts) and parts[i - 1] else "zz"],
                              ["%2e"], [rnd.choice(names + ["zz"]), "%2e%2e"], [""], [".", ".", ""]])
            s = "/".join(parts[:i] + ins + parts[i:])
        elif k < 0.56:
            s = rnd.choice(ESCAPES)
        elif k < 0.60:
            s = base + "/" + rnd.choice(["index.gmi", "index.gemini", ".", "..", "", "%2e%2e", "index.gmi/", "index.gmi/."])
        elif k < 0.68:
            s = "/" + "/".join(rnd.choice(names + ["..", ".", "", "%2e%2e", "zz"]) for _ in range(rnd.randint(1, 5)))
        elif k < 0.72:
            s = base + rnd.choice(["%ff", "%00", ".", "..", ";", ";x=1", "\\", "%5c..", "?q", "?../../x", "#", "#f", " ", "%20", "%2f", "%2f..%2f.."])
        elif k < 0.76:       # long names
            ln = rnd.choice([254, 255, 256, 300, 600])
            s = rnd.choice(["/", base + "/"]) + rnd.choice("abü") * (ln if rnd.random() < 0.6 else ln // 2) + rnd.choice(["", "/", "/..", "/x"])
        elif k < 0.80:       # backslashes
            s = base.replace("/", "\\") if rnd.random() < 0.5 else base + "\\..\\..\\out\\secret"
        elif k < 0.84:       # double encoding
            s = urllib.parse.quote(urllib.parse.quote(base, safe="/"), safe="/")
        elif k < 0.88:       # leave and re-enter
            s = "/../root" + base if rnd.random() < 0.5 else "/" + "/".join([".."] * rnd.randint(1, 6)) + base
        elif k < 0.92:
            s = "/" + "".join(rnd.choice("a/.%2eEfF5c\\;~é") for _ in range(rnd.randint(1, 14)))
        else:
            s = base + "/" + rnd.choice(names)
        if not s.startswith("/"):
            s = "/" + s
        out.append(s)
    return out[:n]


# ----------------------------------------------------------------------------------------------
# the URL glue, derived independently of urllib (what `GeminiRequest.from_line` does with
# "gemini://h" + spelling when the spelling starts with "/")
# ----------------------------------------------------------------------------------------------
def url_path(spelling: str, max_request: int = 1024):
    """-> ("reject", why) | ("ok", path)"""
    url = "gemini://h" + spelling
    try:
        if len(url.encode("utf-8")) + 2 > max_request:
            return ("reject", "long")
    except UnicodeEncodeError:
        return ("reject", "encode")
    s = spelling.replace("\t", "").replace("\r", "").replace("\n", "")
    frag = ""
    if "#" in s:
        s, frag = s.split("#", 1)
    if "?" in s:
        s = s.split("?", 1)[0]
    if frag:
        return ("reject", "fragment")
    return ("ok", s or "/")


# ----------------------------------------------------------------------------------------------
# directory listings
# ----------------------------------------------------------------------------------------------
def listing_names(body: str, req_path: str) -> list[str] | None:
    """names shown in a generated directory listing (None: not a listing)"""
    if not body.startswith("# Index of "):
        return None
    bp = req_path if req_path.endswith("/") else req_path + "/"
    names = []
    for ln in body.split("\n")[1:]:
        if not ln.startswith("=> ") or ln.endswith(" .."):
            continue
        rest = ln[3:]
        if not rest.startswith(bp):
            return None
        disp = rest[len(bp):]
        if disp.endswith("/"):                      # "<name>/ <name>/"
            names.append(disp[:(len(disp) - 3) // 2])
        elif disp.endswith(")") and " (" in disp:    # "<name> <name> (<size>)"
            disp = disp[:disp.rindex(" (")]
            names.append(disp[:(len(disp) - 1) // 2])
        else:
            return None
    return sorted(names)


# ----------------------------------------------------------------------------------------------
# canonical observations of a static response (shared by C02 and C05)
# ----------------------------------------------------------------------------------------------
def why40(meta: str) -> str:
    if meta.startswith("File encoding error"):
        return "notutf8"
    if meta.startswith("Permission denied"):
        return "denied"
    if meta.startswith("Error generating directory listing:"):
        return "listing"
    if meta.startswith("Server error:"):
        return "ioerror"
    return "other:" + meta[:30]


def canon_response(status, meta, body, req_path, built: "Built"):
    """(compared part, oracle part) of one response"""
    text = (meta or "") + "\n" + (body or "")
    # (no generated request spelling contains the marker name, so an echo of the request cannot produce it)
    x = {"st": status, "sent": sentinels_in(text), "metasent": sentinels_in(meta or ""), "mark": any(m in text for m in built.marks()),
         "nobody": body is None or body == ""}
    # ground truth independent of handler and model: does the requested path - canonical form, a trailing slash meaning
    # "a directory" - resolve to anything at all?
    u = url_path(req_path) if isinstance(req_path, str) else ("reject", "")
    if u[0] == "ok":
        canon = ref_canonical(u[1])
        try:
            # "resolves" in the sense of the property: Path.resolve(strict=True) = os.path.realpath (which cancels `..` in link targets
            # lexically - not always what the kernel's own walk does; the handler's notion is the one the property speaks of)
            real = os.path.realpath(os.path.join(built.root, canon.strip("/")) if canon != "/" else built.root, strict=True)
            x["resolves"] = os.path.isdir(real) if canon.endswith("/") else True
            # ... and is the place it resolves to the document root or something below it?
            rr = os.path.realpath(built.root)
            x["inside"] = real == rr or real.startswith(rr.rstrip(os.sep) + os.sep)
            x["dir"] = os.path.isdir(real)
        except (OSError, ValueError):
            x["resolves"] = False
    if status == 20:
        ids = sentinels_in((body or "")[:40])
        if body and body.startswith("@@S") and len(ids) == 1:
            mime = "gem" if meta == "text/gemini" else "plain" if meta == "text/plain" else "mime:" + str(meta)
            return ["20", "file", ids[0], mime, built.real_rel(ids[0])], x
        names = listing_names(body or "", req_path)
        if names is not None:
            x["names"] = names
            return ["20", "listing", names], x
        return ["20", "unknown", (body or "")[:40]], x
    if status == 40:
        return ["40", why40(meta or "")], x
    return [str(status)], x


def parse_static_out(o: str):
    """one result of the driver's `static` / `capsule` op -> the compared part of an observation"""
    f = o.split(" ")
    if f[0] == "20" and f[1].startswith("file"):
        return ["20", "file", int(f[1][4:]), f[2], dec_path(f[3])]
    if f[0] == "20":
        return ["20", "listing", sorted(dec_name(n) for n in f[3:] if n)]
    if f[0] == "40":
        return ["40", f[1]]
    return [f[0]]


def wire_of(r):
    """what the protocol layer must put on the wire for a handler-level result `r`"""
    if r == ["reject"]:
        return ["59"]
    if r == ["raised"]:
        return ["40", "ioerror"]
    if r[:2] == ["20", "listing"] and any(0xD800 <= ord(c) <= 0xDFFF for n in r[2] for c in n):
        return ["40", "ioerror"]          # the listing cannot be encoded: "Server error: response body is not valid text"
    return r


def parse_wire(out: bytes):
    """(status, meta, body | None) of the bytes a server wrote"""
    head, _, body = out.partition(b"\r\n")
    try:
        st, meta = int(head[:2]), head[3:].decode("utf-8", "replace")
    except ValueError:
        st, meta = -1, head.decode("utf-8", "replace")
    return st, meta, (body.decode("utf-8", "replace") if body else None)


def ref_canonical(path: str) -> str:
    """reference canonical form of a URL path (RFC 3986 §5.2.4 after one percent-decoding)"""
    segs: list[str] = []
    parts = urllib.parse.unquote(path).split("/")
    for p in parts:
        if p in ("", "."):
            continue
        if p == "..":
            if segs:
                segs.pop()
            continue
        segs.append(p)
    return "/" + "/".join(segs) + ("/" if segs and parts[-1] in ("", ".", "..") else "")
