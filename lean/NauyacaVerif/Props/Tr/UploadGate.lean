import NauyacaVerif.Gen.Fn.UploadGate
import NauyacaVerif.Fs.Upload

/-! Translated pre-checks of `FileUploadHandler.handle_upload` (token, size, media type - everything before the delete / store
branch) = the first three clauses of the model's `Fs.handleUpload`.  `Gen/Fn/UploadGate.lean` is produced on every run by
`harness/translate.py` from the Python AST of the CURRENT source tree (`None` = the request passes on to delete / store). -/
namespace NauyacaVerif.Translated
open NauyacaVerif.Gen Fs

/-- the status the model answers before touching the file system, if any -/
def gateOf (c : UCfg) (r : UReq) : Option Nat :=
  if !authOk c r then some 60 else if r.size > c.maxSize then some 50 else if !typeOk c r then some 59 else none

/-- the translated checks are the model's: same order, same statuses -/
theorem uploadGate_eq (c : UCfg) (r : UReq) :
    Fn.uploadGate c.tokens c.maxSize c.allowedTypes r.token r.size r.mime = gateOf c r := by
  unfold Fn.uploadGate gateOf authOk typeOk
  cases ht : c.tokens.isEmpty <;> rcases r.token with _ | t <;> rcases hq : c.allowedTypes with _ | l <;>
    (try (by_cases hs : r.size > c.maxSize)) <;> simp_all <;> (repeat' split) <;> simp_all

/-- and the model's handler answers exactly that status, with no effect on the file system, when a check refuses -/
theorem handleUpload_gate (os : UOS) (c : UCfg) (f : Faults) (r : UReq) (st : Nat) (h : gateOf c r = some st) :
    (handleUpload os c f r).2 = [] := by
  unfold gateOf at h
  unfold handleUpload
  split at h
  · simp_all
  · split at h
    · simp_all
    · split at h
      · simp_all; split <;> rfl
      · cases h
end NauyacaVerif.Translated
