import NauyacaVerif.Srv.SysProof
import NauyacaVerif.Srv.SegProof

/-! C07 for the composed machine M-Sys: however the transport splits the client's bytes into reads, the request side ends up in
    the same state (up to the buffer nobody reads any more) AND the write pump in exactly the same state - same pieces, same
    progress - as if the bytes had arrived in one read; whatever comes afterwards (more reads, timer, completions, pause/resume)
    then has the same effect. -/
namespace Srv.Sys
open Srv Srv.Flow

/-- equal up to the request side's dead buffer -/
def SEqv (a b : SSt) : Prop := Eqv a.conn b.conn ∧ a.flow = b.flow

theorem SEqv.refl (a : SSt) : SEqv a a := ⟨Eqv.refl _, rfl⟩
theorem SEqv.trans {a b c : SSt} (h1 : SEqv a b) (h2 : SEqv b c) : SEqv a c := ⟨h1.1.trans h2.1, h1.2.trans h2.2⟩

theorem eqv_fields {s t : St} (h : Eqv s t) : s.sent = t.sent ∧ s.out = t.out ∧ s.lost = t.lost := by
  have h1 := h.1
  exact ⟨by simpa using congrArg St.sent h1, by simpa using congrArg St.out h1, by simpa using congrArg St.lost h1⟩

/-- the same event applied to equivalent states gives equivalent states -/
theorem sstep_seqv (cfg : Cfg) (dyn : Nat → Bytes) {a b : SSt} (h : SEqv a b) (e : SEv) :
    SEqv (sstep cfg dyn a e) (sstep cfg dyn b e) := by
  cases e with
  | limit k => exact ⟨h.1, by simp [sstep, h.2]⟩
  | pause => exact ⟨h.1, by simp [sstep, h.2]⟩
  | resume => exact ⟨h.1, by simp [sstep, h.2]⟩
  | conn ev =>
    have hs := eqv_step cfg h.1 ev
    obtain ⟨f1, f2, f3⟩ := eqv_fields h.1
    obtain ⟨g1, g2, g3⟩ := eqv_fields hs
    refine ⟨hs, ?_⟩
    simp only [sstep, h.2, f1, f3, g1, g2, g3]

theorem foldl_seqv (cfg : Cfg) (dyn : Nat → Bytes) (rest : List SEv) {a b : SSt} (h : SEqv a b) :
    SEqv (rest.foldl (sstep cfg dyn) a) (rest.foldl (sstep cfg dyn) b) := by
  induction rest generalizing a b with
  | nil => simpa using h
  | cons e es ih => exact ih (sstep_seqv cfg dyn h e)

/-- two consecutive reads are one read of the concatenation, for both halves of the machine -/
theorem two_reads (cfg : Cfg) (dyn : Nat → Bytes) (s : SSt) (j : J cfg dyn s) (a b : Bytes) :
    SEqv (sstep cfg dyn (sstep cfg dyn s (.conn (.data a))) (.conn (.data b))) (sstep cfg dyn s (.conn (.data (a ++ b)))) := by
  have hm := merge cfg s.conn a b
  have hl1 : (step cfg s.conn (.data a)).lost = s.conn.lost := step_lostf cfg _ _ (by intro h; cases h)
  have hl2 : (step cfg (step cfg s.conn (.data a)) (.data b)).lost = (step cfg s.conn (.data a)).lost := step_lostf cfg _ _ (by intro h; cases h)
  have hlm : (step cfg s.conn (.data (a ++ b))).lost = s.conn.lost := step_lostf cfg _ _ (by intro h; cases h)
  obtain ⟨m1, m2, _⟩ := eqv_fields hm
  have i1 := step_inv cfg s.conn (.data a) j.ci
  refine ⟨hm, ?_⟩
  simp only [sstep, hl1, hl2, hlm, Bool.and_not_self, Bool.false_eq_true, ↓reduceIte]
  cases hs : s.conn.sent with
  | true =>
    have s1 := sent_stable cfg s.conn (.data a) j.ci hs
    have s2 := sent_stable cfg _ (.data b) i1 s1.2
    have sm := sent_stable cfg s.conn (.data (a ++ b)) j.ci hs
    simp [s1.2, s2.2, sm.2]
  | false =>
    cases h1 : (step cfg s.conn (.data a)).sent with
    | true =>
      have s2 := sent_stable cfg _ (.data b) i1 h1
      have hms : (step cfg s.conn (.data (a ++ b))).sent = true := by rw [← m1]; exact s2.2
      have hmo : (step cfg s.conn (.data (a ++ b))).out = (step cfg s.conn (.data a)).out := by rw [← m2]; exact s2.1
      simp [h1, s2.2, hms, hmo]
    | false =>
      simp only [h1, Bool.false_and, Bool.false_eq_true, ↓reduceIte, Bool.not_false, Bool.and_true, Bool.not_true, Bool.and_false]
      rw [← m1, ← m2]

/-- C07 on M-Sys: any event history in which a run of consecutive reads is replaced by one read of their concatenation ends in
    an equivalent state: same response decided, same bytes written, same progress of the pump, same counters -/
theorem seg_indep (cfg : Cfg) (dyn : Nat → Bytes) (pre rest : List SEv) (c : Bytes) (cs : List Bytes) :
    SEqv (srun cfg dyn (pre ++ (c :: cs).map (fun x => SEv.conn (.data x)) ++ rest))
         (srun cfg dyn (pre ++ [SEv.conn (.data (c ++ cs.flatten))] ++ rest)) := by
  unfold srun
  simp only [List.foldl_append]
  apply foldl_seqv
  have key : ∀ (s : SSt), J cfg dyn s → ∀ (c : Bytes) (cs : List Bytes),
      SEqv (((c :: cs).map (fun x => SEv.conn (.data x))).foldl (sstep cfg dyn) s) (sstep cfg dyn s (.conn (.data (c ++ cs.flatten)))) := by
    intro s j c cs
    induction cs generalizing s c with
    | nil => simp; exact SEqv.refl _
    | cons d ds ih =>
      have j1 := sstep_j cfg dyn s (.conn (.data c)) j
      have h1 := ih (sstep cfg dyn s (.conn (.data c))) j1 d
      simp only [List.map_cons, List.foldl_cons] at h1 ⊢
      refine h1.trans ?_
      have h2 := two_reads cfg dyn s j c (d ++ ds.flatten)
      simpa using h2
  have jp : J cfg dyn (pre.foldl (sstep cfg dyn) {}) := srun_j cfg dyn pre
  simpa using key _ jp c cs

/-- … in particular what has reached the transport is the same -/
theorem seg_indep_written (cfg : Cfg) (dyn : Nat → Bytes) (pre rest : List SEv) (c : Bytes) (cs : List Bytes) :
    (srun cfg dyn (pre ++ (c :: cs).map (fun x => SEv.conn (.data x)) ++ rest)).flow.out
      = (srun cfg dyn (pre ++ [SEv.conn (.data (c ++ cs.flatten))] ++ rest)).flow.out :=
  congrArg FSt.out (seg_indep cfg dyn pre rest c cs).2

/-- bytes that arrive after the response was decided change nothing: not what was decided, not what the pump does -/
theorem late_read_noop (cfg : Cfg) (dyn : Nat → Bytes) (s : SSt) (j : J cfg dyn s) (hs : s.conn.sent = true) (c : Bytes) :
    (sstep cfg dyn s (.conn (.data c))).flow = s.flow ∧ (sstep cfg dyn s (.conn (.data c))).conn.out = s.conn.out := by
  have st := sent_stable cfg s.conn (.data c) j.ci hs
  have hl : (step cfg s.conn (.data c)).lost = s.conn.lost := step_lostf cfg _ _ (by intro h; cases h)
  refine ⟨?_, st.1⟩
  simp [sstep, st.2, hs, hl]

/-- C15 on M-Sys: when the clock reaches the deadline on a connection still waiting for its request, the timeout response is
    decided; on a transport that accepts it (not paused, no pause coming) it is written whole and the connection is closed -/
theorem timeout_closes (cfg : Cfg) (dyn : Nat → Bytes) (s : SSt) (j : J cfg dyn s) (dt : Nat) (ht : s.conn.timer = true)
    (hd : s.conn.now + dt ≥ requestTimeout8) (hp : s.flow.paused = false) (hb : s.flow.budget = none) :
    (sstep cfg dyn s (.conn (.tick dt))).flow.closed = true ∧
    (sstep cfg dyn s (.conn (.tick dt))).flow.out = [.write (render ⟨40, strOf "Request timeout", .none⟩).1, .close] := by
  have hw := j.ci.timerIff.mp ht
  have hout := timeout_response cfg s.conn dt j.ci ht hd
  have hs' : (step cfg s.conn (.tick dt)).sent = true := by
    rcases (step_inv cfg s.conn (.tick dt) j.ci).shape with ⟨_, h0⟩ | ⟨h1, _⟩
    · rw [hout] at h0; cases h0
    · exact h1
  have hl' : (step cfg s.conn (.tick dt)).lost = s.conn.lost := step_lostf cfg _ _ (by intro h; cases h)
  have hfs : s.flow.started = false := by rw [j.started]; exact hw.2.2
  have hfl : s.flow.lost = false := by rw [j.lostEq]; exact hw.2.1
  have hidle := j.fi.idle hfs
  have hpieces : piecesOf dyn (step cfg s.conn (.tick dt)).out = [(render ⟨40, strOf "Request timeout", .none⟩).1] := by
    rw [hout]; rfl
  simp only [sstep, hs', hw.2.2, hl', Bool.not_false, Bool.and_self, ↓reduceIte, Bool.and_not_self, Bool.false_eq_true, hpieces]
  simp [fstep, pump, hfs, hfl, hp, hb, hidle.2.2.2, j.fi.trace, hidle.2.1]
end Srv.Sys
