import NauyacaVerif.Url.Idem
namespace Url

/-! # C19 for bracketed (IPv6 / IPvFuture) authorities

`parse_url` puts the host back between brackets when the host part of the authority contained `[`
(`rebracket`).  This file proves the bracketed counterpart of `parse_canonical`; `NormAll.lean` proves
the counterpart of `parseSplit_output` and combines both with the un-bracketed development into
`norm_idem_ascii`. -/

/-- contract of the opaque IP-literal check (`ipaddress.ip_address`, the IPvFuture regex): what it
    accepts, it also accepts in the lower-cased spelling `parse_url` reports as the host name -/
def IpStable (env : Env) : Prop := ∀ h, env.ipLiteralOk h = true → env.ipLiteralOk (normHost env h) = true

/-- a host that can stand between brackets in an authority -/
structure BrHost (env : Env) (H : Str) : Prop where
  ne : H ≠ []
  chars : ∀ c ∈ H, isDelim c = false ∧ c ≠ '@' ∧ c ≠ ']' ∧ c.toNat < 128 ∧ isUnsafe c = false
  fixed : normHost env H = H
  ipOk : env.ipLiteralOk H = true

def brk (H : Str) : Str := '[' :: (H ++ [']'])
def portPart (n : Nat) : Str := if n ≠ 1965 then ':' :: natToStr n else []

theorem brAuth_form (H : Str) (n : Nat) : authorityOf (brk H) n = '[' :: (H ++ ']' :: portPart n) := by
  unfold authorityOf brk portPart
  split <;> simp

theorem portPart_chars (n : Nat) : ∀ c ∈ portPart n,
    isDelim c = false ∧ c ≠ '@' ∧ c ≠ '[' ∧ c ≠ ']' ∧ c.toNat < 128 ∧ isUnsafe c = false := by
  intro c hc
  unfold portPart at hc
  split at hc
  · simp at hc
    rcases hc with rfl | hc
    · decide
    · have := natToStr_digits n c hc
      exact ⟨this.2.1, this.2.2.1, this.2.2.2.2.1, this.2.2.2.2.2.1, this.2.2.2.2.2.2.1, this.2.2.2.2.2.2.2⟩
  · simp at hc

theorem brAuth_chars {env : Env} {H : Str} (hH : BrHost env H) (n : Nat) :
    ∀ c ∈ authorityOf (brk H) n, isDelim c = false ∧ c ≠ '@' ∧ c.toNat < 128 ∧ isUnsafe c = false := by
  intro c hc
  rw [brAuth_form] at hc
  simp only [List.mem_cons, List.mem_append] at hc
  rcases hc with rfl | hc | rfl | hc
  · decide
  · have := hH.chars c hc; exact ⟨this.1, this.2.1, this.2.2.2.1, this.2.2.2.2⟩
  · decide
  · have := portPart_chars n c hc; exact ⟨this.1, this.2.1, this.2.2.2.2.1, this.2.2.2.2.2⟩

theorem splitOnce_head (c : Char) (b : Str) : splitOnce c (c :: b) = some ([], b) := by
  simp [splitOnce, findIdx]

theorem bracketed_brAuth {env : Env} {H : Str} (hH : BrHost env H) (n : Nat) :
    bracketed (authorityOf (brk H) n) = H := by
  have hc : ']' ∉ H := fun h => (hH.chars _ h).2.2.1 rfl
  rw [brAuth_form]
  unfold bracketed
  simp only [splitOnce_head, splitOnce_hit hc]

theorem contains_true {s : Str} {c : Char} (h : c ∈ s) : s.contains c = true := by simpa using h

theorem checkNetloc_brAuth {env : Env} {H : Str} (hH : BrHost env H) (n : Nat) :
    checkNetloc env (authorityOf (brk H) n) = none := by
  have ho : (authorityOf (brk H) n).contains '[' = true := contains_true (by rw [brAuth_form]; simp)
  have hc : (authorityOf (brk H) n).contains ']' = true := contains_true (by rw [brAuth_form]; simp)
  have ha : (authorityOf (brk H) n).all (fun c => decide (c.toNat < 128)) = true := by
    apply List.all_eq_true.mpr; intro c hcm; simpa using (brAuth_chars hH n c hcm).2.2.1
  unfold checkNetloc
  simp only [ho, hc, bracketed_brAuth hH n, hH.ipOk, ha]
  simp

theorem hostinfo_brAuth {env : Env} {H : Str} (hH : BrHost env H) (n : Nat) :
    hostinfo (authorityOf (brk H) n) = { hostRaw := H, port := if n ≠ 1965 then some (natToStr n) else none } := by
  have hat : '@' ∉ authorityOf (brk H) n := fun h => (brAuth_chars hH n _ h).2.1 rfl
  have hc : ']' ∉ H := fun h => (hH.chars _ h).2.2.1 rfl
  unfold hostinfo
  rw [rsplitOnce_none hat]
  simp only
  rw [brAuth_form, splitOnce_head]
  simp only
  rw [splitOnce_hit hc]
  simp only
  unfold portPart
  by_cases hn : n ≠ 1965
  · simp only [hn, ↓reduceIte, ne_eq, not_false_eq_true, splitOnce_head]
    have := natToStr_ne_nil n
    simp [this]
  · simp only [hn, ↓reduceIte]
    simp [splitOnce, findIdx]

theorem userinfo_brAuth {env : Env} {H : Str} (hH : BrHost env H) (n : Nat) :
    userinfo (authorityOf (brk H) n) = (none, none) := by
  have hat : '@' ∉ authorityOf (brk H) n := fun h => (brAuth_chars hH n _ h).2.1 rfl
  unfold userinfo
  rw [rsplitOnce_none hat]

theorem hostname_brAuth {env : Env} {H : Str} (hH : BrHost env H) (n : Nat) :
    hostname env (authorityOf (brk H) n) = some H := by
  unfold hostname
  rw [hostinfo_brAuth hH n]
  have hne : H.isEmpty = false := by cases H with | nil => exact absurd rfl hH.ne | cons _ _ => rfl
  simp only [hne, Bool.false_eq_true, ↓reduceIte]
  have := hH.fixed
  unfold normHost at this
  split <;> simp_all

theorem portOf_brAuth {env : Env} {H : Str} (hH : BrHost env H) (n : Nat) (hn : n ≤ 65535) :
    portOf (authorityOf (brk H) n) = .ok (if n ≠ 1965 then some n else none) := by
  unfold portOf
  rw [hostinfo_brAuth hH n]
  by_cases h : n ≠ 1965
  · simp only [h, ↓reduceIte, ne_eq, not_false_eq_true]
    have hd : (natToStr n).all (fun c => decide ('0' ≤ c ∧ c ≤ '9')) = true := by
      apply List.all_eq_true.mpr; intro c hc; simpa using (natToStr_digits n c hc).1
    simp only [hd, ↓reduceIte, parseNat_natToStr, hn]
    rfl
  · simp only [h, ↓reduceIte]; rfl

end Url

namespace Url

theorem preprocess_assemble' {nl p q : Str} (hs : (nl ++ p ++ q).all (fun c => !isUnsafe c) = true) :
    preprocess (assemble nl p q) = assemble nl p q := by
  unfold preprocess assemble
  simp only [List.all_append, Bool.and_eq_true] at hs
  obtain ⟨⟨h1, h2⟩, h3⟩ := hs
  have hd : ((gemPrefix ++ nl ++ p ++ if q.isEmpty = true then [] else '?' :: q)).dropWhile isC0OrSpace
      = (gemPrefix ++ nl ++ p ++ if q.isEmpty = true then [] else '?' :: q) := by
    simp [gemPrefix, List.dropWhile, isC0OrSpace]
  rw [hd]
  rw [List.filter_eq_self]
  intro c hc
  simp only [List.mem_append] at hc
  rcases hc with ((hc | hc) | hc) | hc
  · simp [gemPrefix] at hc; rcases hc with rfl|rfl|rfl|rfl|rfl|rfl|rfl|rfl|rfl <;> decide
  · exact List.all_eq_true.mp h1 c hc
  · exact List.all_eq_true.mp h2 c hc
  · split at hc
    · simp at hc
    · simp at hc
      rcases hc with rfl | hc
      · decide
      · exact List.all_eq_true.mp h3 c hc

/-- `urlsplit_assemble` for any authority that passes `checkNetloc` -/
theorem urlsplit_assemble_gen (env : Env) {nl p q : Str}
    (hsafe : (nl ++ p ++ q).all (fun c => !isUnsafe c) = true)
    (hnd : nl.all (fun c => !isDelim c) = true)
    (hps : p = [] ∨ p.head? = some '/')
    (hpn : p.all (fun c => c ≠ '?' ∧ c ≠ '#') = true)
    (hqn : q.all (fun c => c ≠ '#') = true)
    (hck : checkNetloc env nl = none) :
    urlsplit env (assemble nl p q) = .ok ⟨gemini, nl, p, q, []⟩ := by
  unfold urlsplit
  rw [preprocess_assemble' hsafe, splitScheme_assemble]
  simp only
  have hq' : (if q.isEmpty then ([] : Str) else '?' :: q) = [] ∨ (if q.isEmpty then ([] : Str) else '?' :: q).head? = some '?' := by
    by_cases hqe : q.isEmpty = true
    · left; simp [hqe]
    · right; simp [hqe]
  rw [splitNetloc_clean hnd hps hq']
  simp only
  rw [splitTail_clean hpn hqn]
  simp only
  rw [hck]

/-- bracketed counterpart of `parse_canonical`: `gemini://[H][:port]path[?query]` is accepted and parses
    to exactly (H, port, path, query) with itself as its normal form -/
theorem parse_canonical_br (env : Env) {H p q : Str} (hH : BrHost env H) (n : Nat) (hn : n ≤ 65535)
    (ht : PlainTail p q) :
    parseUrl env (assemble (authorityOf (brk H) n) p q) =
      .ok ⟨H, n, p, q, assemble (authorityOf (brk H) n) p q⟩ := by
  have hnl : authorityOf (brk H) n ≠ [] := by rw [brAuth_form]; simp
  have hsafe : (authorityOf (brk H) n ++ p ++ q).all (fun c => !isUnsafe c) = true := by
    apply List.all_eq_true.mpr; intro c hc
    simp only [List.mem_append] at hc
    rcases hc with (hc | hc) | hc
    · simp [(brAuth_chars hH n c hc).2.2.2]
    · simp [(ht.pathNo c hc).2.2]
    · simp [(ht.queryNo c hc).2]
  have hnd : (authorityOf (brk H) n).all (fun c => !isDelim c) = true := by
    apply List.all_eq_true.mpr; intro c hc; simp [(brAuth_chars hH n c hc).1]
  have hpn : p.all (fun c => c ≠ '?' ∧ c ≠ '#') = true := by
    apply List.all_eq_true.mpr; intro c hc; have := ht.pathNo c hc; simp [this.1, this.2.1]
  have hqn : q.all (fun c => c ≠ '#') = true := by
    apply List.all_eq_true.mpr; intro c hc; have := ht.queryNo c hc; simp [this.1]
  unfold parseUrl
  have hne : (assemble (authorityOf (brk H) n) p q).isEmpty = false := by simp [assemble, gemPrefix]
  simp only [hne, Bool.false_eq_true, ↓reduceIte]
  rw [urlsplit_assemble_gen env hsafe hnd (Or.inr ht.slash) hpn hqn (checkNetloc_brAuth hH n)]
  simp only
  unfold parseSplit
  simp only [gemini, List.isEmpty_cons, Bool.false_eq_true, ↓reduceIte, ne_eq, not_true_eq_false]
  rw [hostname_brAuth hH n]
  simp only
  rw [userinfo_brAuth hH n]
  simp only [Option.getD_none, List.length_nil, gt_iff_lt, Nat.lt_irrefl, or_self, ↓reduceIte,
    List.isEmpty_nil, Bool.not_true, Bool.false_eq_true]
  rw [portOf_brAuth hH n hn]
  simp only
  have hpne : p.isEmpty = false := by
    cases p with
    | nil => exact absurd ht.slash (by simp)
    | cons _ _ => rfl
  have hport : (if n ≠ 1965 then some n else none : Option Nat).getD 1965 = n := by
    by_cases h : n = 1965 <;> simp [h]
  simp only [hport, hpne, Bool.false_eq_true, ↓reduceIte]
  have hrb : rebracket (authorityOf (brk H) n) H = brk H := by
    have hat : '@' ∉ authorityOf (brk H) n := fun h => (brAuth_chars hH n _ h).2.1 rfl
    have hhp : hostPart (authorityOf (brk H) n) = authorityOf (brk H) n := by
      unfold hostPart; rw [rsplitOnce_none hat]
    unfold rebracket
    rw [hhp, if_pos (contains_true (by rw [brAuth_form]; simp))]
    rfl
  rw [hrb]
  have hauth : (if n ≠ 1965 then brk H ++ [':'] ++ natToStr n else brk H) = authorityOf (brk H) n := rfl
  rw [hauth]
  have := unsplit_assemble (q := q) hnl ht.slash
  unfold gemini at this
  rw [this]

end Url
