import ssl, tempfile, warnings
warnings.simplefilter("ignore")
import nauyaca.protocol
from OpenSSL import SSL, crypto
from nauyaca.security.certificates import generate_self_signed_cert
from nauyaca.security.pyopenssl_tls import create_pyopenssl_server_context
d=tempfile.mkdtemp(); c,k=generate_self_signed_cert("localhost"); open(d+"/c.pem","wb").write(c); open(d+"/k.pem","wb").write(k)
V=ssl.TLSVersion
def client(vmin,vmax):
    cx=ssl.SSLContext(ssl.PROTOCOL_TLS_CLIENT); cx.check_hostname=False; cx.verify_mode=ssl.CERT_NONE; cx.set_ciphers("ALL:@SECLEVEL=0"); cx.minimum_version=vmin; cx.maximum_version=vmax
    i,o=ssl.MemoryBIO(),ssl.MemoryBIO(); return cx.wrap_bio(i,o,server_hostname="localhost"),i,o
def hs_pyopenssl(ctx, vmin, vmax):
    conn=SSL.Connection(ctx,None); conn.set_accept_state()
    C,ci,co=client(vmin,vmax)
    for _ in range(12):
        try: C.do_handshake(); 
        except ssl.SSLWantReadError: pass
        except ssl.SSLError as e: return "client-err "+str(e)[:40]
        data=co.read()
        if data: conn.bio_write(data)
        try: conn.do_handshake()
        except SSL.WantReadError: pass
        except SSL.Error as e: return "server-err "+str(e)[:60]
        try:
            out=conn.bio_read(65536); ci.write(out)
        except SSL.WantReadError: pass
        if C.version():
            try: C.do_handshake(); return C.version()
            except ssl.SSLWantReadError: pass
            except ssl.SSLError as e: return "client-err "+str(e)[:40]
    return C.version() or "stuck"
real=create_pyopenssl_server_context(d+"/c.pem",d+"/k.pem",True)
ctrl=SSL.Context(SSL.TLS_SERVER_METHOD); ctrl.use_certificate_file(d+"/c.pem"); ctrl.use_privatekey_file(d+"/k.pem")
try:
    ctrl.set_min_proto_version(SSL.TLS1_VERSION); ctrl.set_cipher_list(b"ALL:@SECLEVEL=0")
except Exception as e: print("control ctx setup:",e)
for name,(a,b) in {"TLS1.0":(V.TLSv1,V.TLSv1),"TLS1.1":(V.TLSv1_1,V.TLSv1_1),"TLS1.2":(V.TLSv1_2,V.TLSv1_2),"TLS1.3":(V.TLSv1_3,V.TLSv1_3)}.items():
    print(name,"| nauyaca pyopenssl ctx:",hs_pyopenssl(real,a,b),"| control (min TLS1.0, seclevel 0):",hs_pyopenssl(ctrl,a,b))
print(SSL.SSLeay_version(SSL.SSLEAY_VERSION))
