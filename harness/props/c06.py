"""C06  Responses arrive complete and unaltered, for any size, on both TLS backends

Correspondence:
* `pump`  the REAL TLSServerProtocol + TLSTransportWrapper + GeminiServerProtocol on a fake TCP
          transport, driven through memory BIOs by an ssl.SSLObject client that decrypts record by
          record with a fast / slow (1 byte per read) / bursty reading pattern.  Handler-produced
          bodies (sync and async handlers, str and bytes) and static files (StaticFileHandler on a
          temp file).  Compared with the model (`c06` driver line = Srv.render + the wrapper's
          sendall/flush loops): header bytes, body length, SHA-256 of the body (model body hashed
          here for bodies up to 70 000 units), the plaintext size of every TLS record and the size
          of every TCP write.
* `live`  BOTH backends over loopback sockets (stdlib ssl via asyncio, PyOpenSSL pump), real
          `start_server` for static files and `create_server` with the real protocol factories for
          handler bodies, socket buffers shrunk; the same response is fetched from both backends.
* `sequence`  ONE process answers k requests one after the other (pump over memory BIOs, or the protocol on its transport):
          pages of equal length built afresh per request and dropped afterwards (rendering handler, k static files of equal
          size, one file rewritten in place, one scratch buffer), differing everywhere or in a single unit; each response is
          compared with the page THAT request asked for (nothing of an earlier response may show in a later one).
Direct oracle (from the property text): the client receives the header followed by exactly the
body bytes the handler returned (UTF-8 for str), then a clean end of stream, nothing else; the same
on both backends.
"""
from __future__ import annotations

import asyncio
import hashlib
import random
import time
import re
import shutil
import tempfile
from pathlib import Path

from .. import core
from ..core import Family, cps
from ..sim import tls_live, tls_paths, tls_peer

ID = "C06"
READY = True
LEAN_TARGETS = ["NauyacaVerif.Props.C06"]
THEOREMS = [f"NauyacaVerif.C06.{t}" for t in
            ("chunk_tie", "chunk_pos", "recvSize_tie", "sendall_tie", "writesOf_flatten", "connWrites_flatten", "respond_writes", "sendAll_complete", "flush_preserves", "drain_complete",
             "wrapper_delivers", "wrapper_write_complete", "pump_delivers", "stdlib_delivers", "stdlib_flow_prefix", "stdlib_flow_complete", "stdlib_flow_unpaused", "backends_identical", "sizes_faithful",
             "old_wrapper_truncates")]
LEAN_TARGETS = LEAN_TARGETS + ["NauyacaVerif.Props.Tr.PumpResponse"]
TRANSLATED = ["pumpResponse", "resumeWriting", "pauseWriting", "connectionLost", "sendResponse"]
THEOREMS = THEOREMS + [f"NauyacaVerif.Translated.{t}" for t in ("pump_eq", "resume_eq", "pause_eq", "resume_reachable", "send_eq", "send_reachable")]
EXTRACT = ["recvSizes", "wrapperUsesSendall", "defaultMaxFileSize"]
EXTRACT_EXPECT = {"wrapperUsesSendall": True, "recvSizes": [8192]}
LEVEL_TEXT = "partial"
LEVEL_NOTE = ("OpenSSL's record layer (sealing, reassembly, the 16 384-byte record limit) and socket-buffer back-pressure are not modelled: the "
              "theorems are about nauyaca's own loops - sendall over any partial-write behaviour `accept` with 0 < accept n <= n, the "
              "8192-byte flush loop, write/write/close ordering - under the explicit engine contract (AcceptOk, PeerOk); the stdlib backend "
              "is the identity transport (asyncio.sslproto is trusted); both are exercised over memory BIOs and real loopback sockets")
TECHNIQUE = ("Lean 4 proofs by induction over the write loops for every response, every accept behaviour and every engine (composition "
             "theorem wrapper_delivers / pump_delivers), tied to the source by extracted facts (sendall used, chunk size); differential "
             "testing of the real pump through memory BIOs against the model down to TLS-record and TCP-write sizes; loopback runs of both backends")
ASSUMPTIONS = [
    "engine contract (hypotheses of the theorems): one SSL_write accepts a non-empty prefix of what it is offered (AcceptOk); the peer decrypts the sealed records in order and sees the close-notify (PeerOk)",
    "asyncio transports deliver written bytes in order and drop writes after close(); the fake TCP transport of the harness has the same semantics",
    "stdlib backend = identity transport ASSUMES that everything written reaches the peer; asyncio's SSL transport flushes after close() only for ssl_shutdown_timeout, so the server must drain before it closes (c74aadd). The loopback family's `stall` reader (1, 3 or 12 pauses of 31 s each on the server's clock, all in the middle of the transfer, each shorter than nauyaca.server.server.SSL_SHUTDOWN_TIMEOUT) checks exactly this; a cut is reported as live-std-cut-after-30s-of-close. Not covered: a peer that stalls longer than SSL_SHUTDOWN_TIMEOUT on the last socket-buffer-full of a response (bounded by design)",
    "slow reader = 1 byte per read for the first 60 000 reads (and ciphertext fed 1 byte at a time for the first 40 000 bytes), larger reads afterwards, so that multi-megabyte cases stay within the time budget",
    "over memory BIOs the reader cannot exert back-pressure on the server (the fake transport buffers everything); back-pressure exists only in the loopback family (shrunk SO_SNDBUF / SO_RCVBUF), and is not modelled",
    "static files: compared with what StaticFileHandler.handle RETURNED (Path.read_text translates CR LF and CR to LF before the handler returns; that step precedes C06)",
]

def extract_extra():
    """Gen/Tls.lean (shared with C20) also records how _send_response cuts a body into writes."""
    from . import c20

    return c20.extract_extra()


SMALL = 70000          # up to this many units the model renders the body itself
MIB = 1 << 20
BOUNDARY = [0, 1, 2, 16382, 16383, 16384, 16385, 16386, 32767, 32768, 32769, 65534, 65535, 65536, 65537, 65538, 3 * 65536,
            8191, 8192, 8193, 262144, 262145]
FILLS_B = ["rand", "rand", "zeros", "crlf", "ff", "counter"]
FILLS_S = ["ascii", "mixed", "mixed", "crlftext", "edges"]
METAS = ["text/gemini", "text/plain; charset=utf-8", "application/octet-stream", "image/png", "text/gemini; lang=es", "x"]


# ------------------------------------------------------------------------------------------------
# bodies from compact descriptions (replayable, JSON-serialisable)
# ------------------------------------------------------------------------------------------------
def make_bytes(n: int, fill: str, seed: int) -> bytes:
    if n == 0:
        return b""
    if fill == "zeros":
        return bytes(n)
    if fill == "ff":
        return b"\xff" * n
    if fill == "crlf":
        return (b"line\r\n\rx\n" * (n // 10 + 1))[:n]
    if fill == "counter":
        return (bytes(range(256)) * (n // 256 + 1))[:n]
    rng = random.Random(seed)
    if n <= 4 * MIB:
        return rng.randbytes(n)
    block = rng.randbytes(65521)
    return (block * (n // 65521 + 1))[:n]


_EDGES = [0x7F, 0x80, 0x7FF, 0x800, 0xD7FF, 0xE000, 0xFFFD, 0xFFFF, 0x10000, 0x10FFFF, 0x0A, 0x0D, 0x20, 0x00]


def make_str(n: int, fill: str, seed: int) -> str:
    if n == 0:
        return ""
    rng = random.Random(seed)
    k = min(n, 4099)
    if fill == "ascii":
        block = "".join(chr(rng.randint(32, 126)) for _ in range(k))
    elif fill == "crlftext":
        block = "".join(rng.choice(["# título\r\n", "=> gemini://a/ b\n", "línea\r", "x", "\n", "€uro\r\n"]) for _ in range(k))[:k]
    elif fill == "edges":
        block = "".join(chr(rng.choice(_EDGES)) for _ in range(k))
    else:
        block = "".join(chr(rng.choice([rng.randint(32, 126), rng.randint(0xA0, 0x7FF), rng.randint(0x800, 0xD7FF), rng.randint(0x10000, 0x10FFFF), 10])) for _ in range(k))
    return (block * (n // k + 1))[:n]


def make_body(case):
    if case["btype"] == "bytes":
        b = make_bytes(case["n"], case["fill"], case["seed"])
        # any bytes-like object a handler may return (bytearray, memoryview / BytesIO.getbuffer()): the same bytes on the wire
        return b if case["seed"] % 3 == 0 else bytearray(b) if case["seed"] % 3 == 1 else memoryview(b)
    return make_str(case["n"], case["fill"], case["seed"])


def wire_of(resp) -> tuple[bytes, bytes]:
    """The property statement, literally: header, then the body bytes (UTF-8 for text) of a 2x response."""
    body = resp.body
    if body is None or not (20 <= resp.status <= 29):
        b = b""
    elif isinstance(body, (bytes, bytearray, memoryview)):
        b = bytes(body)
    else:
        b = str(body).encode("utf-8")
    return f"{resp.status} {resp.meta}\r\n".encode("utf-8"), b


def resp_token(status: int, meta: str, body, big: bool) -> str:
    if body is None or big:
        b = "n"
    elif isinstance(body, str):
        b = "s:" + cps(body)
    else:
        b = "b:" + (bytes(body).hex() or "-")
    return f"{status}/{cps(meta)}/{b}"


def rle_expand(s: str) -> list[int]:
    out: list[int] = []
    if s in ("-", ""):
        return out
    for t in s.split(","):
        if "x" in t:
            a, b = t.split("x")
            out += [int(a)] * int(b)
        else:
            out.append(int(t))
    return out


def parse_model(out: str) -> dict:
    m = re.fullmatch(r"ok hdr=(\S+) body=(\S+) blen=(\d+) rec=(\S+) tcp=(\S+) sum=.*", out)
    if not m:
        return {"model": out}
    body = m.group(2)
    recs: list[int] = []
    for part in m.group(4).split(";"):
        recs += rle_expand(part)
    return {"header": "" if m.group(1) == "-" else m.group(1), "blen": int(m.group(3)),
            "bsha": None if body == "?" else hashlib.sha256(b"" if body == "-" else bytes.fromhex(body)).hexdigest(),
            "records": [r for r in recs if r > 0], "tcp": rle_expand(m.group(5))}


def judge(tag: str, got: dict, want_header: bytes, want_blen: int, want_bsha: str):
    """The direct oracle on one decrypted stream."""
    if got.get("error"):
        return (f"{tag}-no-response", f"no response could be read: {got}")
    if got["header"] != want_header.hex():
        return (f"{tag}-header-mismatch", f"header {bytes.fromhex(got['header'])[:80]!r} instead of {want_header[:80]!r}")
    if got["blen"] < want_blen:
        return (f"{tag}-body-truncated", f"client received {got['blen']} of {want_blen} body bytes (end of stream: {got['eof']})")
    if got["blen"] > want_blen:
        return (f"{tag}-body-extra", f"client received {got['blen']} body bytes, the handler returned {want_blen}")
    if got["bsha"] != want_bsha:
        return (f"{tag}-body-altered", f"{want_blen} body bytes received but their SHA-256 differs from the handler's body")
    if got["eof"] != "clean":
        return (f"{tag}-no-clean-eof", f"complete body but the stream did not end with a TLS close-notify (end: {got['eof']}): indistinguishable from truncation")
    if got.get("after_close") or got.get("dropped"):
        return (f"{tag}-bytes-after-close", f"{got.get('after_close', 0)} bytes after the close-notify, {got.get('dropped', 0)} bytes written after transport.close()")
    if got.get("closed") is False:
        return (f"{tag}-tcp-left-open", "the TCP connection was not closed after the response")
    return None


def default_max_file_size() -> int:
    from nauyaca.protocol import constants as K

    return int(K.DEFAULT_MAX_FILE_SIZE)


def write_static(tmp: str, case) -> dict:
    """Write the file of a static case and say what was configured: the file's size in BYTES, the maximum file size the
    handler / server is given (`max_rel` = limit minus file size: 0 puts the file exactly ON the configured limit, 1 just
    below it, -1 just above; None leaves the default) and the hashes of the two byte strings that serving this file may
    put on the wire (its bytes, or its bytes with CR LF / CR read as LF - see ASSUMPTIONS)."""
    data = make_str(case["n"], case["fill"], case["seed"]).encode("utf-8")
    (Path(tmp) / case["meta"]).write_bytes(data)
    rel = case.get("max_rel")
    limit = len(data) + rel if rel is not None and len(data) + rel >= 1 else None
    nl = data.replace(b"\r\n", b"\n").replace(b"\r", b"\n")
    return {"size": len(data), "limit": limit, "effective": limit if limit is not None else default_max_file_size(),
            "raw": [len(data), hashlib.sha256(data).hexdigest()], "nl": [len(nl), hashlib.sha256(nl).hexdigest()]}


def judge_static(tag: str, f: dict | None, got: dict):
    """Property text: static files of every size up to the configured maximum arrive as 2x header + exactly the file's
    bytes.  `f` = write_static(...); the files of this module are regular, readable and valid UTF-8, so a file whose size
    is within the limit has no other legal answer.  (A file above the limit: no rule here.)"""
    if not f or f["size"] > f["effective"] or got.get("error"):
        return None
    head = bytes.fromhex(got["header"])
    cfg = f"configured max_file_size {f['limit']}" if f["limit"] is not None else f"default max_file_size {f['effective']}"
    if not head.startswith(b"20 "):
        return (f"{tag}-static-within-limit-not-served",
                f"a regular UTF-8 file of {f['size']} bytes ({cfg}: the file is {'exactly at' if f['size'] == f['effective'] else 'below'} the limit) "
                f"was answered with {head[:70]!r} and {got['blen']} body bytes instead of '20 <mime>' and the file's bytes")
    if [got["blen"], got["bsha"]] not in (f["raw"], f["nl"]):
        return (f"{tag}-static-body-not-the-file",
                f"a file of {f['size']} bytes ({cfg}) was served with {got['blen']} body bytes that are not the file's bytes")
    return None


def stall_seconds() -> float:
    """One stall of the `stall` reader, on the server's clock: longer than asyncio's default
    ssl_shutdown_timeout (30 s), shorter than the time nauyaca grants for the TLS shutdown
    (nauyaca.server.server.SSL_SHUTDOWN_TIMEOUT, read from the current tree; absent before c74aadd)."""
    try:
        from nauyaca.server import server as S

        t = float(getattr(S, "SSL_SHUTDOWN_TIMEOUT"))
        return min(31.0, 0.9 * t)
    except Exception:  # noqa: BLE001
        return 31.0


def gen_dims(rng: random.Random, n_units: int, quick: bool):
    btype = rng.choice(["bytes", "str"])
    return {"btype": btype, "n": n_units, "fill": rng.choice(FILLS_B if btype == "bytes" else FILLS_S), "seed": rng.randrange(1 << 30),
            "status": rng.choice([20, 20, 20, 20, 21, 29]), "meta": rng.choice(METAS)}


def sizes(rng: random.Random, n: int, big: list[int]):
    """random sizes: exactly at / near the record and buffer boundaries, tiny, and log-uniform up to 2 MiB"""
    out = list(big)
    while len(out) < n:
        r = rng.random()
        if r < 0.12:
            out.append(rng.choice([16384, 65536]) + rng.randint(-2, 2))
        elif r < 0.3:
            out.append(max(0, rng.choice([8192, 16384, 32768, 65536, 131072, 262144, 3 * 65536]) + rng.randint(-40, 40)))
        elif r < 0.45:
            out.append(rng.randint(0, 300))
        else:
            out.append(int(2 ** rng.uniform(8, 21)))
    return out[:max(n, len(big))]


# ------------------------------------------------------------------------------------------------
# family 1: the real PyOpenSSL pump over memory BIOs
# ------------------------------------------------------------------------------------------------
_PYO_CTX: dict = {}


def pyo_ctx(pid: int):
    if pid not in _PYO_CTX:
        _PYO_CTX[pid] = tls_paths.build(pid)[2]
    return _PYO_CTX[pid]


class Pump(Family):
    name = "pump"
    quick_n = 2000
    thorough_n = 40000

    def __init__(self):
        self._memo: dict = {}

    # deterministic enumerations, divided among the shards with self.share (never cut with [:n])
    DENSE = [(sz, kind, reader) for sz in BOUNDARY for kind in ("bytes", "str", "static") for reader in ("fast", "slow", "bursty")]
    # static files exactly ON the configured maximum file size (rel 0) and one byte below it (rel 1), for limits around the
    # record / piece boundaries and for tiny ones; -1 = one byte above the limit (no rule: whatever is answered must arrive intact)
    LIMIT = [(sz, rel, reader) for k, sz in enumerate([1, 2, 3, 8192, 16384, 16385, 65535, 65536, 65537, 131072, 262145, MIB, MIB + 1])
             for rel, reader in ((0, ("fast", "slow", "bursty")[k % 3]), (1, ("bursty", "fast", "slow")[k % 3]), (0 if k % 2 else -1, ("slow", "bursty", "fast")[k % 3]))]
    BIG = [(10 * MIB, "bytes", "fast"), (100 * MIB - 1, "bytes", "bursty"), (10 * MIB + 1, "str", "slow"), (100 * MIB, "static", "fast"),
           (10 * MIB - 1, "static", "bursty"), (100 * MIB - 1, "str", "fast"), (24 * MIB + 7, "bytes", "slow"), (3 * MIB + 1, "str", "bursty"),
           (64 * MIB, "bytes", "fast"), (100 * MIB - 1, "static", "bursty"), (7 * MIB, "str", "fast"), (2 * MIB + 1, "static", "slow"),
           (10 * MIB, "str", "bursty"), (50 * MIB + 3, "bytes", "bursty"), (100 * MIB, "bytes", "fast"), (5 * MIB, "static", "fast")]

    def _case(self, rng: random.Random, sz: int, kind: str | None = None, reader: str | None = None, max_rel: int | None | str = "any"):
        d = gen_dims(rng, sz, True)
        kind = kind or rng.choice(["bytes", "str", "str", "static"])
        src = "static" if kind == "static" else rng.choice(["sync", "sync", "async"])
        if kind == "static":
            d["btype"], d["status"] = "str", 20
            d["fill"] = rng.choice(FILLS_S[:4])   # files must be valid UTF-8 text
            d["meta"] = rng.choice(["f.gmi", "f.txt", "f.bin"])   # file name; the handler derives the MIME type
            # the configured maximum file size relative to the file's size in bytes (None: the default limit)
            d["max_rel"] = rng.choice([None, None, 0, 0, 1, -1, 1000]) if max_rel == "any" else max_rel
        elif kind != d["btype"]:
            d["btype"] = kind
            d["fill"] = rng.choice(FILLS_B if kind == "bytes" else FILLS_S)
        if sz > 4 * MIB and d["btype"] == "str" and d["fill"] != "ascii":
            d["fill"] = "ascii" if sz > 40 * MIB else rng.choice(["ascii", "mixed"])
        tlsmax = rng.choice([4, 4, 3])
        d.update({"src": src, "reader": reader or rng.choice(["fast", "slow", "bursty"]), "tlsmax": tlsmax, "path": rng.choice([4, 5, 6, 13, 14]),
                  "cuts": rng.choice([0, 0, 1, 3]), "coalesce": tlsmax == 4 and rng.random() < 0.25})
        return d

    def gen(self, rng: random.Random, n: int):
        # per-shard n: quick 2000/8 = 250 (375 in the failing-input search), thorough 40000/16 = 2500
        thorough = n >= 1000
        count = 0
        if thorough:
            # samples up to max_file_size (thorough only, few): one per shard, incl. 10 MiB and 100 MiB - 1
            for sz, kind, reader in self.share(self.BIG):
                yield self._case(rng, sz, kind, reader)
                count += 1
        for sz, kind, reader in self.share(self.DENSE):
            yield self._case(rng, sz, kind, reader)
            count += 1
        for sz, rel, reader in self.share(self.LIMIT):
            yield self._case(rng, sz, "static", reader, max_rel=rel)
            count += 1
        for sz in sizes(rng, max(0, n - count), []):
            yield self._case(rng, sz)

    # -- implementation ----------------------------------------------------------------------
    def impl(self, case):
        from nauyaca.protocol.response import GeminiResponse
        from nauyaca.server.protocol import GeminiServerProtocol

        returned: list = []
        tmp = finfo = None
        if case["src"] == "static":
            from nauyaca.server.handler import StaticFileHandler

            tmp = tempfile.mkdtemp(prefix="nv-")
            finfo = write_static(tmp, case)
            sh = StaticFileHandler(Path(tmp)) if finfo["limit"] is None else StaticFileHandler(Path(tmp), max_file_size=finfo["limit"])
            url = f"gemini://localhost/{case['meta']}"

            def handler(req):
                r = sh.handle(req)
                returned.append(r)
                return r
        else:
            body = make_body(case)
            url = "gemini://localhost/x"

            def mk():
                r = GeminiResponse(case["status"], case["meta"], body if case["n"] or case["seed"] % 2 else None)
                returned.append(r)
                return r

            if case["src"] == "async":
                async def handler(req):
                    await asyncio.sleep(0)
                    return mk()
            else:
                def handler(req):
                    return mk()
        try:
            rng = random.Random(case["seed"] ^ 0x5EED)
            got = asyncio.run(tls_peer.pump_exchange(pyo_ctx(case["path"]), lambda: GeminiServerProtocol(handler, None), url.encode() + b"\r\n",
                                                     reader=case["reader"], rng=rng, tlsmax=case["tlsmax"], cuts=case["cuts"],
                                                     coalesce=case["coalesce"], settle=8))
        finally:
            if tmp:
                shutil.rmtree(tmp, ignore_errors=True)
        if got.get("error"):
            raise RuntimeError(f"harness: TLS handshake with the pump failed: {got}")
        if len(returned) != 1:
            return {"got": got, "handler_calls": len(returned), "want": None, "file": finfo}
        resp = returned[0]
        wh, wb = wire_of(resp)
        want = {"header": wh.hex(), "blen": len(wb), "bsha": hashlib.sha256(wb).hexdigest()}
        units = len(resp.body) if resp.body is not None else 0
        big = units > SMALL
        self._memo[core.case_digest(case)] = {"ovh": got["ovh"], "cn": got["cn"], "tok": resp_token(resp.status, resp.meta, resp.body, big),
                                              "big": big, "blen": len(wb)}
        for k in ("records", "tcp"):
            got[k + "_n"] = len(got[k])
        return {"got": got, "handler_calls": 1, "want": want, "file": finfo}

    # -- model -------------------------------------------------------------------------------
    def model(self, case):
        m = self._memo.get(core.case_digest(case))
        if m is None:
            self.impl(case)
            m = self._memo.get(core.case_digest(case))
            if m is None:
                return None
        ovh = m["ovh"][0] if m["ovh"] else 0
        if m["big"]:
            return f"c06 min16384 {ovh} {m['cn']} n {m['tok']} {m['blen']}"
        return f"c06 min16384 {ovh} {m['cn']} r {m['tok']}"

    def expect(self, case, out):
        return parse_model(out)

    def same(self, expected, obs):
        if "model" in expected or obs.get("want") is None:
            return False
        g = obs["got"]
        return (expected["header"] == g["header"] and expected["blen"] == g["blen"] and (expected["bsha"] is None or expected["bsha"] == g["bsha"])
                and expected["records"] == g["records"] and expected["tcp"] == g["tcp"] and len(g["ovh"]) <= 1
                # pump_delivers: close-notify flushed, then exactly one transport.close(), nothing after it
                and g["closed"] is True and g["close_calls"] == 1 and g["dropped"] == 0 and g["eof"] == "clean")

    # -- direct oracle -----------------------------------------------------------------------
    def oracle(self, case, obs):
        if obs["handler_calls"] != 1:
            return ("pump-handler-calls", f"the handler ran {obs['handler_calls']} times for one request")
        w = obs["want"]
        return judge("pump", obs["got"], bytes.fromhex(w["header"]), w["blen"], w["bsha"]) or judge_static("pump", obs.get("file"), obs["got"])

    def key(self, case, obs):
        # at most 40 classes are printed into the evidence, the rare ones (largest sizes) must stay visible
        n = obs["want"]["blen"] if obs.get("want") else -1
        if n >= 100 * MIB - 1:
            return "XL >=100MiB-1"
        cls = "R record/buffer boundary 16K+-2, 64K+-2" if (16382 <= n <= 16386 or 65534 <= n <= 65538) else "S <64K" if n < 65534 else \
            "M <=2MiB" if n <= 2 * MIB else "L >2MiB"
        lim = " | file ON the configured max_file_size" if case["src"] == "static" and case.get("max_rel") == 0 else ""
        return f"{cls} | {'static' if case['src'] == 'static' else case['btype']} | {case['reader']}{lim}"

    def shrink(self, case, bad):
        return case


def trim_obs(obs):
    """keep replays/evidence small: long size lists are summarised"""
    return obs


# ------------------------------------------------------------------------------------------------
# family 2: both backends over loopback sockets
# ------------------------------------------------------------------------------------------------
class Live(Family):
    realtime = True     # runs on the wall clock (sockets, threads): a failure is re-run once before it counts (core.run_family)
    name = "live"
    parallel = False
    quick_n = 4
    thorough_n = 70

    def gen(self, rng: random.Random, n: int):
        thorough = n > 10
        szs = [16385, 65537, rng.randint(70000, 300000), rng.randint(300000, 2 * MIB)] if not thorough else \
            [16385, 0, 1, 16384, 65536, 65537, 3 * 65536, 262145, 10 * MIB, 100 * MIB - 1, rng.randint(2 * MIB, 30 * MIB)]
        while len(szs) < n:
            szs.append(rng.choice(BOUNDARY) if rng.random() < 0.4 else int(2 ** rng.uniform(10, 21)))
        for i, sz in enumerate(szs[:n]):
            d = gen_dims(rng, sz, not thorough)
            if sz > 4 * MIB and d["btype"] == "str":
                d["fill"] = "ascii" if sz > 50 * MIB else "mixed"
            mode = "static" if i % 3 == 1 else "factory"
            if mode == "static":
                d["btype"], d["status"], d["fill"], d["meta"] = "str", 20, rng.choice(FILLS_S[:4]) if sz <= 4 * MIB else "ascii", rng.choice(["f.gmi", "f.txt"])
                # start_server(max_file_size=...) relative to the file's size in bytes: the file lies exactly ON the configured limit (0),
                # one byte below it (1), or the default limit applies (None).  Quick: the one static case sits on the limit
                d["max_rel"] = rng.choice([0, 0, 1, None]) if thorough else 0
            d.update({"mode": mode, "supplied": rng.random() < 0.5, "reader": rng.choice(["fast", "slow", "bursty"]) if sz <= 4 * MIB else rng.choice(["fast", "bursty"]),
                      "sndbuf": rng.choice([None, 4096, 16384]), "rcvbuf": rng.choice([None, 2048, 8192])})
            # bytes the client sends after its request line (a sloppy or hostile client): they never change what it receives (C07), also
            # not by making the server close a socket with unread input (the kernel then resets the connection and drops what it
            # had not sent yet)
            d["trail"] = rng.choice([0, 0, 0, 1, 70000, 1 << 20]) if thorough else 0
            if mode == "factory" and (rng.random() < 0.15 if thorough else i == 0):
                d["slow_handler"] = 31          # the handler completes 31 s (server clock) after the request: its response still arrives whole
            if d["trail"] == 0 and sz >= 200000 and (rng.random() < 0.3 if thorough else i == 3):
                # a stray line sent after the request, in a TLS record of its own, WHILE the body is being sent: the body is large and
                # the socket buffers small, and the client reads nothing before it has sent the line, so the server cannot have finished
                # (junk that arrives after the server closed is the known finding reset-by-trailing-junk, not this)
                d["late_line"] = True
                d["n"] = max(d["n"], 1200000 + rng.randint(0, 70000))
                d["sndbuf"], d["rcvbuf"] = 4096, 2048
                d["reader"] = "slow" if d["n"] <= 4 * MIB else d["reader"]
            if thorough and rng.random() < 0.12:
                # a client that stops reading for 31 s (on the server's clock) in the middle of the download
                d.update({"reader": "stall", "sndbuf": rng.choice([4096, 16384]), "rcvbuf": rng.choice([2048, 8192]), "stalls": rng.choice([1, 3, 12])})
                if d["stalls"] == 12 and d["n"] < MIB:
                    d["n"] = MIB + rng.randint(0, 5000)   # twelve stalls (372 s in total) all fall inside the transfer
            yield d
        # fixed witness: a multi-megabyte body to a fast reader that sent a megabyte of junk after its request line
        d = gen_dims(rng, 3 * MIB + 17, not thorough)
        d.update({"btype": "bytes", "status": 20, "mode": "factory", "supplied": False, "reader": "fast", "sndbuf": None, "rcvbuf": None, "trail": 1 << 20})
        yield d

    def impl(self, case):
        from nauyaca.protocol.response import GeminiResponse
        from nauyaca.server import handler as H

        returned: list = []
        tmp = finfo = None
        orig = H.StaticFileHandler.handle
        if case["mode"] == "static":
            tmp = tempfile.mkdtemp(prefix="nv-")
            finfo = write_static(tmp, case)
            url = f"gemini://localhost/{case['meta']}"

            def spy(self_, request):
                r = orig(self_, request)
                returned.append(r)
                return r

            H.StaticFileHandler.handle = spy
            handler = None
        else:
            body = make_body(case)
            url = "gemini://localhost/x"

            def handler(req):
                r = GeminiResponse(case["status"], case["meta"], body)
                returned.append(r)
                if case.get("slow_handler"):
                    # the handler answers later (a coroutine): longer than the request timeout on the server's clock
                    async def later():
                        await asyncio.sleep(case["slow_handler"])
                        return r

                    return later()
                return r
        obs: dict = {"file": finfo}
        try:
            for backend in ("std", "pyo"):
                sink = tls_peer._Sink()
                kw = {"mode": "start_server", "docroot": tmp, "supplied": case["supplied"], "max_file_size": finfo["limit"]} if case["mode"] == "static" else \
                    {"mode": "factory", "handler": handler}
                with tls_live.LiveServer(backend, sndbuf=case["sndbuf"], **kw) as srv:
                    def after_request(sock, srv=srv):
                        if case.get("late_line"):
                            time.sleep(0.25)
                            try:
                                sock.sendall(b"stray line\r\n")          # a later TLS record, while the response is on its way
                            except OSError:
                                pass       # a connection the server has torn down by now: what the client can still read is judged below
                        if case.get("slow_handler"):
                            time.sleep(0.25)
                            srv.advance(case["slow_handler"] + 1)

                    r = tls_live.tls_fetch(srv.port, url.encode() + b"\r\n" + b"T" * case.get("trail", 0), reader=case["reader"], rcvbuf=case["rcvbuf"], after_request=after_request,
                                           rng=random.Random(case["seed"]), sink=sink.add, timeout=25,     # idle time between two reads: nothing legitimate is that quiet
                                          
                                           stall=lambda: srv.advance(stall_seconds()), stalls=case.get("stalls", 1))
                    used = srv.used_backend
                g = sink.result()
                g.update({"eof": r["eof"], "version": r["version"], "used": used, "elapsed": r.get("elapsed", 0), "reader": case["reader"], "trail": case.get("trail", 0),
                          "junk": bool(backend == "pyo" and (case.get("trail", 0) > 0 or case.get("late_line")))})
                obs[backend] = g
        finally:
            H.StaticFileHandler.handle = orig
            if tmp:
                shutil.rmtree(tmp, ignore_errors=True)
        if len(returned) != 2:
            obs["want"] = None
            obs["handler_calls"] = len(returned)
            return obs
        wh, wb = wire_of(returned[0])
        wh2, wb2 = wire_of(returned[1])
        obs["handler_calls"] = 2
        obs["want"] = {"header": wh.hex(), "blen": len(wb), "bsha": hashlib.sha256(wb).hexdigest(), "same_for_both": (wh, wb) == (wh2, wb2)}
        resp = returned[0]
        units = len(resp.body) if resp.body is not None else 0
        self._tok = (core.case_digest(case), resp_token(resp.status, resp.meta, resp.body, units > SMALL), units > SMALL, len(wb))
        self._toks = {**getattr(self, "_toks", {}), self._tok[0]: self._tok}
        return obs

    def model(self, case):
        # the model line of every case that ran is remembered (running a case again only to rebuild it would double the wall time of the
        # family and let a hiccup of that second run - a send into a connection the server has reset - escape as a crash)
        t = getattr(self, "_toks", {}).get(core.case_digest(case))
        if t is None:
            self.impl(case)
            t = getattr(self, "_toks", {}).get(core.case_digest(case))
            if t is None:
                return None
        # identity transport (stdlib_delivers); by backends_identical the PyOpenSSL stream must be the same
        return f"c06 all 0 0 n {t[1]} {t[3]}" if t[2] else f"c06 all 0 0 r {t[1]}"

    def expect(self, case, out):
        return parse_model(out)

    def same(self, expected, obs):
        if "model" in expected or obs.get("want") is None:
            return False
        def cut(g):
            # the download was torn down 30 s after close(): the model's identity transport rests on the assumption that
            # asyncio flushes what was written before close(); where that assumption fails the ORACLE reports the case
            # (signature live-*-cut-*), it is not counted a second time as a model disagreement
            return g["blen"] <= expected["blen"] and g["eof"] != "clean" and (g.get("reader") == "stall" or g.get("elapsed", 0) >= 29 or (g.get("used") == "std" and g.get("trail", 0) >= 65536))

        return all(cut(obs[b]) or (expected["header"] == obs[b]["header"] and expected["blen"] == obs[b]["blen"] and
                                   (expected["bsha"] is None or expected["bsha"] == obs[b]["bsha"])) for b in ("std", "pyo"))

    def oracle(self, case, obs):
        if obs.get("want") is None:
            return ("live-handler-calls", f"the handler ran {obs['handler_calls']} times for two requests (one per backend)")
        w = obs["want"]
        for b in ("std", "pyo"):
            v = judge(f"live-{b}", obs[b], bytes.fromhex(w["header"]), w["blen"], w["bsha"])
            if v:
                g = obs[b]
                # asyncio's own TLS transport aborts when application data follows its close_notify (the PyOpenSSL wrapper half-closes and
                # keeps reading: repaired, see known_findings "fixed:")
                junk_after_close = b == "std" and case.get("trail", 0) >= 65536
                if junk_after_close and g["eof"] != "clean" and v[0].endswith(("-body-truncated", "-no-clean-eof")):
                    # its own signature: the connection was RESET because junk sent after the request line was still arriving when the
                    # server closed (known finding reset-by-trailing-junk; any other truncation keeps its ordinary signature)
                    return (f"live-{b}-reset-by-trailing-junk",
                            f"{b} backend: the client sent {case.get('trail') or 'a stray line'} (bytes) after its request line and received {g['blen']} of {w['blen']} body bytes "
                            f"before the connection was reset (end of stream: {g['eof']}; reader: {case['reader']})")
                if v[0].endswith("-body-truncated") and g["eof"] != "clean" and (case["reader"] == "stall" or g.get("elapsed", 0) >= 29):
                    # a distinct, stable signature for the download that is still in progress 30 s after the
                    # server called transport.close(): asyncio's SSL transport gives up flushing (ssl_shutdown_timeout)
                    return (f"live-{b}-cut-{'after-30s-of-close' if g['used'] == 'std' else 'slow-download'}",
                            f"{b} backend: the client had received {g['blen']} of {w['blen']} body bytes when the connection was torn down "
                            f"(end of stream: {g['eof']}); the client was still reading, with {case.get('stalls', 1)} pause(s) of {stall_seconds()} s each in the middle of the transfer "
                            f"(reader: {case['reader']}, SO_SNDBUF {case['sndbuf']}, SO_RCVBUF {case['rcvbuf']}, {g.get('elapsed', 0)} s real time)")
                return v
            v = judge_static(f"live-{b}", obs.get("file"), obs[b])
            if v:
                return v
        if (obs["std"]["header"], obs["std"]["blen"], obs["std"]["bsha"]) != (obs["pyo"]["header"], obs["pyo"]["blen"], obs["pyo"]["bsha"]):
            return ("live-backends-differ", "the two TLS backends delivered different bytes for the same response")
        return None

    def key(self, case, obs):
        n = obs["want"]["blen"] if obs.get("want") else -1
        cls = "<=16K" if n <= 16384 else "<=64K" if n <= 65536 else "<=2M" if n <= 2 * MIB else "<=10M+1" if n <= 10 * MIB + 1 else "<100M-1" if n < 100 * MIB - 1 else ">=100M-1"
        lim = ", file ON the configured max_file_size" if case.get("max_rel") == 0 and obs.get("file") and obs["file"]["limit"] else ""
        return f"{cls} {case['reader']} {'shrunk' if case['sndbuf'] or case['rcvbuf'] else 'default'} socket buffers, backends {obs['std']['used']}+{obs['pyo']['used']}{lim}"


# ------------------------------------------------------------------------------------------------
# family 3: several connections to ONE server at the same time
# ------------------------------------------------------------------------------------------------
class Concurrent(Family):
    """Two or three overlapping downloads with different bodies and reader speeds against one server
    (each backend in turn).  At least one response is larger than every buffer on the way and its
    client holds still (or aborts) while the others are served, so that it is parked half-written under
    the transport's flow control when the other responses start.  Oracle per client: exactly its own
    header + body, then EOF."""
    realtime = True     # runs on the wall clock (sockets, threads): a failure is re-run once before it counts (core.run_family)

    name = "concurrent"
    parallel = False
    quick_n = 6
    thorough_n = 60

    SHAPES = [  # (readers in start order, sizes); deterministic part, divided with self.share
        (["hold", "fast"], [1200000, 31]),
        (["hold", "fast", "bursty"], [900000, 70000, 16385]),
        (["abort", "fast"], [1500000, 20000]),
        (["hold", "hold", "slow"], [700000, 400000, 5000]),
        (["fast", "hold", "fast"], [16385, 1000000, 65537]),
        (["stall", "fast"], [800000, 100]),
    ]

    # the handler renders every binary body into ONE scratch buffer it owns and returns that buffer (`buffer`: the bytearray
    # itself, all bodies equally long) or a view of its first n bytes (`view`): a response is what the buffer holds when the
    # handler returns; the buffer is overwritten by the next request while earlier responses are still parked half-written.
    # The later bodies are as large as the parked one, so that they reach the part of the buffer that is still unsent
    POOLED = [
        (["hold", "fast"], [1200000, 1200000], "buffer"),
        (["hold", "bursty", "fast"], [900000, 1000000, 300000], "view"),
        (["stall", "fast"], [800000, 800000], "view"),
    ]

    def gen(self, rng: random.Random, n: int):
        count = 0
        for readers, szs in self.share(self.SHAPES):
            yield self._case(rng, readers, szs)
            count += 1
        for readers, szs, pool in self.share(self.POOLED):
            yield self._case(rng, readers, szs, pool)     # in addition to the n cases
        while count < n:
            k = rng.choice([2, 2, 3])
            readers = [rng.choice(["hold", "hold", "abort", "fast", "slow", "bursty", "stall"]) for _ in range(k)]
            if not any(r in ("hold", "abort", "stall") for r in readers):
                readers[rng.randrange(k)] = "hold"
            if all(r == "hold" for r in readers):
                readers[-1] = "fast"
            szs = [rng.randint(400000, 3 * MIB) if r in ("hold", "abort", "stall") else rng.choice([rng.randint(0, 300), 16385, 65537, rng.randint(1000, 400000)])
                   for r in readers]
            pool = rng.choice([None, None, "view", "buffer"])
            if pool:
                big = max(szs)
                szs = [big if pool == "buffer" else rng.randint(big // 2, big) if r not in ("hold", "abort", "stall") else sz for r, sz in zip(readers, szs)]
            yield self._case(rng, readers, szs, pool)
            count += 1

    def _case(self, rng, readers, szs, pool=None):
        clients = []
        for r, sz in zip(readers, szs):
            d = gen_dims(rng, sz, True)
            if pool:
                d["btype"], d["fill"], d["status"] = "bytes", "rand", 20     # every body different from the others at (almost) every offset
            d.update({"reader": r, "rcvbuf": rng.choice([2048, 8192, None]) if r not in ("hold", "abort", "stall") else rng.choice([2048, 8192])})
            clients.append(d)
        # a pooled buffer goes with a synchronous handler: the body is what the buffer holds at the moment the handler returns to the
        # server (the result of a coroutine handler reaches the server one loop iteration after the coroutine finished)
        return {"clients": clients, "sndbuf": rng.choice([4096, 16384]), "async": not pool and rng.random() < 0.3, "pool": pool}

    def impl(self, case):
        from nauyaca.protocol.response import GeminiResponse

        bodies = [make_body(c) for c in case["clients"]]
        calls: list[str] = []

        pool = case.get("pool")
        scratch = bytearray(max(len(b) for b in bodies)) if pool else None

        def mk(req):
            i = int(req.path[2:])
            calls.append(req.path)
            c = case["clients"][i]
            if pool and c["btype"] == "bytes" and len(bodies[i]):
                k = len(bodies[i])
                scratch[:k] = bodies[i]           # "render" this response into the reusable buffer (same length: no resize)
                return GeminiResponse(c["status"], c["meta"], scratch if pool == "buffer" and k == len(scratch) else memoryview(scratch)[:k])
            return GeminiResponse(c["status"], c["meta"], bodies[i])

        if case["async"]:
            async def handler(req):
                await asyncio.sleep(0)
                return mk(req)
        else:
            handler = mk
        wants = []
        for c, b in zip(case["clients"], bodies):
            wh, wb = wire_of(type("R", (), {"status": c["status"], "meta": c["meta"], "body": b})())
            wants.append({"header": wh.hex(), "blen": len(wb), "bsha": hashlib.sha256(wb).hexdigest()})
        obs: dict = {"want": wants}
        for backend in ("std", "pyo"):
            calls.clear()
            sinks = [tls_peer._Sink() for _ in case["clients"]]
            specs = [{"path": f"/c{i}", "reader": c["reader"], "rcvbuf": c["rcvbuf"], "seed": c["seed"]} for i, c in enumerate(case["clients"])]
            with tls_live.LiveServer(backend, mode="factory", handler=handler, sndbuf=case["sndbuf"]) as srv:
                res = tls_live.fetch_overlapping(srv.port, specs, sinks, stall=lambda: srv.advance(stall_seconds()))
            out = []
            for sk, r in zip(sinks, res):
                g = sk.result()
                g.update({"eof": r.get("eof", "error:no-result")})
                out.append(g)
            obs[backend] = out
            obs[backend + "_calls"] = sorted(calls)
        first = case["clients"][0]
        units = len(bodies[0])
        self._tok = (core.case_digest(case), resp_token(first["status"], first["meta"], bodies[0], units > SMALL), units > SMALL, wants[0]["blen"])
        self._toks = {**getattr(self, "_toks", {}), self._tok[0]: self._tok}
        return obs

    def model(self, case):
        t = getattr(self, "_toks", {}).get(core.case_digest(case))
        if t is None:
            self.impl(case)
            t = getattr(self, "_toks", {}).get(core.case_digest(case))
            if t is None:
                return None
        return f"c06 all 0 0 n {t[1]} {t[3]}" if t[2] else f"c06 all 0 0 r {t[1]}"

    def expect(self, case, out):
        return parse_model(out)

    def same(self, expected, obs):
        # the model speaks about one connection: the first client's stream on both backends
        # (an aborting client chose not to read on; its prefix is checked by the oracle)
        if "model" in expected:
            return False
        for b in ("std", "pyo"):
            g = obs[b][0]
            if g["eof"] == "aborted-by-client":
                continue
            if not (expected["header"] == g["header"] and expected["blen"] == g["blen"] and (expected["bsha"] is None or expected["bsha"] == g["bsha"])):
                return False
        return True

    def oracle(self, case, obs):
        for b in ("std", "pyo"):
            for i, (g, w) in enumerate(zip(obs[b], obs["want"])):
                who = f"client {i} of {len(obs['want'])} ({case['clients'][i]['reader']} reader, {w['blen']}-byte body; all readers: {[c['reader'] for c in case['clients']]})"
                if g["eof"] == "aborted-by-client":
                    # it stopped on its own; what it did receive must still be its own response
                    if g["header_complete"] and g["header"] != w["header"]:
                        return (f"concurrent-{b}-header-mismatch", f"{who}: foreign header {bytes.fromhex(g['header'])[:60]!r}")
                    continue
                v = judge(f"concurrent-{b}", g, bytes.fromhex(w["header"]), w["blen"], w["bsha"])
                if v:
                    how = "; the handler returned its reusable scratch buffer as the body and rendered the later responses into the same buffer" if case.get("pool") else ""
                    return (v[0], f"{who}: {v[1]}{how}")
            if len(obs[b + "_calls"]) != len(obs["want"]):
                return (f"concurrent-{b}-handler-calls", f"{len(obs[b + '_calls'])} handler calls for {len(obs['want'])} requests")
        return None

    def key(self, case, obs):
        return f"{len(case['clients'])} clients: {'+'.join(sorted(c['reader'] for c in case['clients']))}" + (f" | handler reuses one {case['pool']}" if case.get("pool") else "")


# ------------------------------------------------------------------------------------------------
# family 4: one server process answers a SEQUENCE of requests, one after the other
# ------------------------------------------------------------------------------------------------
def page_body(case, p: int):
    """Page `p` of a sequence case, built afresh on every call (a new object each time; nothing of it is kept by this module):
    `n` units of the page's fill/seed, optionally with ONE unit replaced at the head, in the middle or at the tail (pages that
    differ from a neighbour in a single position), optionally a unit longer or shorter (`dn`)."""
    pg = case["pages"][p]
    n = max(0, case["n"] + pg.get("dn", 0))
    body = make_bytes(n, pg["fill"], pg["seed"]) if case["btype"] == "bytes" else make_str(n, pg["fill"], pg["seed"])
    at = {"head": 0, "mid": n // 2, "tail": n - 1}.get(pg.get("edit"))
    if at is not None and n:
        if case["btype"] == "bytes":
            body = body[:at] + (b"A" if body[at:at + 1] != b"A" else b"B") + body[at + 1:]
        else:
            body = body[:at] + ("A" if body[at] != "A" else "B") + body[at + 1:]
    return body


class Sequence(Family):
    """The responses of ONE process, one connection after the other: k requests for pages of (mostly) equal length whose bodies
    are produced afresh for every request and dropped once the response is out - by a handler that renders the page (str or
    bytes, sync or async), by StaticFileHandler from k files of equal size, from one file that is rewritten in place between the
    requests, or into the one scratch buffer a handler owns.  Whatever the server keeps from one response to the next (the
    previous body's encoding, a buffer, an object's address that the allocator hands out again) must not show in the next one.
    Through the real PyOpenSSL pump over memory BIOs (`pump`) or on the protocol's transport directly (`direct`: what the
    stdlib backend, the identity transport of the model, is handed).  Oracle per request: the header the handler returned, then
    exactly the bytes of the page THIS request asked for, then end of stream."""

    name = "sequence"
    quick_n = 96
    thorough_n = 1600
    model_from_obs = True

    # (kind, btype, units, pages, rounds, how the pages differ); divided among the shards with self.share
    SHAPES = [
        ("handler", "str", 204800, 4, 2, "seed"), ("static", "str", 204800, 4, 2, "seed"), ("rewrite", "str", 100000, 3, 2, "seed"),
        ("handler", "str", 65536, 3, 3, "tail"), ("handler", "bytes", 300000, 3, 2, "seed"), ("scratch", "bytes", 200000, 3, 2, "seed"),
        ("handler", "str", MIB, 3, 2, "mid"), ("static", "str", 70000, 4, 2, "tail"), ("handler", "str", 5000, 4, 3, "seed"),
        ("handler", "str", 300, 4, 3, "head"), ("static", "str", 16385, 3, 3, "mid"), ("handler", "str", 65537, 4, 2, "seed"),
        ("rewrite", "str", 262145, 3, 2, "tail"), ("handler", "bytes", 65536, 4, 2, "tail"), ("static", "str", MIB + 1, 3, 2, "seed"),
        ("handler", "str", 131072, 5, 2, "head"),
    ]

    def _case(self, rng: random.Random, kind: str, btype: str, n: int, npages: int, rounds: int, diff: str, shuffle: bool = False):
        if btype == "bytes":
            fills = ["rand", "counter", "crlf"]
        elif kind in ("static", "rewrite"):
            fills = ["ascii", "mixed"]          # valid UTF-8 without CR: read_text hands back the file's text unchanged
        else:
            fills = FILLS_S
        if diff == "seed":
            # every page its own seed ("counter" / "crlf" pages would all be the same page)
            f0 = rng.choice([f for f in fills if f not in ("counter", "crlf")])
            pages = [{"fill": f0, "seed": rng.randrange(1 << 30)} for _ in range(npages)]
        else:
            # pages 1.. are page 0 with ONE unit replaced, each at another place (first at `diff`); from the fifth page on a fresh seed too
            f0, s0 = rng.choice(fills), rng.randrange(1 << 30)
            places = [diff] + [e for e in ("head", "mid", "tail") if e != diff]
            pages = [{"fill": f0, "seed": s0}]
            for p in range(1, npages):
                pages.append({"fill": f0 if p <= 3 or f0 not in ("counter", "crlf") else "rand", "seed": s0 if p <= 3 else rng.randrange(1 << 30), "edit": places[(p - 1) % 3]})
        order = [p for _ in range(rounds) for p in range(npages)]
        if shuffle:
            order = [rng.randrange(npages) for _ in order]
            if rng.random() < 0.3:
                pages[rng.randrange(npages)]["dn"] = rng.choice([1, -1, 7])
        via = rng.choice(["pump", "pump", "direct"])
        return {"kind": kind, "btype": btype, "n": n, "pages": pages, "order": order, "status": 20 if kind != "handler" else rng.choice([20, 20, 20, 21, 29]),
                "meta": rng.choice(METAS) if kind in ("handler", "scratch") else "gmi", "src": "sync" if kind == "scratch" else rng.choice(["sync", "sync", "async"]),
                "via": via, "reader": rng.choice(["fast", "fast", "bursty", "slow"]) if n <= 300000 else rng.choice(["fast", "bursty"]),
                "tlsmax": rng.choice([4, 4, 3]), "path": rng.choice([4, 5, 6, 13, 14]), "collect": rng.random() < 0.5,
                "view": kind == "scratch" and rng.random() < 0.5}

    def gen(self, rng: random.Random, n: int):
        count = 0
        for shape in self.share(self.SHAPES):
            yield self._case(rng, *shape)
            count += 1
        while count < n:
            kind = rng.choice(["handler", "handler", "handler", "static", "static", "rewrite", "scratch"])
            btype = "bytes" if kind == "scratch" else "str" if kind != "handler" else rng.choice(["str", "str", "str", "bytes"])
            r = rng.random()
            units = rng.choice([65536, 65537, 65535, 16384, 16385, 131072, 204800, 262144]) if r < 0.35 else int(2 ** rng.uniform(16, 20.2)) if r < 0.8 else \
                rng.choice([1, 2, 300, 5000, 40000])
            yield self._case(rng, kind, btype, units, rng.choice([2, 3, 3, 4, 5]), rng.choice([2, 2, 3]), rng.choice(["seed", "seed", "seed", "head", "mid", "tail"]),
                             shuffle=rng.random() < 0.4)
            count += 1

    # -- implementation ----------------------------------------------------------------------
    def impl(self, case):
        import gc

        from nauyaca.protocol.response import GeminiResponse
        from nauyaca.server.protocol import GeminiServerProtocol

        kind = case["kind"]
        # what every page is - the property's right-hand side - from the descriptions, before anything is served; only length and
        # hash are kept (a page that stays alive here would keep its address away from the pages built later)
        want = []
        for p in range(len(case["pages"])):
            b = page_body(case, p)
            wb = b if isinstance(b, bytes) else b.encode("utf-8")
            want.append({"units": len(b), "blen": len(wb), "bsha": hashlib.sha256(wb).hexdigest()})
            del b, wb
        returned: list = []       # per handler call: status, meta, units of the body (small values, never the body)
        tmp = None
        if kind in ("static", "rewrite"):
            from nauyaca.server.handler import StaticFileHandler

            tmp = tempfile.mkdtemp(prefix="nv-")
            if kind == "static":
                for p in range(len(case["pages"])):
                    (Path(tmp) / f"p{p}.gmi").write_bytes(page_body(case, p).encode("utf-8"))
            sh = StaticFileHandler(Path(tmp))

            def name_of(p):
                return f"p{p}.gmi" if kind == "static" else "page.gmi"

            def render(req):
                return sh.handle(req)
        else:
            scratch = bytearray(max(w["blen"] for w in want)) if kind == "scratch" else None

            def name_of(p):
                return f"p{p}"

            def render(req):
                p = int(req.path.strip("/")[1:])
                body = page_body(case, p)
                if scratch is not None and len(body):
                    k = len(body)
                    scratch[:k] = body        # rendered into the handler's one buffer; the response is what it holds on return
                    body = memoryview(scratch)[:k] if case.get("view") or k != len(scratch) else scratch
                return GeminiResponse(case["status"], case["meta"], body)

        def note(r):
            returned.append([getattr(r, "status", None), getattr(r, "meta", None), len(r.body) if getattr(r, "body", None) is not None else 0])
            return r

        if case["src"] == "async":
            async def handler(req):
                await asyncio.sleep(0)
                return note(render(req))
        else:
            def handler(req):
                return note(render(req))

        async def direct(request: bytes) -> dict:
            tcp = tls_peer.FakeTCP()
            proto = GeminiServerProtocol(handler, None)
            proto.connection_made(tcp)
            proto.data_received(request)
            for _ in range(40):
                if tcp.closed:
                    break
                await asyncio.sleep(0)
            sink = tls_peer._Sink()
            writes = tcp.take()
            for w in writes:
                sink.add(w)
            g = sink.result()
            g.update({"eof": "clean" if tcp.closed else "none", "closed": tcp.closed, "close_calls": tcp.close_calls, "dropped": sum(len(x) for x in tcp.dropped),
                      "tcp": [len(w) for w in writes]})
            del writes
            proto.connection_lost(None)
            return g

        ctx = pyo_ctx(case["path"]) if case["via"] == "pump" else None      # built outside the running loop

        async def run():
            outs = []
            rng = random.Random(case["pages"][0]["seed"] ^ 0x5EED)
            for i, p in enumerate(case["order"]):
                if kind == "rewrite":
                    (Path(tmp) / "page.gmi").write_bytes(page_body(case, p).encode("utf-8"))     # edited in place between two requests
                request = f"gemini://localhost/{name_of(p)}\r\n".encode()
                if case["via"] == "direct":
                    g = await direct(request)
                else:
                    g = await tls_peer.pump_exchange(ctx, lambda: GeminiServerProtocol(handler, None), request, reader=case["reader"],
                                                     rng=rng, tlsmax=case["tlsmax"], cuts=0, coalesce=False, settle=8)
                    if g.get("error"):
                        raise RuntimeError(f"harness: TLS handshake with the pump failed: {g}")
                    if i < len(case["order"]) - 1:
                        g.pop("records", None), g.pop("tcp", None)       # kept for the last one (compared with the model)
                outs.append(g)
                if case.get("collect"):
                    gc.collect()
            return outs

        try:
            got = asyncio.run(run())
        finally:
            if tmp:
                shutil.rmtree(tmp, ignore_errors=True)
        return {"got": got, "want": want, "returned": returned, "handler_calls": len(returned)}

    # -- model: the last response of the sequence ----------------------------------------------
    def model_obs(self, case, obs):
        if obs["handler_calls"] != len(case["order"]) or not obs["returned"] or not isinstance(obs["returned"][-1][0], int):
            return None
        status, meta, units = obs["returned"][-1]
        p = case["order"][-1]
        big = units > SMALL
        tok = resp_token(status, str(meta), None if big else page_body(case, p), big)
        g = obs["got"][-1]
        ovh, cn = ((g["ovh"][0] if g.get("ovh") else 0), g.get("cn", 0)) if case["via"] == "pump" else (0, 0)
        mode = "min16384" if case["via"] == "pump" else "all"
        return f"c06 {mode} {ovh} {cn} n {tok} {obs['want'][p]['blen']}" if big else f"c06 {mode} {ovh} {cn} r {tok}"

    def expect(self, case, out):
        return parse_model(out)

    def same(self, expected, obs):
        if "model" in expected:
            return False
        g = obs["got"][-1]
        ok = (expected["header"] == g["header"] and expected["blen"] == g["blen"] and (expected["bsha"] is None or expected["bsha"] == g["bsha"])
              and g["closed"] is True and g["close_calls"] == 1 and g["dropped"] == 0 and g["eof"] == "clean")
        if ok and "records" in g:
            ok = expected["records"] == g["records"] and expected["tcp"] == g["tcp"] and len(g["ovh"]) <= 1
        return ok

    # -- direct oracle -----------------------------------------------------------------------
    def oracle(self, case, obs):
        order, k = case["order"], len(case["order"])
        if obs["handler_calls"] != k:
            return ("sequence-handler-calls", f"the handler ran {obs['handler_calls']} times for {k} requests, one after the other")
        how = {"handler": f"a {case['btype']} body the {case['src']} handler builds afresh for every request", "static": "a file served by StaticFileHandler",
               "rewrite": "one file, rewritten in place before every request, served by StaticFileHandler",
               "scratch": "rendered into the one bytearray the handler owns and returned as " + ("a view of it" if case.get("view") else "that buffer")}[case["kind"]]
        for i, (p, g, ret) in enumerate(zip(order, obs["got"], obs["returned"])):
            w = obs["want"][p]
            who = f"request {i + 1} of {k} to one server, one connection after the other, asked for page {p} ({w['units']} units = {w['blen']} bytes)"
            ctx = (f" [{how}; through the {'PyOpenSSL pump' if case['via'] == 'pump' else 'protocol on its transport'}; "
                   f"pages of the sequence: {[x['units'] for x in obs['want']]} units, requested in the order {order}]")
            if case["kind"] in ("static", "rewrite") and ret[0] != 20:
                return ("sequence-static-not-served", f"{who}: the handler answered {ret[0]} {str(ret[1])[:60]!r} for a regular UTF-8 file below the default size limit{ctx}")
            v = judge("sequence", g, f"{ret[0]} {ret[1]}\r\n".encode("utf-8"), w["blen"], w["bsha"])
            if v:
                twin = [j for j in range(i) if order[j] != p and (obs["want"][order[j]]["blen"], obs["want"][order[j]]["bsha"]) == (g.get("blen"), g.get("bsha"))]
                same_as = f"; what arrived is byte for byte the body of page {order[twin[-1]]}, served by request {twin[-1] + 1} of this sequence" if twin else ""
                # one signature for "the body of an earlier response arrived", whatever its length is relative to the right one
                return ("sequence-earlier-body-delivered" if twin else v[0], f"{who}: {v[1]}{same_as}{ctx}")
        return None

    def key(self, case, obs):
        n = case["n"]
        cls = "<16K" if n < 16384 else "<64K" if n < 65536 else "64K..256K" if n <= 262144 else ">256K"
        edits = sorted({pg.get("edit", "seed") for pg in case["pages"][1:]}) or ["-"]
        return f"{case['kind']} {case['btype']} | {cls} | {case['via']} | pages differ: {'+'.join(edits)}"

    def shrink(self, case, bad):
        """fewer requests: the shortest prefix of the sequence that still fails, then without its leading requests (at most 14 runs)"""
        budget = [14]

        def still(c):
            if budget[0] <= 0:
                return False
            budget[0] -= 1
            try:
                return bad(c)
            except Exception:  # noqa: BLE001
                return False

        cur = case
        for j in range(2, len(case["order"])):
            cand = dict(case, order=case["order"][:j])
            if still(cand):
                cur = cand
                break
        while len(cur["order"]) > 2:
            cand = dict(cur, order=cur["order"][1:])
            if not still(cand):
                break
            cur = cand
        return cur


FAMILIES = [Pump(), Live(), Concurrent(), Sequence()]
