import asyncio, random, subprocess, sys
from fractions import Fraction as F
import nauyaca.protocol
from nauyaca.server import middleware as mwm
from nauyaca.server.middleware import RateLimiter, RateLimitConfig

class VLoop(asyncio.SelectorEventLoop):
    """virtual clock: time only moves when we say so; timers due run on the next iteration"""
    def __init__(self): super().__init__(); self.vt=0.0
    def time(self): return self.vt

def gen(rnd):
    cap=rnd.choice([1,2,3,10]); rate=rnd.choice([F(1,8),F(1,2),1,2,F(1,128),F(1,1024)])
    n=rnd.randint(1,60); t=F(0); evs=[]
    for _ in range(n):
        dt=rnd.choice([0,0,F(1,8),F(1,4),1,2,5,F(75,2),150,299,301,450,650,1200])
        t+=dt; evs.append((rnd.randint(1,3),t))
    return cap,rate,evs

async def run_impl(loop,cap,rate,evs):
    now=[0.0]
    mwm.time.monotonic=lambda: loop.vt     # patch the clock the module reads
    rl=RateLimiter(RateLimitConfig(capacity=cap,refill_rate=float(rate),retry_after=7)); rl.start()
    await asyncio.sleep(0)
    out=[]; trace=[]
    for ip,t in evs:
        # advance virtual time in steps so that every due clean-up (every 300 s) runs at its own time
        while True:
            # next cleanup wake-up is the loop's earliest scheduled timer
            nxt=min((h.when() for h in loop._scheduled if not h.cancelled()), default=None)
            if nxt is not None and nxt<=float(t):
                loop.vt=nxt
                for _ in range(4): await asyncio.sleep(0)
                trace.append(('c',F(nxt)))
            else: break
        loop.vt=float(t)
        for _ in range(2): await asyncio.sleep(0)
        ok,resp=await rl.process_request("gemini://h/",str(ip))
        out.append('1' if ok else '0'); trace.append((ip,t))
        if not ok: assert resp=="44 Rate limit exceeded. Retry after 7 seconds\r\n"
    await rl.stop()
    return "".join(out), trace

def main():
    seed=int(sys.argv[1]); n=int(sys.argv[2]); rnd=random.Random(seed)
    loop=VLoop(); asyncio.set_event_loop(loop)
    real=mwm.time.monotonic
    cases=[gen(rnd) for _ in range(n)]; lines=[]; impl=[]
    async def go():
        for cap,rate,evs in cases:
            loop.vt=0.0
            o,tr=await run_impl(loop,cap,rate,evs); impl.append(o)
            lines.append(f"bucket {cap} {rate.numerator}/{rate.denominator} "+" ".join(f"{a}@{t.numerator}/{t.denominator}" for a,t in tr))
    loop.run_until_complete(go())
    mo=subprocess.run(["/tmp/spike4/Mw/.lake/build/bin/drv"],input="\n".join(lines)+"\n",capture_output=True,text=True).stdout.splitlines()
    bad=0; ncl=0; nref=0
    for l,o,m in zip(lines,impl,mo):
        ncl+=l.count(" c@"); nref+=o.count('0')
        if "ok "+o!=m:
            bad+=1
            if bad<4: print("DIFF",l[:200],"\n impl",o,"\n model",m)
    print("cases",n,"diffs",bad,"cleanups",ncl,"refusals",nref)
main()
