import NauyacaVerif.Fs.Static
namespace Fs

/-! ## the static handler with its file reads made explicit

`handleFx` is `handle` instrumented with the list of paths whose *content* is read
(`Path.read_text`); `handleFx_fst` shows it is the same function.  The source-shape fact that the
real `handle` contains exactly one content-reading call, inside its last statement, is extracted
as `Gen.staticSingleRead`. -/

def serveFileFx (os : OS) (cfg : SCfg) (p : Path) : SResp × List Path :=
  if os.kind p ≠ .file then (.notFound, [])
  else if os.size p > cfg.maxSize then (.tooLarge, [])
  else match os.readText p with
    | .ok id => (.file p id, [p])
    | .notUtf8 => (.tempFail .notUtf8, [p])
    | .denied => (.tempFail .denied, [p])
    | .ioError => (.tempFail .ioError, [p])

def serveDirFx (os : OS) (cfg : SCfg) (fp : Path) : SResp × List Path :=
  if indexRaises os cfg fp cfg.indices then (.raised, [])
  else
    match findIndex os cfg fp cfg.indices with
    | some ip => serveFileFx os cfg ip
    | none =>
      if cfg.listingOn then
        match os.listing fp with
        | some names => (.listing fp names, [])
        | none => (.tempFail .listing, [])
      else (.notFound, [])

def handleFx (os : OS) (cfg : SCfg) (comps : List Name) (trailing : Bool) : SResp × List Path :=
  match os.resolve (cfg.root ++ comps) with
  | none => (.notFound, [])
  | some fp =>
    if !inside cfg.root fp then (.notFound, [])
    else if os.kind fp = .error then (.raised, [])
    else if trailing && os.kind fp != .dir then (.notFound, [])
    else if os.kind fp = .dir then serveDirFx os cfg fp
    else serveFileFx os cfg fp

theorem serveFileFx_fst (os : OS) (cfg : SCfg) (p : Path) : (serveFileFx os cfg p).1 = serveFile os cfg p := by
  unfold serveFileFx serveFile
  by_cases h1 : os.kind p ≠ .file
  · simp only [if_pos h1]
  · simp only [if_neg h1]
    by_cases h2 : os.size p > cfg.maxSize
    · simp only [if_pos h2]
    · simp only [if_neg h2]
      cases os.readText p <;> rfl

theorem serveDirFx_fst (os : OS) (cfg : SCfg) (fp : Path) : (serveDirFx os cfg fp).1 = serveDir os cfg fp := by
  unfold serveDirFx serveDir
  by_cases hr : indexRaises os cfg fp cfg.indices = true
  · simp only [if_pos hr]
  · simp only [if_neg hr]
    cases findIndex os cfg fp cfg.indices with
    | some ip => exact serveFileFx_fst os cfg ip
    | none =>
      by_cases hl : cfg.listingOn = true
      · simp only [if_pos hl]
        cases os.listing fp <;> rfl
      · simp only [if_neg hl]

theorem handleFx_fst (os : OS) (cfg : SCfg) (comps : List Name) (trailing : Bool) :
    (handleFx os cfg comps trailing).1 = handle os cfg comps trailing := by
  unfold handleFx handle
  cases os.resolve (cfg.root ++ comps) with
  | none => rfl
  | some fp =>
    by_cases h1 : (!inside cfg.root fp) = true
    · simp only [if_pos h1]
    · simp only [if_neg h1]
      by_cases h2 : os.kind fp = .error
      · simp only [if_pos h2]
      · simp only [if_neg h2]
        by_cases h3 : (trailing && os.kind fp != .dir) = true
        · simp only [if_pos h3]
        · simp only [if_neg h3]
          by_cases h4 : os.kind fp = .dir
          · simp only [if_pos h4]; exact serveDirFx_fst os cfg fp
          · simp only [if_neg h4]; exact serveFileFx_fst os cfg fp

/-- what a pair (response, reads) can look like: nothing was read, or exactly one file was read
    and either its content is the response or the read itself failed -/
def ReadsOk (os : OS) (r : SResp) (reads : List Path) : Prop :=
  (reads = [] ∧ ∀ p id, r ≠ .file p id) ∨
  ∃ p, reads = [p] ∧ ((∃ id, r = .file p id ∧ os.readText p = .ok id) ∨
                      ((∀ id, os.readText p ≠ .ok id) ∧ ∃ why, r = .tempFail why))

theorem serveFileFx_reads (os : OS) (cfg : SCfg) (p : Path) :
    ReadsOk os (serveFileFx os cfg p).1 (serveFileFx os cfg p).2 := by
  unfold serveFileFx
  split
  · exact Or.inl ⟨rfl, by intro _ _ h; cases h⟩
  · split
    · exact Or.inl ⟨rfl, by intro _ _ h; cases h⟩
    · split
      · rename_i id he
        exact Or.inr ⟨p, rfl, Or.inl ⟨id, rfl, he⟩⟩
      all_goals
        rename_i he
        exact Or.inr ⟨p, rfl, Or.inr ⟨(by intro id h; rw [he] at h; cases h), _, rfl⟩⟩

theorem serveDirFx_reads (os : OS) (cfg : SCfg) (fp : Path) :
    ReadsOk os (serveDirFx os cfg fp).1 (serveDirFx os cfg fp).2 := by
  unfold serveDirFx
  split
  · exact Or.inl ⟨rfl, by intro _ _ h; cases h⟩
  · split
    · exact serveFileFx_reads os cfg _
    · split
      · split
        · exact Or.inl ⟨rfl, by intro _ _ h; cases h⟩
        · exact Or.inl ⟨rfl, by intro _ _ h; cases h⟩
      · exact Or.inl ⟨rfl, by intro _ _ h; cases h⟩

theorem handleFx_reads (os : OS) (cfg : SCfg) (comps : List Name) (trailing : Bool) :
    ReadsOk os (handleFx os cfg comps trailing).1 (handleFx os cfg comps trailing).2 := by
  unfold handleFx
  split
  · exact Or.inl ⟨rfl, by intro _ _ h; cases h⟩
  · split
    · exact Or.inl ⟨rfl, by intro _ _ h; cases h⟩
    · split
      · exact Or.inl ⟨rfl, by intro _ _ h; cases h⟩
      · split
        · exact Or.inl ⟨rfl, by intro _ _ h; cases h⟩
        · split
          · exact serveDirFx_reads os cfg _
          · exact serveFileFx_reads os cfg _

/-- a response without success status has no body, whatever it is -/
theorem nonsuccess_no_body (r : SResp) (h : r.success = false) : r.body = none := by
  cases r <;> simp [SResp.success, SResp.status, SResp.body] at h ⊢

/-- the meta of a non-success response is one of four fixed strings, or one of two fixed
    prefixes followed by the text of the caught exception -/
theorem nonsuccess_meta (r : SResp) (exc : List Nat) (h : r.success = false) :
    r.errMeta exc ∈ [metaNotFound, metaTooLarge, metaNotUtf8, metaDenied] ∨
    r.errMeta exc = metaServerError ++ exc ∨ r.errMeta exc = metaListingError ++ exc := by
  cases r with
  | file p id => simp [SResp.success, SResp.status] at h
  | listing p n => simp [SResp.success, SResp.status] at h
  | notFound => left; simp [SResp.errMeta]
  | tooLarge => left; simp [SResp.errMeta]
  | tempFail why => cases why <;> simp [SResp.errMeta]
  | raised => simp [SResp.errMeta]

/-! ### completeness over the abstract OS -/
theorem inside_root_append (root : Path) (segs : List Name) : inside root (root ++ segs) = true := by
  simp [inside, List.isPrefixOf_iff_prefix]

/-- a regular file whose path resolves to itself (no symlink on the way), small enough and UTF-8,
    is served when its canonical segments are requested without a trailing slash -/
theorem complete_os (os : OS) (cfg : SCfg) (segs : List Name) (id : Nat)
    (hres : os.resolve (cfg.root ++ segs) = some (cfg.root ++ segs))
    (hk : os.kind (cfg.root ++ segs) = .file) (hsz : os.size (cfg.root ++ segs) ≤ cfg.maxSize)
    (hrd : os.readText (cfg.root ++ segs) = .ok id) :
    handle os cfg segs false = .file (cfg.root ++ segs) id := by
  unfold handle
  rw [hres]
  simp only [inside_root_append, Bool.not_true, Bool.false_eq_true, if_false, hk, Bool.false_and]
  have h1 : ¬ (Kind.file = Kind.error) := by decide
  have h2 : ¬ (Kind.file = Kind.dir) := by decide
  rw [if_neg h1, if_neg h2]
  unfold serveFile
  rw [hk]
  simp only [ne_eq, not_true_eq_false, if_false]
  rw [if_neg (by omega), hrd]
end Fs
