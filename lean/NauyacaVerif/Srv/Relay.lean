import NauyacaVerif.Srv.RenderProof
import NauyacaVerif.Srv.RelayModel
namespace Srv

/-! # C18: what the proxy hands to its client is what the upstream sent (well-formed case) -/

theorem takeWhole_all {limit : Nat} {ps : List Bytes} (h : ps.flatten.length ≤ limit) : takeWhole limit ps = ps.flatten := by
  induction ps generalizing limit with
  | nil => rfl
  | cons p ps ih =>
    simp only [List.flatten_cons, List.length_append] at h
    simp only [takeWhole]
    rw [if_pos (by omega), ih (by omega)]
    simp

theorem scrub_id {m : PyStr} (h : ∀ c ∈ m, c ≠ 13 ∧ c ≠ 10) : scrub m = m := by
  unfold scrub
  conv => rhs; rw [← List.map_id m]
  apply List.map_congr_left
  intro c hc
  have := h c hc
  simp [this.1, this.2]

/-- the upstream's header line, as bytes: two status digits, a space, the meta, CRLF -/
def upstreamBytes (st : Nat) (metaBytes body : Bytes) : Bytes := digits2 st ++ [32] ++ metaBytes ++ [13, 10] ++ body

/-- C18: for a well-formed upstream response — status 10–69, meta of at most 1024 bytes that decodes
    (as the client does) to a string without CR/LF whose UTF-8 encoding is the original bytes, body
    only with 2x — the bytes the proxy's server side writes are exactly the bytes the upstream sent.
    The body travels as bytes (`decode_text = False`), so no charset is ever interpreted. -/
theorem relay_verbatim (st : Nat) (metaBytes body : Bytes) (metaStr : PyStr)
    (hst : 10 ≤ st ∧ st ≤ 69)
    (hlen : metaBytes.length ≤ maxMeta)
    (hclean : ∀ c ∈ metaStr, c ≠ 13 ∧ c ≠ 10)
    (hround : (encodeReplace metaStr).flatten = metaBytes)      -- UTF-8 decode/encode round trip (codec contract)
    (hbody : body ≠ [] → 20 ≤ st ∧ st ≤ 29) :
    let r : Resp := ⟨st, metaStr, if body.isEmpty then .none else .bytes body⟩
    (render r).1 ++ (render r).2 = upstreamBytes st metaBytes body := by
  simp only
  have hn : normStatus ⟨(st : Int), metaStr, if body.isEmpty then Body.none else Body.bytes body⟩
      = (st, metaStr, if body.isEmpty then Body.none else Body.bytes body) := by
    unfold normStatus
    have : (10 : Int) ≤ (st : Int) ∧ (st : Int) ≤ 69 := by omega
    simp only [this, and_self, ↓reduceIte, Int.toNat_natCast]
  unfold render
  simp only [hn]
  have hmeta : takeWhole maxMeta (encodeReplace (scrub metaStr)) = metaBytes := by
    rw [scrub_id hclean, takeWhole_all (by rw [hround]; exact hlen), hround]
  by_cases hb : body.isEmpty = true
  · have hbe : body = [] := by simpa using hb
    subst hbe
    have he : encodeBody st metaStr Body.none = (st, metaStr, []) := by
      unfold encodeBody; split <;> rfl
    simp only [List.isEmpty_nil, ↓reduceIte, he, header, hmeta, upstreamBytes, List.append_nil]
  · have h2 := hbody (by intro h; simp [h] at hb)
    have he : encodeBody st metaStr (Body.bytes body) = (st, metaStr, body) := by
      unfold encodeBody; simp [h2]
    simp only [hb, Bool.false_eq_true, ↓reduceIte, he, header, hmeta, upstreamBytes]

/-- **C18 `proxy_faults`**: whatever the failure and whatever its message text, the bytes written
    downstream are one well-formed header with status 43 and no body -/
theorem proxy_faults (k : FailClass) (msg : PyStr) :
    WFHeader (render (proxyRespond (.fail k msg))).1 ∧
    statusOf (render (proxyRespond (.fail k msg))).1 = 43 ∧
    (render (proxyRespond (.fail k msg))).2 = [] := by
  have hwf := (render_wf (proxyRespond (.fail k msg))).1
  refine ⟨hwf, ?_, ?_⟩
  · cases k <;>
      simp [proxyRespond, render, normStatus, encodeBody, NauyacaVerif.Gen.proxyStatusTimeout,
        NauyacaVerif.Gen.proxyStatusConnection, NauyacaVerif.Gen.proxyStatusOther, statusOf_header]
  · cases k <;>
      simp [proxyRespond, render, normStatus, encodeBody, NauyacaVerif.Gen.proxyStatusTimeout,
        NauyacaVerif.Gen.proxyStatusConnection, NauyacaVerif.Gen.proxyStatusOther]

/-- every fault kind of the property ends in one of the three clauses, hence in 43 -/
theorem proxy_fault_kinds (f : Fault) (msg : PyStr) :
    statusOf (render (proxyRespond (.fail f.cls msg))).1 = 43 ∧ (render (proxyRespond (.fail f.cls msg))).2 = [] :=
  ⟨(proxy_faults f.cls msg).2.1, (proxy_faults f.cls msg).2.2⟩

/-- **C18 `proxy_no_follow`**: for every redirect graph, a 3x answer of the upstream is what the proxy
    returns, and the upstream URL is the only one connected to -/
theorem proxy_no_follow (fetch : Cl.Url → Option Cl.Resp) (max : Nat) (u : Cl.Url) (s : Nat) (t : Cl.Url)
    (h : fetch u = some (.redirect s t)) : proxyGet fetch max u = (.ok (.redirect s t), [u]) := by
  simp [proxyGet, clientGet, NauyacaVerif.Gen.proxyFollowRedirects, h]

/-- exactly one connection, whatever the upstream answers -/
theorem proxy_single_connection (fetch : Cl.Url → Option Cl.Resp) (max : Nat) (u : Cl.Url) :
    (proxyGet fetch max u).2 = [u] := by
  unfold proxyGet clientGet
  simp only [NauyacaVerif.Gen.proxyFollowRedirects, Bool.false_eq_true, ↓reduceIte]
  cases fetch u <;> rfl
end Srv
