import NauyacaVerif.Srv.ConnMore
import NauyacaVerif.Srv.SegProof
import NauyacaVerif.Srv.PumpProof
import NauyacaVerif.Srv.FlowProof
import NauyacaVerif.Srv.SysProof
import NauyacaVerif.Gen.Params

/-! # C01  Exactly one well-formed Gemini response per connection -/
namespace NauyacaVerif.C01
open Srv

theorem maxMeta_tie : Srv.maxMeta = Gen.maxMeta := by decide
theorem maxRequest_tie : Srv.maxRequest = Gen.maxRequest := by decide

/-- every response the encoder produces is well formed: two digits in 10–69, space, meta without CR/LF of at
    most 1024 bytes, CRLF, and a body only with a 2x status — for every status (any `Int`), meta and body
    over Python code points including lone surrogates, `str` / `bytes` / `None` bodies -/
theorem render_wf (r : Resp) :
    WFHeader (render r).1 ∧ ((render r).2 ≠ [] → 20 ≤ statusOf (render r).1 ∧ statusOf (render r).1 ≤ 29) :=
  Srv.render_wf r

/-- one response, well formed, then close: for every configuration and every event list (every ordering of
    reads, timer expiry, task completions and disconnect, every handler / middleware outcome) -/
theorem trace_shape (cfg : Cfg) (evs : List Ev) :
    (run cfg evs).out = [] ∨ ∃ ws, (run cfg evs).out = ws ++ [.close] ∧ WFWrites ws := by
  rcases (run_inv cfg evs).shape with ⟨_, h⟩ | ⟨_, h⟩
  · exact Or.inl h
  · exact Or.inr h

/-- nothing is ever written after the close: once a response has been sent every further event leaves the
    output trace unchanged -/
theorem nothing_after_close (cfg : Cfg) (s : St) (e : Ev) (hi : Inv cfg s) (hs : s.sent = true) :
    (step cfg s e).out = s.out := by
  have hd := hi.sentDone hs
  cases e <;> simp [step, hd, hs, respondFixed, respond, respondWith]
  all_goals (try split) <;> simp_all

/-- exactly one: once the request is decided and no task is pending (phase `done`) and the peer is still there,
    one well-formed response followed by close HAS been written -/
theorem trace_progress (cfg : Cfg) (evs : List Ev) (hd : (run cfg evs).phase = .done) (hl : (run cfg evs).lost = false) :
    ∃ ws, (run cfg evs).out = ws ++ [.close] ∧ WFWrites ws := done_responded cfg evs hd hl

/-- a full request line, or more than 1024 bytes without CRLF, is a decision point however it was split
    into reads: the connection leaves the line-waiting phase -/
theorem line_decides (cfg : Cfg) (c : Bytes) (cs : List Bytes)
    (h : (findCRLF (c ++ cs.flatten)).isSome ∨ (c ++ cs.flatten).length > maxRequest) :
    (feedAll cfg {} (c :: cs)).phase ≠ .awaitLine := by
  rw [(Srv.seg_indep_observables cfg c cs).2.2.2.2.2]
  exact Srv.line_decides cfg _ h

/-- nothing at all reaches a client that disconnected before a response was written -/
theorem lost_silent (cfg : Cfg) (pre post : List Ev) (h : (run cfg pre).out = []) :
    (run cfg (pre ++ [.lost] ++ post)).out = [] := lost_first_silent cfg pre post h

/-- the fixed response strings of the code are covered by the renderer: every fixed meta extracted from
    the source is free of CR and LF and short -/
theorem fixedMetas_clean : ∀ m ∈ Gen.fixedMetas, m.length ≤ 1024 ∧ 13 ∉ m ∧ 10 ∉ m := by decide

/-- non-vacuity: a concrete run ends in phase `done`, connected, with a response -/
example : (run { mw := false, upload := false, handler := .syncRaise, env := asciiEnv }
            [.data [103, 13, 10]]).phase = .done := by decide

/-- the same on the PyOpenSSL backend: whatever TCP reads, TLS records, timers and task completions occur, the
    inner protocol (once it exists) has written nothing or exactly one well-formed response followed by close -/
theorem pump_trace_shape (cfg : Cfg) (evs : List PEv) (i : St) (hi : (pumpRun cfg evs).inner = some i) :
    i.out = [] ∨ ∃ ws, i.out = ws ++ [.close] ∧ WFWrites ws := by
  rcases ((pumpRun_pinv cfg evs).innerInv i hi).1.shape with ⟨_, h⟩ | ⟨_, h⟩
  · exact Or.inl h
  · exact Or.inr h

/-- … and before the TLS handshake has completed there is no inner protocol and nothing to decrypt -/
theorem pump_silent_before_handshake (cfg : Cfg) (evs : List PEv) (h : (pumpRun cfg evs).hsDone = false) :
    plainOut (pumpRun cfg evs) = [] := by
  apply no_inner_no_output
  cases hi : (pumpRun cfg evs).inner with
  | none => rfl
  | some i => have := (pumpRun_pinv cfg evs).innerAfterHs (by simp [hi]); simp [h] at this


/-! ### the write pump under flow control (responses are handed to the transport piece by piece) -/
theorem writeChunk_tie : Flow.writeChunk = Gen.writeChunk := by decide

/-- the pieces of a response are its header and its body, nothing lost, no piece above `WRITE_CHUNK_SIZE` -/
theorem flow_pieces (r : Resp) :
    (Flow.pieces r).flatten = (render r).1 ++ (render r).2 ∧ ∀ p ∈ Flow.chunk Flow.writeChunk (render r).2, p.length ≤ Flow.writeChunk :=
  ⟨Flow.pieces_flatten r, Flow.chunk_size _⟩

/-- whatever the transport does (signal pause during any write, resume at any time, disconnect): the writes are a
    prefix, in order, of the pieces, and `close` appears only after ALL of them — never a half-written response
    followed by a close, never bytes after the close -/
theorem flow_writes_prefix (evs : List Flow.FEv) :
    ∃ k, (Flow.frun evs).out = ((Flow.frun evs).all.take k).map .write ++ (if (Flow.frun evs).closed then [.close] else []) ∧
      ((Flow.frun evs).closed = true → k = (Flow.frun evs).all.length) := Flow.writes_prefix evs

theorem flow_closed_complete (evs : List Flow.FEv) (hc : (Flow.frun evs).closed = true) :
    (Flow.frun evs).out = (Flow.frun evs).all.map .write ++ [.close] := Flow.closed_complete evs hc

/-- nothing is written while the transport has paused writing, after the close or after a disconnect -/
theorem flow_quiet (s : Flow.FSt) (e : Flow.FEv) (hp : s.paused = true ∨ s.closed = true ∨ s.lost = true) (he : e ≠ .resume) :
    (Flow.fstep s e).out = s.out := Flow.quiet_when_paused s e hp he

/-- progress: when the transport resumes and does not pause again the response is completed and closed -/
theorem flow_resume_finishes (s : Flow.FSt) (hs : s.started = true) (hl : s.lost = false) (hc : s.closed = false) (hb : s.budget = none) :
    (Flow.fstep s .resume).closed = true ∧ (Flow.fstep s .resume).unsent = [] := Flow.resume_finishes s hs hl hc hb

/-! ### the composed machine (M-Sys): request side + write pump, every event list over BOTH alphabets

`Sys.srun cfg dyn evs` runs reads, timer ticks, middleware / handler completions, disconnects AND the transport's
pause / resume signals in any order.  `dyn` is the text of messages built from Python exceptions. -/

/-- nothing reaches the transport before a response is decided -/
theorem sys_silent_before_decision (cfg : Cfg) (dyn : Nat → Bytes) (evs : List Sys.SEv) (h : (Sys.srun cfg dyn evs).conn.sent = false) :
    (Sys.srun cfg dyn evs).flow.out = [] := Sys.silent_before_decision cfg dyn evs h

/-- exactly one: what was decided is one well-formed response (header, body only with 2x) … -/
theorem sys_decided_wellformed (cfg : Cfg) (dyn : Nat → Bytes) (evs : List Sys.SEv) (hs : (Sys.srun cfg dyn evs).conn.sent = true) :
    ∃ ws, (Sys.srun cfg dyn evs).conn.out = ws ++ [.close] ∧ WFWrites ws := Sys.decided_wellformed cfg dyn evs hs

/-- … what has reached the transport is, at every moment and under any flow control, a prefix of exactly that response … -/
theorem sys_written_prefix (cfg : Cfg) (dyn : Nat → Bytes) (evs : List Sys.SEv) :
    Sys.written (Sys.srun cfg dyn evs) <+: Sys.bytesOf dyn (Sys.srun cfg dyn evs).conn.out := Sys.written_prefix cfg dyn evs

/-- … the trace is writes followed by at most one `close`, which is last … -/
theorem sys_trace_shape (cfg : Cfg) (dyn : Nat → Bytes) (evs : List Sys.SEv) :
    (Sys.srun cfg dyn evs).flow.out = (Sys.srun cfg dyn evs).flow.done.map .write ++ (if (Sys.srun cfg dyn evs).flow.closed then [.close] else []) :=
  Sys.trace_shape cfg dyn evs

/-- … and the connection is closed only when the whole response has been written: never half-written -/
theorem sys_closed_complete (cfg : Cfg) (dyn : Nat → Bytes) (evs : List Sys.SEv) (hc : (Sys.srun cfg dyn evs).flow.closed = true) :
    Sys.written (Sys.srun cfg dyn evs) = Sys.bytesOf dyn (Sys.srun cfg dyn evs).conn.out := Sys.closed_complete cfg dyn evs hc

/-- after a disconnect no event writes anything -/
theorem sys_lost_quiet (cfg : Cfg) (dyn : Nat → Bytes) (evs : List Sys.SEv) (e : Sys.SEv) (hl : (Sys.srun cfg dyn evs).conn.lost = true) :
    (Sys.sstep cfg dyn (Sys.srun cfg dyn evs) e).flow.out = (Sys.srun cfg dyn evs).flow.out :=
  Sys.lost_quiet cfg dyn _ e (Sys.srun_j cfg dyn evs) hl

/-- progress: when the transport resumes and does not pause again, the response that was begun is completed and closed -/
theorem sys_resume_completes (cfg : Cfg) (dyn : Nat → Bytes) (evs : List Sys.SEv) (hs : (Sys.srun cfg dyn evs).conn.sent = true)
    (hl : (Sys.srun cfg dyn evs).conn.lost = false) (hc : (Sys.srun cfg dyn evs).flow.closed = false) (hb : (Sys.srun cfg dyn evs).flow.budget = none) :
    (Sys.sstep cfg dyn (Sys.srun cfg dyn evs) .resume).flow.closed = true ∧
      Sys.written (Sys.sstep cfg dyn (Sys.srun cfg dyn evs) .resume) = Sys.bytesOf dyn (Sys.srun cfg dyn evs).conn.out :=
  Sys.resume_completes cfg dyn _ (Sys.srun_j cfg dyn evs) hs hl hc hb
end NauyacaVerif.C01
