"""Holding back the TLS handshake of a scripted loopback peer (an extension of `client_tlspeer` used by C11).

`install(peer)` teaches a `TLSPeer` one more step, valid only as the FIRST step of a script:

  ["hold", gate-name, timeout]   the TCP connection has been accepted and the script (= the certificate that will be
                                 presented) has been chosen, but the TLS handshake is not begun before `release(gate-name)`
                                 (or `timeout` seconds have passed).  The client's ClientHello waits in the socket buffer: for
                                 the client this is a peer reached over a slow path, its handshake simply takes a while.

so that the ORDER in which the handshakes of two connections in flight complete is under the harness's control:
start the call whose peer holds, `await accepted(name)`, run whatever is to happen meanwhile, then `release(name)`.
The peers are threads, the client under test runs in an event loop: `accepted` polls, it never blocks the loop.
"""
from __future__ import annotations

import asyncio
import threading
import time


class Gate:
    def __init__(self) -> None:
        self.accepted = threading.Event()      # a connection whose script begins with this hold has been accepted
        self.released = threading.Event()


_GATES: dict[str, Gate] = {}
_LOCK = threading.Lock()


def gate(name: str) -> Gate:
    with _LOCK:
        g = _GATES.get(name)
        if g is None:
            g = _GATES[name] = Gate()
        return g


def release(name: str) -> None:
    gate(name).released.set()


def forget(name: str) -> None:
    """release (whoever still waits) and drop the gate"""
    with _LOCK:
        g = _GATES.pop(name, None)
    if g is not None:
        g.released.set()


async def accepted(name: str, timeout: float = 2.0) -> bool:
    """wait (without blocking the loop) until a connection is being held at the gate; False if none came in time"""
    g = gate(name)
    end = time.monotonic() + timeout
    while not g.accepted.is_set():
        if time.monotonic() >= end:
            return False
        await asyncio.sleep(0.002)
    return True


def install(peer) -> None:
    """idempotent; the peer's handler threads look `_handle` up on the instance at every accept"""
    if getattr(peer, "_hold_installed", False):
        return
    orig = peer._handle

    def handle(raw, script, entry):
        steps = script.get("steps") or []
        if steps and steps[0] and steps[0][0] == "hold":
            g = gate(steps[0][1])
            entry["held"] = True
            g.accepted.set()
            g.released.wait(steps[0][2] if len(steps[0]) > 2 else 5.0)
            script = dict(script, steps=list(steps[1:]))
        return orig(raw, script, entry)

    peer._handle = handle
    peer._hold_installed = True
