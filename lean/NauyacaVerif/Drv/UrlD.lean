import NauyacaVerif.Drv.Common
import NauyacaVerif.Url.Basic
namespace NauyacaVerif.Drv.UrlD
open NauyacaVerif.Drv Url

def lowerA (s : Str) : Str := s.map lowerAscii

/-- `url <cps> <ipLitOk> <nfkcOk>` -/
def handle : List String → Option String
  | ["url", u, ip, nf] =>
    let env : Env := { ipLiteralOk := fun _ => ip == "1", nfkcOk := fun _ => nf == "1", lowerU := lowerA }
    match parseUrl env (cpsChars u) with
    | .error e => some s!"err {repr e}"
    | .ok p => some s!"ok {showCps p.host} {p.port} {showCps p.path} {showCps p.query} {showCps p.normalized}"
  | _ => none
end NauyacaVerif.Drv.UrlD
