/-! # `nauyaca.utils.url.canonical_path` over code points

Python `str` values are `List Nat` of code points, byte strings `List Nat` of bytes.
Mirrors `urllib.parse.unquote` (3.12: ASCII runs are percent-decoded to bytes and decoded as
UTF-8 with `errors="replace"`, non-ASCII characters pass through) followed by the segment
folding of `canonical_path`.  Every function is structurally recursive (closed examples reduce
under `decide`).  Used by the static handler (which file) and by `CertificateAuth` (which rule). -/
namespace Fs.Canon

abbrev Cps := List Nat

def hexVal (c : Nat) : Option Nat :=
  if 48 ≤ c ∧ c ≤ 57 then some (c - 48)
  else if 97 ≤ c ∧ c ≤ 102 then some (c - 87)
  else if 65 ≤ c ∧ c ≤ 70 then some (c - 55)
  else none

/-- value of a two-digit escape at the head of `s` (the text after a `%`) -/
def escHead : List Nat → Option Nat
  | a :: b :: _ =>
    match hexVal a, hexVal b with
    | some x, some y => some (x * 16 + y)
    | _, _ => none
  | _ => none

/-- `urllib.parse.unquote_to_bytes` on an ASCII run: `%XX` becomes one byte, a `%` that is not
    followed by two hex digits stays.  `skip` = number of characters still to drop (the two hex
    digits of an escape just decoded). -/
def pctGo : Nat → List Nat → List Nat
  | _, [] => []
  | skip + 1, _ :: rest => pctGo skip rest
  | 0, c :: rest =>
    if c = 37 then
      match escHead rest with
      | some v => v :: pctGo 2 rest
      | none => 37 :: pctGo 0 rest
    else c :: pctGo 0 rest

def pctDecode (s : List Nat) : List Nat := pctGo 0 s

/-- what a byte does when the decoder is idle: `inl c` = emit code point `c`,
    `inr (need, acc, lo, hi)` = lead byte of a sequence with `need` more bytes, the next of which
    must lie in `lo..hi` -/
def lead (b : Nat) : Nat ⊕ (Nat × Nat × Nat × Nat) :=
  if b < 128 then .inl b
  else if 194 ≤ b ∧ b ≤ 223 then .inr (1, b - 192, 128, 191)
  else if b = 224 then .inr (2, 0, 160, 191)
  else if b = 237 then .inr (2, 13, 128, 159)
  else if 225 ≤ b ∧ b ≤ 239 then .inr (2, b - 224, 128, 191)
  else if b = 240 then .inr (3, 0, 144, 191)
  else if b = 244 then .inr (3, 4, 128, 143)
  else if 241 ≤ b ∧ b ≤ 243 then .inr (3, b - 240, 128, 191)
  else .inl 65533

/-- `bytes.decode("utf-8", "replace")`: one U+FFFD per maximal ill-formed subpart.
    State: `need` continuation bytes outstanding (0 = idle), accumulated value, admissible range
    of the next byte. -/
def utf8Go : Nat → Nat → Nat → Nat → List Nat → List Nat
  | need, _, _, _, [] => if need = 0 then [] else [65533]
  | need, acc, lo, hi, b :: rest =>
    if need ≠ 0 ∧ lo ≤ b ∧ b ≤ hi then
      (if need = 1 then (acc * 64 + (b - 128)) :: utf8Go 0 0 0 0 rest
       else utf8Go (need - 1) (acc * 64 + (b - 128)) 128 191 rest)
    else
      let pre := if need = 0 then [] else [65533]
      match lead b with
      | .inl c => pre ++ c :: utf8Go 0 0 0 0 rest
      | .inr (n, a, l, h) => pre ++ utf8Go n a l h rest

def utf8Dec (bs : List Nat) : List Nat := utf8Go 0 0 0 0 bs

/-- decode one ASCII run -/
def decRun (run : List Nat) : List Nat := utf8Dec (pctDecode run)

/-- `urllib.parse.unquote(s)`: `run` = the ASCII run collected so far -/
def unquoteGo : List Nat → List Nat → List Nat
  | run, [] => decRun run
  | run, c :: rest =>
    if c < 128 then unquoteGo (run ++ [c]) rest
    else decRun run ++ c :: unquoteGo [] rest

def unquote (s : Cps) : Cps := unquoteGo [] s

/-- `str.split("/")` (always at least one part) -/
def splitSlash : List Nat → List (List Nat)
  | [] => [[]]
  | c :: rest =>
    if c = 47 then [] :: splitSlash rest
    else match splitSlash rest with
      | p :: ps => (c :: p) :: ps
      | [] => [[c]]

def dot : Cps := [46]
def dotdot : Cps := [46, 46]

/-- one step of the segment loop of `canonical_path` -/
def foldSeg (acc : List Cps) (p : Cps) : List Cps :=
  if p = [] ∨ p = dot then acc
  else if p = dotdot then acc.dropLast
  else acc ++ [p]

def segsOf (parts : List Cps) : List Cps := parts.foldl foldSeg []

def dotty (p : Cps) : Bool := p = [] || p = dot || p = dotdot

/-- the segments of the canonical path and whether it ends in a slash -/
def canonSegs (raw : Cps) : List Cps × Bool :=
  let parts := splitSlash (unquote raw)
  let segs := segsOf parts
  (segs, !segs.isEmpty && dotty (parts.getLast?.getD []))

def joinSlash : List Cps → Cps
  | [] => []
  | [s] => s
  | s :: ss => s ++ 47 :: joinSlash ss

/-- the canonical path as a string: `"/" + "/".join(segments)` plus `"/"` if kept -/
def render (sp : List Cps × Bool) : Cps :=
  47 :: joinSlash sp.1 ++ (if sp.2 then [47] else [])

def canonicalPath (raw : Cps) : Cps := render (canonSegs raw)

/-- what `document_root / canonical.lstrip("/")` keeps: pathlib drops empty and `.` parts -/
def pathComps (s : Cps) : List Cps := (splitSlash s).filter (fun p => !(p = [] || p = dot))

/-! ## RFC 3986 percent-encoding of a name (for the completeness statement) -/
def hexDigit (n : Nat) : Nat := if n < 10 then 48 + n else 55 + n     -- upper case

def pctEncode (keep : Nat → Bool) : List Nat → List Nat
  | [] => []
  | b :: rest =>
    if keep b then b :: pctEncode keep rest
    else 37 :: hexDigit (b / 16) :: hexDigit (b % 16) :: pctEncode keep rest

/-- RFC 3986 `unreserved` -/
def unreserved (b : Nat) : Bool :=
  decide ((65 ≤ b ∧ b ≤ 90) ∨ (97 ≤ b ∧ b ≤ 122) ∨ (48 ≤ b ∧ b ≤ 57) ∨ b = 45 ∨ b = 46 ∨ b = 95 ∨ b = 126)

def utf8Enc1 (c : Nat) : List Nat :=
  if c < 128 then [c]
  else if c < 2048 then [192 + c / 64, 128 + c % 64]
  else if c < 65536 then [224 + c / 4096, 128 + c / 64 % 64, 128 + c % 64]
  else [240 + c / 262144, 128 + c / 4096 % 64, 128 + c / 64 % 64, 128 + c % 64]

def utf8Enc : List Nat → List Nat
  | [] => []
  | c :: rest => utf8Enc1 c ++ utf8Enc rest

/-- a Unicode scalar value (what a UTF-8 request line or a decodable file name consists of) -/
def scalar (c : Nat) : Bool := decide (c < 55296 ∨ (57344 ≤ c ∧ c < 1114112))

end Fs.Canon
