import NauyacaVerif.Gen.Fn.Evictable
import NauyacaVerif.Mw.BucketProof
/-!
The filter of the ONE comprehension in `RateLimiter._cleanup_loop` - which buckets a clean-up pass removes - TRANSLATED
(regenerated from the current source on every run), is the predicate of the model's `Mw.cleanup`: idle for more than the idle
age AND refilled to capacity by now.  Before, the second conjunct was tied to the code only by a source-shape fact
(`evictOnlyRefilled`: "some comparison in the loop mentions capacity and refill_rate"); a filter that compares the wrong way
round, uses `or`, or tests the refill against something smaller than the capacity passed that test and breaks this theorem.
-/
namespace NauyacaVerif.Translated
open NauyacaVerif.Gen

/-- the translated filter, on the model's bucket with the configuration's capacity and rate, is the (negated) predicate `Mw.cleanup`
    filters with, at the default idle age (`age_tie` in Props/C10 ties that default to the literal in the source) -/
theorem evictable_eq (c : Mw.LCfg) (hage : c.age = 600) (b : Mw.Bucket) (now : Rat) :
    Fn.evictable ⟨c.cap, c.rate, b.tokens, b.last⟩ now
      = (decide (now - b.last > c.age) && decide (b.tokens + (now - b.last) * c.rate ≥ c.cap)) := by
  simp only [Fn.evictable, hage]

/-- one pass of the clean-up loop keeps exactly the buckets the translated filter does not select -/
theorem cleanup_is_filter (c : Mw.LCfg) (hage : c.age = 600) (s : Mw.Store) (now : Rat) :
    Mw.cleanup c s now = s.filter (fun p => !Fn.evictable ⟨c.cap, c.rate, p.2.tokens, p.2.last⟩ now) := by
  unfold Mw.cleanup
  congr 1; funext p
  rw [evictable_eq c hage]

/-- what the filter guarantees: a removed bucket would hold the full capacity at any later time anyway (rate ≥ 0), so removing it -
    the next request creates a full one - adds no allowance -/
theorem evictable_full (c : Mw.LCfg) (hr : 0 ≤ c.rate) (b : Mw.Bucket) (now t : Rat) (ht : now ≤ t)
    (h : Fn.evictable ⟨c.cap, c.rate, b.tokens, b.last⟩ now = true) : b.level c t = c.cap := by
  simp only [Fn.evictable, Bool.and_eq_true, decide_eq_true_eq] at h
  unfold Mw.Bucket.level
  have h0 : 0 ≤ t - now := by linarith
  have h1 : (now - b.last) * c.rate ≤ (t - b.last) * c.rate := by nlinarith
  exact min_eq_left (by linarith [h.2])

-- non-vacuity: an idle, refilled bucket is selected; an idle but still drained one (slow refill) and a recent one are not
example : Fn.evictable ⟨10, 1, 0, 0⟩ 601 = true := by decide +kernel
example : Fn.evictable ⟨1024, 1, 0, 0⟩ 601 = false := by decide +kernel
example : Fn.evictable ⟨10, 1, 10, 0⟩ 600 = false := by decide +kernel
end NauyacaVerif.Translated
