namespace Fs
abbrev Name := String
abbrev Path := List Name          -- absolute path as components; [] = "/"

inductive Node where
  | file (id : Nat)
  | dir
  | link (target : String)        -- raw symlink text, may be relative or absolute
deriving Repr, DecidableEq

/-- the tree: a finite map from absolute component paths to nodes (parents are dirs by construction) -/
abbrev Tree := List (Path × Node)

def Tree.lstat (t : Tree) (p : Path) : Option Node :=
  if p.isEmpty then some .dir else (t.find? (·.1 == p)).map (·.2)

def splitPath (s : String) : List Name := (s.splitOn "/")

/-- port of `posixpath._joinrealpath(path, rest, strict, seen)` (Python 3.12.1); `seen` maps link
    paths to `none` (being resolved) or `some resolved`.  Returns (path, ok, seen); `ok = false` is the
    non-strict "loop" result and, with `strict`, stands for the `OSError` that is raised (a component
    that `lstat` cannot find, or a symlink loop).  Fuel bounds recursion. -/
def joinReal (t : Tree) (strict : Bool) : Nat → Path → List Name → List (Path × Option Path) →
    (Path × Bool × List (Path × Option Path))
  | 0, path, rest, seen => (path ++ rest.filter (fun n => n ≠ "" ∧ n ≠ "."), false, seen)
  | fuel + 1, path, rest, seen =>
    match rest with
    | [] => (path, true, seen)
    | name :: rest' =>
      if name = "" ∨ name = "." then joinReal t strict fuel path rest' seen
      else if name = ".." then joinReal t strict fuel path.dropLast rest' seen
      else
        let newpath := path ++ [name]
        match t.lstat newpath with
        | some (.link target) =>
          match seen.find? (·.1 == newpath) with
          | some (_, some resolved) => joinReal t strict fuel resolved rest' seen
          | some (_, none) => (newpath ++ rest', false, seen)     -- loop: leave the remainder unresolved
          | none =>
            let seen1 := (newpath, none) :: seen
            let comps := splitPath target
            let start : Path := if target.startsWith "/" then [] else path
            let (p2, ok, seen2) := joinReal t strict fuel start comps seen1
            if !ok then (p2 ++ rest', false, seen2)
            else joinReal t strict fuel p2 rest' ((newpath, some p2) :: seen2)
        | some _ => joinReal t strict fuel newpath rest' seen
        | none =>
          -- `os.lstat` raised: ignored unless strict
          if strict then (newpath ++ rest', false, seen) else joinReal t strict fuel newpath rest' seen

/-- `os.path.realpath(p)` for absolute `p` (non-strict) -/
def realpath (t : Tree) (p : List Name) : Path × Bool :=
  let (r, ok, _) := joinReal t false 200 [] p []
  (r, ok)

/-- `os.path.realpath(p, strict=True)`: `none` = raised -/
def realpathStrict (t : Tree) (p : List Name) : Option Path :=
  let (r, ok, _) := joinReal t true 200 [] p []
  if ok then some r else none

/-- kernel-style lookup following all symlinks (what `stat`/`open` see): none = ENOENT/ELOOP/ENOTDIR -/
def statFollow (t : Tree) (p : Path) : Option (Path × Node) :=
  let (r, ok) := realpath t p
  if !ok then none else
  match t.lstat r with
  | some (.link _) => none
  | some n => some (r, n)
  | none => none
end Fs
