import NauyacaVerif.Url.Proxy
import NauyacaVerif.Url.NormAll
namespace Url

/-! # C17: the path mapping against its specification, and the upstream round trip -/

theorem mapPath_nostrip (c : PCfg) (path : Str) (h : c.strip = false) : mapPath c path = path := by
  unfold mapPath; simp [h]

theorem mapPath_noprefix (c : PCfg) (path : Str) (h : ¬ c.pre <+: path) : mapPath c path = path := by
  unfold mapPath
  have : c.pre.isPrefixOf path = false := by
    cases hp : c.pre.isPrefixOf path with
    | false => rfl
    | true => exact absurd (List.isPrefixOf_iff_prefix.mp hp) h
  simp [this]

/-- the prefix is removed when it ends on a segment boundary; the result always starts with `/` -/
theorem mapPath_boundary (c : PCfg) (rem : Str) (hs : c.strip = true)
    (hb : c.pre.getLast? = some '/' ∨ rem = [] ∨ rem.head? = some '/') :
    mapPath c (c.pre ++ rem) = if rem.head? = some '/' then rem else '/' :: rem := by
  unfold mapPath
  have hp : c.pre.isPrefixOf (c.pre ++ rem) = true := List.isPrefixOf_iff_prefix.mpr (List.prefix_append _ _)
  simp only [hs, hp, Bool.and_self, ↓reduceIte, List.drop_left]
  have : (c.pre.getLast? = some '/' || rem.isEmpty || rem.head? = some '/') = true := by
    rcases hb with h | h | h
    · simp [h]
    · simp [h]
    · simp [h]
  rw [if_pos this]

/-- a prefix that ends inside a segment (`/api` against `/apikey`) is not removed -/
theorem mapPath_inside_segment (c : PCfg) (rem : Str)
    (h1 : c.pre.getLast? ≠ some '/') (h2 : rem ≠ []) (h3 : rem.head? ≠ some '/') :
    mapPath c (c.pre ++ rem) = c.pre ++ rem := by
  unfold mapPath
  by_cases hs : c.strip = true
  · have hp : c.pre.isPrefixOf (c.pre ++ rem) = true := List.isPrefixOf_iff_prefix.mpr (List.prefix_append _ _)
    simp only [hs, hp, Bool.and_self, ↓reduceIte, List.drop_left]
    have : (c.pre.getLast? = some '/' || rem.isEmpty || rem.head? = some '/') = false := by
      have e2 : rem.isEmpty = false := by cases rem with | nil => exact absurd rfl h2 | cons _ _ => rfl
      simp [h1, e2, h3]
    rw [if_neg (by simp [this])]
  · have : c.strip = false := by simpa using hs
    simp [this]

theorem mapPath_chars (c : PCfg) (path : Str) : ∀ x ∈ mapPath c path, x ∈ path ∨ x = '/' := by
  intro x hx
  unfold mapPath at hx
  split at hx
  · simp only at hx
    split at hx
    · split at hx
      · exact Or.inl (List.mem_of_mem_drop hx)
      · simp only [List.mem_cons] at hx
        rcases hx with rfl | hx
        · exact Or.inr rfl
        · exact Or.inl (List.mem_of_mem_drop hx)
    · exact Or.inl hx
  · exact Or.inl hx

theorem rstripSlash_append (a b : Str) (hne : a ≠ []) (hl : a.getLast? ≠ some '/') :
    rstripSlash (a ++ b) = a ++ rstripSlash b := by
  induction a with
  | nil => exact absurd rfl hne
  | cons x xs ih =>
    cases xs with
    | nil =>
      have hx : x ≠ '/' := by intro h; apply hl; simp [h]
      simp [rstripSlash, hx]
    | cons y ys =>
      have ih' := ih (by simp) (by simpa [List.getLast?_cons_cons] using hl)
      simp only [List.cons_append] at ih' ⊢
      rw [rstripSlash, ih']
      simp

theorem getLast?_append_ne (a b : Str) (h : b ≠ []) : (a ++ b).getLast? = b.getLast? := by
  rw [List.getLast?_append]
  cases hb : b.getLast? with
  | none => exact absurd (List.getLast?_eq_none_iff.mp hb) h
  | some x => rfl

theorem rstripSlash_slashes (k : Nat) : rstripSlash (List.replicate k '/') = [] := by
  induction k with
  | zero => rfl
  | succ k ih => simp [List.replicate_succ, rstripSlash, ih]

/-- the URL built from the raw configuration is the URL of the structured form -/
theorem proxyUrl_eq (c : PCfg) (k : Nat) (path query : Str)
    (hnl : c.nl ≠ []) (hl : (c.nl ++ c.base).getLast? ≠ some '/') :
    proxyUrl (c.upstream ++ List.replicate k '/') c.pre c.strip path query = upstreamUrl c path query := by
  unfold proxyUrl upstreamUrl
  have hne : c.upstream ≠ [] := by simp [PCfg.upstream, gemColon]
  have hl' : c.upstream.getLast? ≠ some '/' := by
    have hn2 : c.nl ++ c.base ≠ [] := by simp [hnl]
    have : c.upstream = (gemColon ++ ['/', '/']) ++ (c.nl ++ c.base) := by simp [PCfg.upstream]
    rw [this, getLast?_append_ne _ _ hn2]
    exact hl
  rw [rstripSlash_append _ _ hne hl', rstripSlash_slashes]
  simp only [List.append_nil]
  rfl

end Url

namespace Url

/-- what the theorems assume about the configured upstream: an un-bracketed ASCII authority and a
    base path (after `rstrip("/")`) free of `?`, `#` -/
structure UpstreamOK (c : PCfg) : Prop where
  nlNoDelim : c.nl.all (fun ch => !isDelim ch) = true
  nlNoBracket : c.nl.all (fun ch => ch ≠ '[' ∧ ch ≠ ']') = true
  nlAscii : c.nl.all (fun ch => ch.toNat < 128) = true
  nlSafe : ∀ ch ∈ c.nl, isUnsafe ch = false
  baseSlash : c.base = [] ∨ c.base.head? = some '/'
  baseNo : ∀ ch ∈ c.base, ch ≠ '?' ∧ ch ≠ '#' ∧ isUnsafe ch = false

theorem upstreamUrl_assemble (c : PCfg) (path query : Str) :
    upstreamUrl c path query = assemble c.nl (c.base ++ mapPath c path) query := by
  simp [upstreamUrl, PCfg.upstream, assemble, gemColon, gemPrefix, List.append_assoc]

theorem upstream_assemble (c : PCfg) : c.upstream = assemble c.nl c.base [] := by
  simp [PCfg.upstream, assemble, gemColon, gemPrefix, List.append_assoc]

theorem clean_upstream {c : PCfg} (hc : UpstreamOK c) {p q : Str}
    (hps : p = [] ∨ p.head? = some '/') (hp : ∀ ch ∈ p, ch ≠ '?' ∧ ch ≠ '#' ∧ isUnsafe ch = false)
    (hq : ∀ ch ∈ q, ch ≠ '#' ∧ isUnsafe ch = false) : Clean c.nl p q where
  nlNoDelim := hc.nlNoDelim
  nlNoBracket := hc.nlNoBracket
  nlAscii := hc.nlAscii
  pathSlash := hps
  pathNo := by apply List.all_eq_true.mpr; intro ch h; have := hp ch h; simp [this.1, this.2.1]
  queryNo := by apply List.all_eq_true.mpr; intro ch h; have := hq ch h; simp [this.1]
  safe := by
    apply List.all_eq_true.mpr; intro ch h
    simp only [List.mem_append] at h
    rcases h with (h | h) | h
    · simp [hc.nlSafe ch h]
    · simp [(hp ch h).2.2]
    · simp [(hq ch h).2]

/-- acceptance, host and port depend on the authority alone -/
theorem parseSplit_transfer (env : Env) (nl p0 q0 p q : Str) (P0 : Parsed)
    (h0 : parseSplit env ⟨gemini, nl, p0, q0, []⟩ = .ok P0) :
    ∃ P, parseSplit env ⟨gemini, nl, p, q, []⟩ = .ok P ∧ P.host = P0.host ∧ P.port = P0.port ∧
      P.path = (if p.isEmpty then ['/'] else p) ∧ P.query = q := by
  obtain ⟨_, hhost, hu1, hu2, _, ⟨port?, hport, hpe⟩, _, _, _⟩ := parseSplit_inv env _ P0 h0
  simp only at hhost hu1 hu2 hport
  refine ⟨⟨P0.host, P0.port, if p.isEmpty then ['/'] else p, q,
    unsplit gemini (if P0.port ≠ 1965 then rebracket nl P0.host ++ [':'] ++ natToStr P0.port else rebracket nl P0.host)
      (if p.isEmpty then ['/'] else p) q []⟩, ?_, rfl, rfl, rfl, rfl⟩
  unfold parseSplit
  have hg : (gemini.isEmpty) = false := rfl
  simp only [hg, Bool.false_eq_true, ↓reduceIte, ne_eq, not_true_eq_false, hhost]
  have hnu : ¬ (((userinfo nl).1.getD []).length > 0 ∨ ((userinfo nl).2.getD []).length > 0) := by omega
  rw [if_neg hnu]
  simp only [List.isEmpty_nil, Bool.not_true, Bool.false_eq_true, ↓reduceIte, hport, hpe]

/-- **C17 `proxy_roundtrip`**: when the configured upstream URL is itself acceptable, the URL built for
    any request path/query is accepted, names the same host and port, and the request line the proxy's
    client sends (`normalized`) parses at the upstream to exactly (base ++ mapped path, query) -/
theorem proxy_roundtrip (env : Env) (hl : AsciiLower env) (c : PCfg) (hc : UpstreamOK c) (path query : Str)
    (ht : PlainTail path query) (P0 : Parsed) (h0 : parseUrl env c.upstream = .ok P0) :
    ∃ P, parseUrl env (upstreamUrl c path query) = .ok P ∧ P.host = P0.host ∧ P.port = P0.port ∧
      P.path = c.base ++ mapPath c path ∧ P.query = query ∧ parseUrl env P.normalized = .ok P := by
  have hm := mapPath_slash c path ht.slash
  have hmne : mapPath c path ≠ [] := by intro h; rw [h] at hm; simp at hm
  -- the mapped path and the base path are clean
  have hpath : ∀ ch ∈ c.base ++ mapPath c path, ch ≠ '?' ∧ ch ≠ '#' ∧ isUnsafe ch = false := by
    intro ch h
    simp only [List.mem_append] at h
    rcases h with h | h
    · exact hc.baseNo ch h
    · rcases mapPath_chars c path ch h with h | rfl
      · exact ht.pathNo ch h
      · decide
  have hps : c.base ++ mapPath c path = [] ∨ (c.base ++ mapPath c path).head? = some '/' := by
    right
    rcases hc.baseSlash with hb | hb
    · rw [hb]; simpa using hm
    · cases hbb : c.base with
      | nil => rw [hbb] at hb; simp at hb
      | cons x xs => rw [hbb] at hb; simpa using hb
  have hcl := clean_upstream hc hps hpath ht.queryNo
  have hcl0 : Clean c.nl c.base [] := clean_upstream hc hc.baseSlash hc.baseNo (by simp)
  -- the configured upstream splits into its authority and base path
  have hs0 : parseSplit env ⟨gemini, c.nl, c.base, [], []⟩ = .ok P0 := by
    unfold parseUrl at h0
    split at h0
    · simp at h0
    · rw [upstream_assemble, urlsplit_assemble env hcl0] at h0
      exact h0
  obtain ⟨P, hP, hh, hpo, hpp, hq⟩ := parseSplit_transfer env c.nl c.base [] (c.base ++ mapPath c path) query P0 hs0
  have hsp : urlsplit env (upstreamUrl c path query) = .ok ⟨gemini, c.nl, c.base ++ mapPath c path, query, []⟩ := by
    rw [upstreamUrl_assemble]; exact urlsplit_assemble env hcl
  have hparse : parseUrl env (upstreamUrl c path query) = .ok P := by
    unfold parseUrl
    have hne : (upstreamUrl c path query).isEmpty = false := by simp [upstreamUrl, PCfg.upstream, gemColon]
    simp only [hne, Bool.false_eq_true, ↓reduceIte, hsp]
    exact hP
  have hpne : (c.base ++ mapPath c path).isEmpty = false := by
    cases hx : c.base ++ mapPath c path with
    | nil => simp at hx; exact absurd hx.2 hmne
    | cons _ _ => rfl
  refine ⟨P, hparse, hh, hpo, by rw [hpp, hpne]; rfl, hq, ?_⟩
  exact norm_idem_plain env hl _ P _ hsp
    (fun ch h => by simpa using List.all_eq_true.mp hc.nlAscii ch h)
    (fun h => by have := List.all_eq_true.mp hc.nlNoBracket _ h; simp at this) hparse

/-- the configured upstream and every URL built from it have the same authority -/
theorem netloc_upstream (c : PCfg) (hnl : c.nl.all (fun ch => !isDelim ch) = true)
    (hbase : c.base = [] ∨ c.base.head? = some '/') (hsafe : noUnsafe c.upstream) :
    netlocOf c.upstream = c.nl := by
  unfold netlocOf
  have hpre : preprocess c.upstream = c.upstream := by
    apply preprocess_id _ hsafe
    intro ch hch
    simp [PCfg.upstream, gemColon] at hch
    subst hch; decide
  rw [hpre]
  have hform : c.upstream = gemColon ++ (['/', '/'] ++ c.nl ++ c.base) := by
    simp [PCfg.upstream, List.append_assoc]
  rw [hform, splitScheme_gemini]
  exact splitNetloc_slash hnl hbase

end Url
