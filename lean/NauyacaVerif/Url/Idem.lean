import NauyacaVerif.Url.Output
namespace Url

/-! # C19 for un-bracketed ASCII authorities: normalising is accepted, meaning-preserving, idempotent -/

def Special (c : Char) : Prop := isDelim c = true ∨ c = '@' ∨ c = ':' ∨ c = '[' ∨ c = ']' ∨ c = '%' ∨ isUnsafe c = true

theorem upper_cases (c : Char) (h : 'A' ≤ c ∧ c ≤ 'Z') : ∃ k, 65 ≤ k ∧ k ≤ 90 ∧ c = Char.ofNat k := by
  refine ⟨c.toNat, ?_, ?_, (Char.ofNat_toNat c).symm⟩
  · have := Char.le_def.mp h.1
    have := UInt32.le_iff_toNat_le.mp this
    simpa using this
  · have := Char.le_def.mp h.2
    have := UInt32.le_iff_toNat_le.mp this
    simpa using this

/-- the three facts about ASCII lower-casing that normalisation needs, checked letter by letter -/
theorem lowerAscii_facts (c : Char) :
    (Special (lowerAscii c) ↔ Special c) ∧ (c.toNat < 128 → (lowerAscii c).toNat < 128) ∧
    lowerAscii (lowerAscii c) = lowerAscii c := by
  by_cases h : 'A' ≤ c ∧ c ≤ 'Z'
  · obtain ⟨k, h1, h2, rfl⟩ := upper_cases c h
    interval_cases k <;> (refine ⟨?_, ?_, ?_⟩ <;> simp [Special, lowerAscii, isDelim, isUnsafe] <;> decide)
  · have e : lowerAscii c = c := by unfold lowerAscii; rw [if_neg h]
    rw [e]; exact ⟨Iff.rfl, id, e⟩
end Url

namespace Url

/-- environments whose lower-casing is the ASCII one (the modelled domain of C19) -/
def AsciiLower (env : Env) : Prop := ∀ s, env.lowerU s = s.map lowerAscii

theorem map_lower_noSpecial {s : Str} (h : ∀ c ∈ s, ¬ Special c) : ∀ c ∈ s.map lowerAscii, ¬ Special c := by
  intro c hc
  simp only [List.mem_map] at hc
  obtain ⟨d, hd, rfl⟩ := hc
  exact fun hs => h d hd ((lowerAscii_facts d).1.mp hs)

theorem map_lower_ascii {s : Str} (h : ∀ c ∈ s, c.toNat < 128) : ∀ c ∈ s.map lowerAscii, c.toNat < 128 := by
  intro c hc
  simp only [List.mem_map] at hc
  obtain ⟨d, hd, rfl⟩ := hc
  exact (lowerAscii_facts d).2.1 (h d hd)

theorem map_lower_idem (s : Str) : (s.map lowerAscii).map lowerAscii = s.map lowerAscii := by
  simp only [List.map_map]
  apply List.map_congr_left
  intro c _
  exact (lowerAscii_facts c).2.2

theorem rsplitOnce_spec {c : Char} {s a b : Str} (h : rsplitOnce c s = some (a, b)) : s = a ++ c :: b ∧ c ∉ b := by
  unfold rsplitOnce at h
  cases hs : splitOnce c s.reverse with
  | none => simp [hs] at h
  | some xy =>
    obtain ⟨x, y⟩ := xy
    simp only [hs, Option.some.injEq, Prod.mk.injEq] at h
    obtain ⟨rfl, rfl⟩ := h
    obtain ⟨e, hn⟩ := splitOnce_spec hs
    refine ⟨?_, by simpa using hn⟩
    have := congrArg List.reverse e
    simpa using this

theorem hostPart_sub (nl : Str) : ∀ c ∈ hostPart nl, c ∈ nl := by
  intro c hc
  unfold hostPart at hc
  cases hr : rsplitOnce '@' nl with
  | none => rw [hr] at hc; exact hc
  | some ab =>
    obtain ⟨a, b⟩ := ab
    rw [hr] at hc
    obtain ⟨e, _⟩ := rsplitOnce_spec hr
    rw [e]; simp [show c ∈ b from hc]

theorem rebracket_nobracket {nl H : Str} (hb : '[' ∉ nl) : rebracket nl H = H := by
  unfold rebracket
  rw [if_neg]
  intro h
  exact hb (hostPart_sub nl _ (by simpa using h))

/-- `normHost` is idempotent for the ASCII lower-casing -/
theorem normHost_idem (env : Env) (hl0 : AsciiLower env) (h : Str) : normHost env (normHost env h) = normHost env h := by
  have hl : ∀ s, env.lowerU s = s.map lowerAscii := hl0
  unfold normHost
  cases hs : splitOnce '%' h with
  | none =>
    have hn := splitOnce_none_iff hs
    simp only [hl]
    have hn' : '%' ∉ h.map lowerAscii := by
      intro hm
      simp only [List.mem_map] at hm
      obtain ⟨d, hd, hdd⟩ := hm
      have : Special (lowerAscii d) := by rw [hdd]; unfold Special; simp
      have := (lowerAscii_facts d).1.mp this
      -- the only way `d` can be special with lower d = '%' is d = '%'
      by_cases hup : 'A' ≤ d ∧ d ≤ 'Z'
      · obtain ⟨k, h1, h2, rfl⟩ := upper_cases d hup
        interval_cases k <;> simp [lowerAscii] at hdd
      · have e : lowerAscii d = d := by unfold lowerAscii; rw [if_neg hup]
        rw [e] at hdd; subst hdd; exact hn hd
    rw [splitOnce_none hn']
    exact map_lower_idem h
  | some az =>
    obtain ⟨a, z⟩ := az
    obtain ⟨e, hna⟩ := splitOnce_spec hs
    simp only [hl]
    have hna' : '%' ∉ a.map lowerAscii := by
      intro hm
      simp only [List.mem_map] at hm
      obtain ⟨d, hd, hdd⟩ := hm
      by_cases hup : 'A' ≤ d ∧ d ≤ 'Z'
      · obtain ⟨k, h1, h2, rfl⟩ := upper_cases d hup
        interval_cases k <;> simp [lowerAscii] at hdd
      · have e : lowerAscii d = d := by unfold lowerAscii; rw [if_neg hup]
        rw [e] at hdd; subst hdd; exact hna hd
    have : splitOnce '%' (a.map lowerAscii ++ ['%'] ++ z) = some (a.map lowerAscii, z) := by
      simpa using splitOnce_hit (b := z) hna'
    rw [this]
    simp only
    rw [map_lower_idem]
end Url

namespace Url

def Special2 (c : Char) : Prop := isDelim c = true ∨ c = '@' ∨ c = ':' ∨ c = '[' ∨ c = ']' ∨ isUnsafe c = true

theorem lowerAscii_special2 (c : Char) : Special2 (lowerAscii c) ↔ Special2 c := by
  by_cases h : 'A' ≤ c ∧ c ≤ 'Z'
  · obtain ⟨k, h1, h2, rfl⟩ := upper_cases c h
    interval_cases k <;> (simp [Special2, lowerAscii, isDelim, isUnsafe] <;> decide)
  · have e : lowerAscii c = c := by unfold lowerAscii; rw [if_neg h]
    rw [e]

theorem not_special2 {c : Char} (h : ¬ Special2 c) :
    isDelim c = false ∧ c ≠ '@' ∧ c ≠ ':' ∧ c ≠ '[' ∧ c ≠ ']' ∧ isUnsafe c = false := by
  unfold Special2 at h
  simp only [not_or] at h
  obtain ⟨a, b, c', d, e, f⟩ := h
  exact ⟨by simpa using a, b, c', d, e, by simpa using f⟩

/-- the raw host of an accepted, un-bracketed authority -/
theorem hostRaw_facts {nl : Str} (hnb : '[' ∉ nl) (hbr : '[' ∈ nl ↔ ']' ∈ nl)
    (hnd : ∀ c ∈ nl, isDelim c = false) (hsafe : ∀ c ∈ nl, isUnsafe c = false) (hascii : ∀ c ∈ nl, c.toNat < 128) :
    ∀ c ∈ (hostinfo nl).hostRaw, ¬ Special2 c ∧ c.toNat < 128 := by
  have hnc : ']' ∉ nl := fun h => hnb (hbr.mpr h)
  -- the part after the last '@'
  have hhi : ∃ hi, (∀ c ∈ hi, c ∈ nl) ∧ '@' ∉ hi ∧
      (hostinfo nl).hostRaw = (cutAt ':' hi).1 := by
    unfold hostinfo
    cases hr : rsplitOnce '@' nl with
    | none =>
      have hno : '@' ∉ nl := by
        intro hm
        unfold rsplitOnce at hr
        cases hs : splitOnce '@' nl.reverse with
        | none => exact splitOnce_none_iff hs (by simpa using hm)
        | some xy => simp [hs] at hr
      refine ⟨nl, fun c hc => hc, hno, ?_⟩
      simp only
      rw [splitOnce_none hnb]
      simp only [cutAt]
      try (cases splitOnce ':' nl with
        | none => rfl
        | some ab => obtain ⟨a, b⟩ := ab; rfl)
    | some ab =>
      obtain ⟨a, b⟩ := ab
      obtain ⟨e, hnb'⟩ := rsplitOnce_spec hr
      have hsub : ∀ c ∈ b, c ∈ nl := fun c hc => by rw [e]; simp [hc]
      refine ⟨b, hsub, hnb', ?_⟩
      simp only
      have : '[' ∉ b := fun h => hnb (hsub _ h)
      rw [splitOnce_none this]
      simp only [cutAt]
      try (cases splitOnce ':' b with
        | none => rfl
        | some xy => obtain ⟨x, y⟩ := xy; rfl)
  obtain ⟨hi, hsub, hat, he⟩ := hhi
  obtain ⟨c1, c2, _, c4⟩ := cutAt_spec ':' hi
  intro c hc
  rw [he] at hc
  have hci : c ∈ hi := (c2 (fun x => x ∈ hi) (fun x hx => hx)).1 c hc
  have hcn : c ∈ nl := hsub c hci
  refine ⟨?_, hascii c hcn⟩
  unfold Special2
  simp only [not_or]
  refine ⟨by simp [hnd c hcn], ?_, ?_, ?_, ?_, by simp [hsafe c hcn]⟩
  · intro h; subst h; exact hat hci
  · intro h; subst h; exact c1 hc
  · intro h; subst h; exact hnb hcn
  · intro h; subst h; exact hnc hcn
end Url

namespace Url

theorem hostname_eq_normHost (env : Env) (nl : Str) (host : Str) (h : hostname env nl = some host) :
    (hostinfo nl).hostRaw ≠ [] ∧ host = normHost env (hostinfo nl).hostRaw := by
  unfold hostname at h
  simp only at h
  split at h
  · simp at h
  · rename_i hne
    refine ⟨by intro he; rw [he] at hne; simp at hne, ?_⟩
    unfold normHost
    split at h <;> simp_all

theorem normHost_chars (env : Env) (hl0 : AsciiLower env) (h : Str)
    (hc : ∀ c ∈ h, ¬ Special2 c ∧ c.toNat < 128) : ∀ c ∈ normHost env h, ¬ Special2 c ∧ c.toNat < 128 := by
  have hl : ∀ s, env.lowerU s = s.map lowerAscii := hl0
  have hmap : ∀ s : Str, (∀ c ∈ s, ¬ Special2 c ∧ c.toNat < 128) → ∀ c ∈ s.map lowerAscii, ¬ Special2 c ∧ c.toNat < 128 := by
    intro s hs c hcm
    simp only [List.mem_map] at hcm
    obtain ⟨d, hd, rfl⟩ := hcm
    exact ⟨fun hsp => (hs d hd).1 ((lowerAscii_special2 d).mp hsp), (lowerAscii_facts d).2.1 (hs d hd).2⟩
  unfold normHost
  cases hs : splitOnce '%' h with
  | none => simp only [hl]; exact hmap h hc
  | some az =>
    obtain ⟨a, z⟩ := az
    obtain ⟨e, _⟩ := splitOnce_spec hs
    simp only [hl]
    intro c hcm
    simp only [List.mem_append, List.mem_singleton] at hcm
    rcases hcm with (hcm | rfl) | hcm
    · exact hmap a (fun d hd => hc d (by rw [e]; simp [hd])) c hcm
    · exact ⟨by unfold Special2; decide, by decide⟩
    · exact hc c (by rw [e]; simp [hcm])

theorem normHost_ne_nil (env : Env) (hl0 : AsciiLower env) (h : Str) (hne : h ≠ []) : normHost env h ≠ [] := by
  have hl : ∀ s, env.lowerU s = s.map lowerAscii := hl0
  unfold normHost
  cases hs : splitOnce '%' h with
  | none => simp only [hl]; simpa using hne
  | some az => obtain ⟨a, z⟩ := az; simp

theorem portOf_le (nl : Str) (p : Option Nat) (h : portOf nl = .ok p) : p.getD 1965 ≤ 65535 := by
  unfold portOf at h
  split at h
  · injection h with h; subst h; simp
  · split at h
    · simp only at h
      split at h
      · injection h with h; subst h; simpa
      · simp [throw, throwThe, MonadExceptOf.throw] at h
    · simp [throw, throwThe, MonadExceptOf.throw] at h

/-- C19, un-bracketed ASCII authorities: whatever `parse_url` accepts, its components are in canonical
    shape and its `normalized` string is the canonical spelling of exactly those components -/
theorem parseSplit_output (env : Env) (hl : AsciiLower env) (sp : Split) (P : Parsed)
    (hok : SplitOK sp) (hascii : ∀ c ∈ sp.netloc, c.toNat < 128) (hnb : '[' ∉ sp.netloc)
    (h : parseSplit env sp = .ok P) :
    PlainHost env P.host ∧ P.port ≤ 65535 ∧ PlainTail P.path P.query ∧
      P.normalized = assemble (authorityOf P.host P.port) P.path P.query := by
  unfold parseSplit at h
  split at h
  · simp at h
  · split at h
    · simp at h
    · split at h
      · simp at h
      · rename_i host hhost
        split at h
        · simp at h
        · split at h
          · simp at h
          · rename_i hfrag
            split at h
            · simp at h
            · rename_i port? hport
              injection h with h
              subst h
              simp only
              obtain ⟨hrawne, hhosteq⟩ := hostname_eq_normHost env sp.netloc host hhost
              have hsafeN : ∀ c ∈ sp.netloc, isUnsafe c = false := fun c hc => hok.safe c (by simp [hc])
              have hraw := hostRaw_facts hnb hok.brackets hok.nlNoDelim hsafeN hascii
              have hchars := normHost_chars env hl _ hraw
              have hfragE : sp.fragment = [] := by simpa using hfrag
              have hplain : PlainHost env host := by
                rw [hhosteq]
                refine ⟨normHost_ne_nil env hl _ hrawne, ?_, normHost_idem env hl _⟩
                intro c hc
                obtain ⟨h1, h2⟩ := hchars c hc
                obtain ⟨a, b, c', d, e, f⟩ := not_special2 h1
                exact ⟨a, b, c', d, e, h2, f⟩
              have hnlne : sp.netloc ≠ [] := by
                intro he
                apply hrawne
                rw [he]; simp [hostinfo, rsplitOnce, splitOnce, findIdx]
              have hpath : PlainTail (if sp.path.isEmpty then ['/'] else sp.path) sp.query := by
                refine ⟨?_, ?_, ?_⟩
                · by_cases hpe : sp.path.isEmpty = true
                  · simp [hpe]
                  · simp only [hpe, Bool.false_eq_true, ↓reduceIte]
                    rcases hok.pathHead hnlne with h0 | h0
                    · rw [h0] at hpe; simp at hpe
                    · exact h0
                · intro c hc
                  by_cases hpe : sp.path.isEmpty = true
                  · simp only [hpe, ↓reduceIte, List.mem_singleton] at hc; subst hc; decide
                  · simp only [hpe, Bool.false_eq_true, ↓reduceIte] at hc
                    refine ⟨fun hh => hok.pathNo.1 (hh ▸ hc), fun hh => hok.pathNo.2 (hh ▸ hc), hok.safe c (by simp [hc])⟩
                · intro c hc
                  exact ⟨fun hh => hok.queryNo (hh ▸ hc), hok.safe c (by simp [hc])⟩
              refine ⟨hplain, portOf_le _ _ hport, hpath, ?_⟩
              rw [hfragE, rebracket_nobracket hnb]
              have hauth : (if port?.getD 1965 ≠ 1965 then host ++ [':'] ++ natToStr (port?.getD 1965) else host)
                  = authorityOf host (port?.getD 1965) := rfl
              rw [hauth]
              have hne : authorityOf host (port?.getD 1965) ≠ [] := by
                unfold authorityOf; split
                · simp
                · exact hplain.ne
              exact unsplit_assemble hne hpath.slash

/-- **C19 (`norm_accepted`, `norm_same`, `norm_idem`)** for every URL whose authority is ASCII and
    un-bracketed: the normalised form is accepted, parses to the same record, and is its own normal form -/
theorem norm_idem_plain (env : Env) (hl : AsciiLower env) (u : Str) (P : Parsed) (sp : Split)
    (hsp : urlsplit env u = .ok sp) (hascii : ∀ c ∈ sp.netloc, c.toNat < 128) (hnb : '[' ∉ sp.netloc)
    (h : parseUrl env u = .ok P) : parseUrl env P.normalized = .ok P := by
  have hsplit : parseSplit env sp = .ok P := by
    unfold parseUrl at h
    split at h
    · simp at h
    · rw [hsp] at h; exact h
  obtain ⟨hH, hn, ht, hnorm⟩ := parseSplit_output env hl sp P (urlsplit_spec env u sp hsp) hascii hnb hsplit
  rw [hnorm, parse_canonical env hH P.port hn ht]
  congr 1
  cases P
  simp only at hnorm ⊢
  rw [hnorm]

end Url
