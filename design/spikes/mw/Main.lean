import Mw.Bucket
import Mw.Acl
import Mw.Cert
open Mw
def parseRat (s : String) : Rat :=
  match s.splitOn "/" with
  | [a, b] => (a.toInt!.toNat : Rat) / (b.toNat! : Rat) * (if a.startsWith "-" then -1 else 1)
  | [a] => (a.toInt! : Rat)
  | _ => 0
partial def loop (h : IO.FS.Stream) : IO Unit := do
  let line ← h.getLine
  if line.isEmpty then return ()
  match line.trimAscii.toString.splitOn " " with
  | "bucket" :: cap :: rate :: evs =>
    let c : LCfg := { cap := parseRat cap, rate := parseRat rate }
    let evs := evs.map (fun e => match e.splitOn "@" with
      | ["c", t] => LEv.cleanup (parseRat t)
      | [ip, t] => LEv.req ip.toNat! (parseRat t)
      | _ => LEv.cleanup 0)
    IO.println ("ok " ++ String.mk ((runL c [] evs).map (fun b => if b then '1' else '0')))
  | _ => IO.println "bad-op"
  loop h
def main : IO Unit := do loop (← IO.getStdin)
