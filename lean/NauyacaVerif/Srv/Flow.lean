import NauyacaVerif.Srv.Render
import NauyacaVerif.Srv.Conn

/-! M-Flow: the response write pump of `GeminiServerProtocol` (`_send_response` / `_pump_response` /
    `pause_writing` / `resume_writing`): the response is cut into pieces (header, then the body in pieces of
    `writeChunk` bytes) which are handed to the transport while it accepts them; the connection is closed
    after the last piece was accepted while the transport was not paused.

    The request timer is part of the model: it is armed when the connection is made, cancelled when the request is
    decided (`send`: a response exists) or the peer is lost, and when it fires first the timeout response goes through the
    same pump.  Nothing re-arms it: a response that is being written is never cut off by the clock (`tick_after_send`).

    The transport is a parameter: `limit k` says "`pause_writing` will be signalled during the (k+1)-th
    `write` from now" (asyncio signals it synchronously inside `write`); without a limit it never pauses. -/
namespace Srv.Flow

/-- `WRITE_CHUNK_SIZE` -/
def writeChunk : Nat := 65536

inductive W where
  | write (b : Bytes)
  | close
deriving Repr, DecidableEq

/-- `body[i : i + n] for i in range(0, len(body), n)` -/
def chunkFuel (n : Nat) : Nat → Bytes → List Bytes
  | 0, _ => []
  | fuel + 1, b => if b.isEmpty then [] else b.take n :: chunkFuel n fuel (b.drop n)

def chunk (n : Nat) (b : Bytes) : List Bytes := chunkFuel n b.length b

/-- the pieces of a response: `[header] + chunks(body)` -/
def pieces (r : Resp) : List Bytes := (render r).1 :: chunk writeChunk (render r).2

structure FSt where
  started : Bool := false        -- `_response_sent`
  unsent : List Bytes := []      -- `_unsent`
  paused : Bool := false         -- `_write_paused`
  budget : Option Nat := none    -- transport: pause is signalled during write number budget+1 (none: never)
  out : List W := []
  closed : Bool := false
  lost : Bool := false
  timer : Option Nat := some requestTimeout8   -- the request timer: eighths of a second left (none: cancelled)
  all : List Bytes := []         -- ghost: the pieces handed over by `_send_response`
  done : List Bytes := []        -- ghost: the pieces written so far
deriving Repr

/-- `_pump_response` -/
def pump (s : FSt) : FSt :=
  if s.paused || s.lost || s.closed || !s.started then s else
  match s.budget with
  | none => { s with out := s.out ++ s.unsent.map .write ++ [.close], unsent := [], closed := true, done := s.done ++ s.unsent }
  | some k =>
    if k < s.unsent.length then
      -- the (k+1)-th write triggers pause_writing: that piece is still written, then the loop stops
      { s with out := s.out ++ (s.unsent.take (k + 1)).map .write, unsent := s.unsent.drop (k + 1), paused := true, budget := none,
               done := s.done ++ s.unsent.take (k + 1) }
    else
      { s with out := s.out ++ s.unsent.map .write ++ [.close], unsent := [], closed := true, budget := some (k - s.unsent.length),
               done := s.done ++ s.unsent }

inductive FEv where
  | send (ps : List Bytes)       -- `_send_response` with these pieces (ignored if a response was already sent)
  | limit (k : Nat)              -- the transport will signal pause during the (k+1)-th write from now
  | resume                       -- `resume_writing`
  | pause                        -- `pause_writing` outside a write (the transport's buffer filled by itself)
  | lost                         -- `connection_lost`
  | tick (dt : Nat)              -- `dt` eighths of a second pass on the event loop's clock
deriving Repr

/-- the only piece of the response `_handle_timeout` sends -/
def timeoutPieces : List Bytes := pieces ⟨40, strOf "Request timeout", .none⟩

def fstep (s : FSt) : FEv → FSt
  | .send ps => if s.started || s.lost then s else pump { s with started := true, unsent := ps, all := ps, timer := none }
  | .limit k => { s with budget := some k }
  | .resume => pump { s with paused := false }
  | .pause => { s with paused := true }
  | .lost => { s with lost := true, timer := none }
  | .tick dt =>
    match s.timer with
    | none => s
    | some r =>
      if dt < r then { s with timer := some (r - dt) }
      else if s.started || s.lost then { s with timer := none }
      else pump { s with started := true, unsent := timeoutPieces, all := timeoutPieces, timer := none }

def frun (evs : List FEv) : FSt := evs.foldl fstep {}

end Srv.Flow
