import NauyacaVerif.Gen.Fn.ClientParseHeader
import NauyacaVerif.Gen.Fn.TitanClientParseHeader
import NauyacaVerif.Cl.ClientSeg
set_option linter.unusedSimpArgs false
set_option linter.unusedVariables false
/-!
`_parse_header` of both client protocol classes, TRANSLATED (regenerated from the current source on every run), is the model's
`Cl.parseHeader`: the status is exactly two ASCII digits, a meta is mandatory below 40 and never contains CR or LF, the status
must lie in 10–69 — in this order, with these error kinds.  Assumed about Python: `str.split(" ", 1)`, `isascii`/`isdigit`/`int`
on the status token (see `_PARSE_HEADER` in harness/translate.py).
-/
namespace NauyacaVerif.Translated
open NauyacaVerif.Gen.Fn Cl

theorem span_loop_all (p : Nat → Bool) (l acc : Bytes) (h : ∀ a ∈ l, p a = true) :
    List.span.loop p l acc = (acc.reverse ++ l, []) := by
  induction l generalizing acc with
  | nil => simp [List.span.loop]
  | cons a t ih =>
    have ha : p a = true := h a (by simp)
    rw [List.span.loop, ha]
    simp only
    rw [ih (a :: acc) (fun x hx => h x (by simp [hx]))]
    simp

theorem span_no_sep (h : Bytes) (hs : h.contains 32 = false) : h.span (· ≠ 32) = (h, []) := by
  have hall : ∀ a ∈ h, (decide (a ≠ 32)) = true := by
    intro a ha
    simp only [ne_eq, decide_not, Bool.not_eq_eq_eq_not, Bool.not_true, decide_eq_false_iff_not]
    intro e; subst e
    have : h.contains 32 = true := by simpa using ha
    rw [this] at hs; cases hs
  unfold List.span
  rw [span_loop_all _ h [] hall]; simp

theorem splitSpace_no_sep (h : Bytes) (hs : hasSep h = false) : (splitSpace h).2 = [] := by
  unfold splitSpace; rw [span_no_sep h hs]

theorem client_parse_header_eq (s : CSt) (l : Bytes) : (clientParseHeader s l).1 = parseHeader s l := by
  cases hst : statusOf (splitSpace l).1 with
  | none => simp [clientParseHeader, parseHeader, twoDigits, intOf, hst]
  | some st =>
    simp only [clientParseHeader, parseHeader, twoDigits, intOf, hst, Option.isSome_some, Bool.not_true, Bool.false_eq_true, if_false, Option.getD_some]
    cases hsep : hasSep l with
    | true =>
      simp only [if_true, headerBad, metaBad, hsep, Bool.not_true, Bool.false_and, Bool.false_or]
      cases hb : ((splitSpace l).2.contains 13 || (splitSpace l).2.contains 10) with
      | true => simp [hb]
      | false =>
        simp only [hb, Bool.false_eq_true, if_false]
        by_cases hr : 10 ≤ st ∧ st < 70
        · simp [hr]
        · rcases Nat.lt_or_ge st 10 with h1 | h1
          · simp [hr, show ¬ 10 ≤ st by omega]
          · have h2 : ¬ st < 70 := by omega
            simp [hr, h1, h2]
    | false =>
      have he := splitSpace_no_sep l hsep
      simp only [Bool.false_eq_true, if_false, headerBad, metaBad, hsep, Bool.not_false, Bool.true_and, he, List.contains_nil, Bool.or_false]
      by_cases h40 : st < 40
      · simp [h40]
      · simp only [h40, decide_false, Bool.false_eq_true, if_false]
        by_cases hr : 10 ≤ st ∧ st < 70
        · simp [hr]
        · rcases Nat.lt_or_ge st 10 with h1 | h1
          · omega
          · have h2 : ¬ st < 70 := by omega
            simp [hr, h1, h2]

theorem titan_client_parse_header_eq (s : CSt) (l : Bytes) : (titanClientParseHeader s l).1 = parseHeader s l := by
  have : titanClientParseHeader s l = clientParseHeader s l := rfl
  rw [this]; exact client_parse_header_eq s l
end NauyacaVerif.Translated
