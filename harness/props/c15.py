"""C15  Silent peers are always disconnected within the timeout."""
from __future__ import annotations

import random

from ..core import Family
from ..sim import pump as P
from ..sim import srv as sim
from .pumpfam import PumpFamily, gen_pump_case
from .srvfam import ConnFamily, gen_resp

ID = "C15"
READY = True
LEAN_TARGETS = ["NauyacaVerif.Props.C15"]
THEOREMS = ['NauyacaVerif.C15.armed_while_waiting', 'NauyacaVerif.C15.armed_before_deadline', 'NauyacaVerif.C15.silent_closed', 'NauyacaVerif.C15.timeout_response', 'NauyacaVerif.C15.no_timeout_after_complete', 'NauyacaVerif.C15.tick_noop_after_complete', 'NauyacaVerif.C15.never_rearmed', 'NauyacaVerif.C15.pump_armed', 'NauyacaVerif.C15.pump_handshake_timeout_closes', 'NauyacaVerif.C15.pump_inner_timer', 'NauyacaVerif.C15.requestTimeout_tie', 'NauyacaVerif.C15.flow_tick_after_send', 'NauyacaVerif.C15.flow_tick_fires', 'NauyacaVerif.C15.sys_timeout_closes']
LEAN_TARGETS = LEAN_TARGETS + ["NauyacaVerif.Props.Tr.DataReceived"]
TRANSLATED = ["dataReceived"]
THEOREMS = THEOREMS + ["NauyacaVerif.Translated.data_received_refines", "NauyacaVerif.Translated.data_received_rel"]
EXTRACT = ["requestTimeout8"]
LEVEL_TEXT = "Proved over explicit time (1/8 s ticks) for every event list: the request timer is armed exactly while waiting for the line or Titan body on a connected unanswered connection, never re-armed, the deadline has not passed while it is armed, a connection still waiting at the deadline is gone, the timeout response is exactly '40 Request timeout' + close, no timeout once the request is complete; PyOpenSSL pump: handshake timer armed until the handshake completes and closing when it fires. Correspondence: stall after every byte offset of Gemini and Titan requests under a virtual clock with boundary ticks (239/240), trickling, expiry ordered before/after late data, completion and disconnect; stall at each TLS handshake flight of the real pump. Partial: the stdlib backend's handshake timeout is asyncio.sslproto's (only its presence is observable live)."
LEVEL_NOTE = "Trusted: Lean kernel (axioms propext, Classical.choice, Quot.sound only); the hand-written model Srv.step/Srv.pumpStep is tied to /repo by extraction (constants, 'every transport.write sits in _send_response') and by the correspondence run of every check (fake transport with asyncio's write-after-close semantics, virtual-clock loop, scripted handlers; real PyOpenSSL pump over memory BIOs); asyncio's transport/timer contract, OpenSSL's record layer and Python exception texts are assumed, see assumptions."
TECHNIQUE = 'Lean 4 proof (invariant induction over all event lists of an executable connection state machine) + differential correspondence with the real asyncio protocol objects under a virtual clock'
ASSUMPTIONS = [
    "asyncio call_later fires no earlier than its deadline and not after cancel(); the harness runs due timers right after advancing the virtual clock (1/8 s grid)",
    "stdlib TLS backend: the handshake timeout is asyncio.sslproto's own (60 s default) and is only observed live in the thorough tier; the PyOpenSSL backend's handshake timer is nauyaca's and is covered by family pumpstall",
]

BIG = [(b"titan://h/big;size=100000\r\n" + b"z" * 300, None), (b"titan://h/big;size=5000000;mime=text/plain\r\n" + b"z" * 50, None)]
REQS = [  # (request bytes, number of bytes that make the request complete)
    (b"gemini://h/\r\n", 13), (b"gemini://h/some/longer/path?query=1\r\n", None), (b"titan://h/f;size=5\r\nhello", None),
    (b"titan://h/f;size=0\r\n", None), (b"titan://h/f;size=3;mime=text/plain;token=t\r\nabcTRAIL", None), (b"http://h/\r\n", None),
    # non-ASCII request lines: a stall can fall in the middle of a multi-byte character
    ("gemini://h/caf\u00e9/\u65e5\u672c?q=\U0001f600\r\n".encode(), None), ("titan://h/\u00fc;size=2\r\n".encode() + b"\xc3\xa9", None),
]


def need_of(req: bytes) -> int:
    i = req.find(b"\r\n")
    line = req[:i]
    if line.startswith(b"titan://") and b";size=" in line:
        n = int(line.split(b";size=")[1].split(b";")[0])
        return i + 2 + n
    return i + 2


class Stall(ConnFamily):
    """stall after every byte offset of representative requests; timer expiry ordered before/after late data,
    handler completion and disconnect (virtual time, exhaustive over offsets)"""

    name = "stall"
    quick_n = 1200
    thorough_n = 20000

    def gen(self, rng: random.Random, n: int):
        # exhaustive part: every offset of every request, exact boundary ticks
        cases = []
        for req, _ in BIG:   # a large declared upload, part of the body, then silence
            for k in (len(req), len(req) - 10, req.find(b"\r\n") + 2):
                cases.append({"mw": False, "up": True, "handler": ["a"], "evs": [["d", req[:k].hex()], ["tick", 239], ["tick", 1], ["tick", 2000]], "req": req.hex(), "need": need_of(req)})
        for req, _ in REQS:
            need = need_of(req)
            for k in range(0, len(req) + 1):
                for pattern in (0, 1, 2):
                    evs = [["d", req[:k].hex()]] if k else []
                    if pattern == 0:
                        evs += [["tick", 239], ["tick", 1]]
                    elif pattern == 1:
                        evs += [["tick", 240], ["d", req[k:].hex() or "00"]]          # late data after the deadline
                    else:
                        evs += [["tick", 100], ["d", (req[k:k + 1]).hex() or "00"], ["tick", 139], ["tick", 1], ["tick", 500]]  # trickle: never re-armed
                    cases.append({"mw": False, "up": True, "handler": ["a"], "evs": evs, "req": req.hex(), "need": need})
        mine = list(self.share(cases))
        for j, c in enumerate(mine):
            if j % 16 == 5:
                c = dict(c, newloop=True)      # this connection belongs to a later lifetime of the server in the same process
            yield c
        for _ in range(max(0, n - len(mine))):
            req, _ = rng.choice(REQS)
            need = need_of(req)
            mw = rng.random() < 0.4
            chunks, p = [], 0
            while p < len(req):
                q = min(len(req), p + rng.randint(1, 12))
                chunks.append(req[p:q])
                p = q
            if rng.random() < 0.5:
                chunks = chunks[: rng.randint(0, len(chunks))]
            evs = []
            for ch in chunks:
                evs.append(["d", ch.hex()])
                if rng.random() < 0.5:
                    evs.append(["tick", rng.choice([1, 8, 80, 120, 239, 240])])
            tail = [["tick", rng.choice([1, 100, 240, 241, 1000])]]
            if mw:
                tail.append(rng.choice([["ma"], ["mr"], ["md", "53 no\r\n"]]))
            tail += [rng.choice([["ha", [20, "text/gemini", ["s", "ok"]]], ["ua", [20, "text/gemini", None]], ["l"], ["tick", 300], ["hr"]])]
            tail.append(["tick", rng.choice([1, 240, 2000])])
            rng.shuffle(tail)
            if rng.random() < 0.25:
                # the wall clock is stepped (NTP sync, `date -s`) somewhere along the way: deadlines live on the loop's monotonic clock
                allevs = evs + tail
                allevs.insert(rng.randint(0, len(allevs)), ["wall", rng.choice([-86400, -3600, -45, -31, 31, 45, 3600])])
                evs, tail = allevs, []
            yield {"mw": mw, "up": rng.random() < 0.8, "handler": rng.choice([["a"], ["a"], ["s", [20, "text/gemini", ["s", "hi"]]]]), "evs": evs + tail,
                   "req": req.hex(), "need": need}

    def oracle(self, case, obs):
        # replay the clock: how many bytes had arrived when the deadline passed, was the peer still there?
        now, got, lost_before = 0, 0, False
        passed = False
        for idx, e in enumerate(case["evs"]):
            if e[0] == "tick":
                now += e[1]
                if now >= 240 and not passed:
                    passed = True
                    got_at_deadline, lost_at_deadline = got, lost_before
                    acts_at_deadline = obs["lens"][idx]
            elif e[0] == "d" and not passed:
                got += len(bytes.fromhex(e[1]))
            elif e[0] == "l" and not passed:
                lost_before = True
        req = bytes.fromhex(case["req"])
        timeout_written = any(a[0] == "w" and b"Request timeout" in bytes.fromhex(a[1]) for a in obs["acts"])
        if passed and not lost_at_deadline:
            complete = got_at_deadline >= case["need"] or (req[:got_at_deadline].find(b"\r\n") >= 0 and not req.startswith(b"titan://"))
            # an invalid / refused request line is answered at once, which also ends the wait
            if not complete:
                if not obs["acts"] or obs["acts"][-1] != ["close"] or acts_at_deadline != len(obs["acts"]):
                    return ("silent-kept", f"peer silent with {got_at_deadline}/{case['need']} request bytes is still connected when the clock passes the deadline (writes at that moment: {acts_at_deadline}, finally: {obs['acts']})")
                pr = sim.parse_response(b"".join(bytes.fromhex(a[1]) for a in obs["acts"] if a[0] == "w"))
                if pr is None:
                    return ("silent-malformed", "timeout response malformed")
            else:
                if timeout_written:
                    return ("timeout-after-complete", "the request was complete before the deadline, yet a timeout response was written")
        if not passed and timeout_written:
            return ("timeout-early", f"timeout response before the deadline (clock {now}/240)")
        return self.oracle_c01(case, obs)

    def key(self, case, obs):
        now = sum(e[1] for e in case["evs"] if e[0] == "tick")
        tw = any(a[0] == "w" and b"Request timeout" in bytes.fromhex(a[1]) for a in obs["acts"])
        return f"{case['req'][:10]}|clock{'>=' if now >= 240 else '<'}240|timeout{int(tw)}|resp{int(bool(obs['acts']))}|h{obs['h']}u{obs['u']}"


class PumpStall(PumpFamily):
    """PyOpenSSL backend: a peer that stalls before or during the TLS handshake, or after it with an incomplete
    request, is dropped at the timeout (with a 40 response when a TLS session exists)"""

    name = "pumpstall"
    quick_n = 120
    thorough_n = 2000

    # what a peer has sent when it goes silent after the handshake: nothing, part of a request line, part of an upload body
    SILENT = [b"", b"gemini://loc", b"gemini://localhost/x", b"titan://localhost/f;size=10\r\nabc"]

    def gen(self, rng, n):
        # every client certificate the pump knows - none, the readable ones, and the one OpenSSL accepts but `cryptography` cannot
        # parse - then silence at each of the points above; for the unreadable one also a complete request (whatever the server
        # does with such a peer, it may not keep the connection for ever)
        fixed = []
        for cert in (None, 0, 1, 2, 3, 4, P.UNREADABLE):
            for req in self.SILENT + ([b"gemini://localhost/x\r\n"] if cert == P.UNREADABLE else []):
                for cuts in (0, 3):
                    c = gen_pump_case(random.Random(f"{cert}/{req!r}/{cuts}"))
                    c.update({"cert": cert, "app": [req.hex()] if req else [], "close_notify": False, "post": [["t"]], "incomplete": True,
                              "up": True, "maxcuts": cuts, "fatal": True, "stall": None, "plaintext": None})
                    if req.endswith(b"\r\n"):
                        # a complete request is answered at once by a handler that returns its response: nothing is left pending
                        c.update({"mw": False, "handler": ["s", [20, "text/gemini", ["s", "ok"]]]})
                    if cuts and cert in (None, 2, P.UNREADABLE):
                        c["wallstep"] = 45 if cert is None else -3600
                    fixed.append(c)
        mine = list(self.share(fixed))
        for c in mine:
            yield c
        for i in range(max(0, n - len(mine))):
            c = gen_pump_case(rng)
            k = i % 3
            c["fatal"] = True
            if rng.random() < 0.15:
                c["cert"] = P.UNREADABLE
            if k == 0:
                c["stall"] = [rng.choice([1, 2]), rng.choice([0.0, 0.3, 0.5, 0.9, 0.99])]
            else:
                # handshake done, request incomplete, then silence
                req = rng.choice([b"gemini://localhost/x", b"gemini://loc", b"titan://localhost/f;size=10\r\nabc", b""])
                c["app"] = [req.hex()] if req else []
                c["close_notify"] = False
                c["post"] = [["t"]]
                c["incomplete"] = True
                c["up"] = True
            if i % 4 == 1:
                c["wallstep"] = rng.choice([-86400, -3600, -45, 45, 3600])
            yield c

    def model_obs(self, case, obs):
        # the pump model knows nothing about certificates that cannot be parsed (it would answer such a peer like any other); what
        # the property demands of these cases is stated by the oracle alone
        if case.get("cert") == P.UNREADABLE:
            return None
        return super().model_obs(case, obs)

    def oracle(self, case, obs):
        if case.get("stall"):
            if not obs["tcpclosed"]:
                return ("handshake-stall-kept", f"peer silent during TLS handshake flight {case['stall'][0]} is still connected after the timeout")
            return None
        if case.get("incomplete"):
            plain = bytes.fromhex(obs["plain"]) if obs["plain"] != "-" else b""
            pr = sim.parse_response(plain)
            sent = b"".join(bytes.fromhex(a) for a in case.get("app", []))
            if case.get("cert") == P.UNREADABLE:
                # a certificate the server cannot read: it may drop the peer as soon as the handshake ends (then there is no silent
                # peer left to time out), but a peer that is still connected when the time is up gets the 40 and is disconnected
                if not obs["tcpclosed"]:
                    return ("silent-kept", f"peer presenting a client certificate that OpenSSL accepts and cryptography cannot parse, silent after "
                                           f"the TLS handshake having sent {sent!r}: still connected after handshake + request timeout "
                                           f"(decrypted by the peer: {plain[:40]!r}, escaped from data_received: {obs['exc']})")
                early = obs.get("closed_at") is not None and "i:t" in obs["pevs"] and obs["closed_at"] < obs["pevs"].index("i:t")
                if not early and (pr is None or pr[0] != 40):
                    return ("silent-kept", f"peer with an unreadable client certificate, silent having sent {sent!r}, was kept until the timeout "
                                           f"and then dropped without the 40 response: {plain[:40]!r}")
                return None
            if not obs["tcpclosed"] or pr is None or pr[0] != 40:
                return ("silent-kept", f"silent peer with an incomplete request after the handshake: closed={obs['tcpclosed']} response={plain[:40]!r}")
        return None


class FlowTick(Family):
    """the write pump under flow control WITH time passing: a peer that sent a complete request and reads its (large)
    answer slowly -- the transport keeps writing paused for minutes -- is never cut off by the request timer; a peer that
    sent nothing gets the timeout response through the same pump (also when the transport is paused at that moment)"""

    name = "flowtick"
    quick_n = 300
    thorough_n = 6000

    def __init__(self):
        from . import c01
        self._flow = c01.Flow()

    def gen(self, rng: random.Random, n: int):
        fixed = []
        for size in (0, 65537, 200000, 400000):
            for evs in ([["lim", 0], ["s"], ["tick", 241], ["rw"]], [["lim", 1], ["s"], ["tick", 239], ["tick", 2], ["rw"], ["tick", 100000], ["rw"]],
                        [["tick", 239], ["lim", 0], ["s"], ["tick", 1], ["tick", 240], ["rw"], ["rw"]], [["tick", 240], ["s"]], [["pw"], ["tick", 240], ["rw"]],
                        [["pw"], ["tick", 100], ["s"], ["tick", 200], ["rw"]], [["tick", 100], ["l"], ["tick", 200]], [["tick", 239], ["s"], ["tick", 1]]):
                fixed.append({"resp": [20, "application/octet-stream", ["z", size]], "evs": evs})
        for c in self.share(fixed):
            yield c
        for _ in range(n):
            size = rng.choice([0, 1, 65536, 65537, 131073, 200000, 400000, rng.randint(0, 500000)])
            evs = []
            for _ in range(rng.randint(0, 2)):
                evs.append(rng.choice([["tick", rng.choice([1, 100, 120, 239, 240])], ["lim", rng.randint(0, 3)], ["pw"], ["rw"]]))
            evs.append(["s"])
            for _ in range(rng.randint(1, 9)):
                r = rng.random()
                evs.append(["tick", rng.choice([1, 8, 100, 239, 240, 241, 480, 2400, 100000])] if r < 0.45 else ["rw"] if r < 0.75 else
                           ["lim", rng.randint(0, 3)] if r < 0.9 else ["pw"] if r < 0.95 else ["l"])
            yield {"resp": [rng.choice([20, 20, 51]), "application/octet-stream", ["z", size]], "evs": evs}

    def impl(self, case):
        return self._flow.impl(case)

    def model(self, case):
        return self._flow.model(case)

    def expect(self, case, out):
        return self._flow.expect(case, out)

    def same(self, exp, obs):
        return self._flow.same(exp, obs)

    def oracle(self, case, obs):
        # stated from the property alone: a timeout line may only appear when the request ("s") did not precede the deadline
        t, sent_at = 0, None
        for e in case["evs"]:
            if e[0] == "tick":
                t += e[1]
            elif e[0] == "s" and sent_at is None and t < 240:
                sent_at = t
            elif e[0] == "l" and sent_at is None:
                break
        raw = bytes.fromhex(obs["raw"])
        if sent_at is not None:
            if raw.startswith(b"40 Request timeout"):
                return ("timeout-after-complete", f"the request was complete at {sent_at / 8} s, yet the timeout response was written")
            st, meta, body = case["resp"]
            want = f"{st} {meta}\r\n".encode() + (b"Z" * body[1] if 20 <= st <= 29 else b"")
            if "close" in obs["acts"] and raw != want:
                return ("answer-cut-by-timer", f"a complete request was being answered ({len(raw)} of {len(want)} bytes written) when the connection was closed")
        return self._flow.oracle(case, obs) if sent_at is not None else None

    def key(self, case, obs):
        return self._flow.key(case, obs) + f"|ticks{min(3, sum(1 for e in case['evs'] if e[0] == 'tick'))}"


FAMILIES = [Stall(), PumpStall(), FlowTick()]
