"""Additions to the scripted-peer world of client_tlspeer.py for the configuration dimensions of C03 / C11.

* `ensure(w)`  adds to a `client_tlspeer.world()`:
    - a private CA and three server certificates ISSUED BY IT (`ca_rsa`, `ca_ec`, `ca_ec2`; subjectAltName covers
      localhost, 127.0.0.1, 127.0.0.2 and the look-alike names below), servable by the scripted peers like every
      other certificate of the CertStore;
    - `w["pki"]`: `ca_file` (PEM, for SSL_CERT_FILE / load_verify_locations), `ca_pem`, and a client identity
      `ident_cert` / `ident_key` (PEM files: what `GeminiClient(client_cert=…, client_key=…)` takes).
  The files live in one temp directory per process, removed at exit.
* `install_resolver(names)`  makes `socket.getaddrinfo` answer 127.0.0.1 for the given host names (names that
  do not exist in the DNS: look-alike names containing `_` or `%`, IPv6 literals with a zone id), so that the
  real client can "connect to" them and reaches the scripted loopback peers.  Everything else is resolved as usual.
"""
from __future__ import annotations

import atexit
import datetime
import hashlib
import ipaddress
import os
import shutil
import socket
import ssl
import tempfile
from pathlib import Path

from .client_tlspeer import CertInfo

CA_CERTS = ("ca_rsa", "ca_ec", "ca_ec2")

# LOOK-ALIKE CERTIFICATES: different certificates (other DER, other SHA-256) that agree with another certificate of the
# pool in everything a careless comparison might look at instead of the DER:
#   tw_serial_rsa / tw_serial_ec   copy subject, issuer, SERIAL NUMBER, validity and extensions of `rsa` / `ec`; own new key
#   tw_serial_ca                   issued by the harness CA with the subject, serial number, validity and SAN of `ca_ec`; own new key
#   tw_base, tw_key                a fresh self-signed certificate and its RE-ISSUE with the SAME KEY, subject and validity
#                                  but another serial number
TWIN_CERTS = ("tw_serial_rsa", "tw_serial_ec", "tw_serial_ca", "tw_base", "tw_key")
# name -> the certificate it is a look-alike of
TWIN_OF = {"tw_serial_rsa": "rsa", "tw_serial_ec": "ec", "tw_serial_ca": "ca_ec", "tw_key": "tw_base"}

# host names that differ only in a character SQL's LIKE treats as a wildcard (`_` one character, `%` any run)
LOOKALIKES = ["my_host.test", "my-host.test", "myxhost.test", "my%host.test", "fe80::1%lo", "fe80::1%xlo"]

# absolute DNS names (trailing dot): another spelling in the URL, the same loopback peers
DOTTED = ["localhost.", "my-host.test."]


def _name(cn):
    from cryptography import x509
    from cryptography.x509.oid import NameOID

    return x509.Name([x509.NameAttribute(NameOID.COMMON_NAME, cn)])


def _pem_key(key) -> bytes:
    from cryptography.hazmat.primitives import serialization

    return key.private_bytes(serialization.Encoding.PEM, serialization.PrivateFormat.PKCS8, serialization.NoEncryption())


def _make_ca():
    from cryptography import x509
    from cryptography.hazmat.primitives import hashes
    from cryptography.hazmat.primitives.asymmetric import ec

    key = ec.generate_private_key(ec.SECP256R1())
    now = datetime.datetime.now(datetime.timezone.utc)
    cert = (x509.CertificateBuilder().subject_name(_name("nv harness CA")).issuer_name(_name("nv harness CA")).public_key(key.public_key())
            .serial_number(x509.random_serial_number()).not_valid_before(now - datetime.timedelta(days=1))
            .not_valid_after(now + datetime.timedelta(days=30))
            .add_extension(x509.BasicConstraints(ca=True, path_length=None), critical=True)
            .add_extension(x509.KeyUsage(digital_signature=True, key_cert_sign=True, crl_sign=True, content_commitment=False, key_encipherment=False,
                                         data_encipherment=False, key_agreement=False, encipher_only=False, decipher_only=False), critical=True)
            .add_extension(x509.SubjectKeyIdentifier.from_public_key(key.public_key()), critical=False)
            .sign(key, hashes.SHA256()))
    return key, cert


def _make_leaf(ca_key, ca_cert, kind: str, cn: str, server: bool):
    from cryptography import x509
    from cryptography.hazmat.primitives import hashes
    from cryptography.hazmat.primitives.asymmetric import ec, rsa

    key = rsa.generate_private_key(65537, 2048) if kind == "rsa" else ec.generate_private_key(ec.SECP256R1())
    now = datetime.datetime.now(datetime.timezone.utc)
    b = (x509.CertificateBuilder().subject_name(_name(cn)).issuer_name(ca_cert.subject).public_key(key.public_key())
         .serial_number(x509.random_serial_number()).not_valid_before(now - datetime.timedelta(days=1))
         .not_valid_after(now + datetime.timedelta(days=30))
         .add_extension(x509.BasicConstraints(ca=False, path_length=None), critical=True)
         .add_extension(x509.AuthorityKeyIdentifier.from_issuer_public_key(ca_key.public_key()), critical=False))
    if server:
        sans = [x509.DNSName("localhost"), x509.IPAddress(ipaddress.ip_address("127.0.0.1")), x509.IPAddress(ipaddress.ip_address("127.0.0.2"))]
        sans += [x509.DNSName(n) for n in LOOKALIKES if "%" not in n and ":" not in n]
        b = b.add_extension(x509.SubjectAlternativeName(sans), critical=False)
    return key, b.sign(ca_key, hashes.SHA256())


def _look_alike(orig_der: bytes, kind: str, sign_key=None, key=None, new_serial: bool = False):
    """a certificate with the subject, issuer, validity, extensions and (unless new_serial) serial number of `orig_der`
    around another key (or, with `key`, the same key); signed by `sign_key` (default: self-signed)"""
    from cryptography import x509
    from cryptography.hazmat.primitives import hashes
    from cryptography.hazmat.primitives.asymmetric import ec, rsa

    orig = x509.load_der_x509_certificate(orig_der)
    if key is None:
        key = rsa.generate_private_key(65537, 2048) if kind == "rsa" else ec.generate_private_key(ec.SECP256R1())
    b = (x509.CertificateBuilder().subject_name(orig.subject).issuer_name(orig.issuer).public_key(key.public_key())
         .serial_number(x509.random_serial_number() if new_serial else orig.serial_number)
         .not_valid_before(orig.not_valid_before_utc).not_valid_after(orig.not_valid_after_utc))
    for ext in orig.extensions:
        b = b.add_extension(ext.value, ext.critical)
    return key, b.sign(sign_key or key, hashes.SHA256())


def ensure(w: dict) -> dict:
    """idempotent; returns w["pki"]"""
    if "pki" in w:
        return w["pki"]
    from cryptography.hazmat.primitives import serialization

    d = tempfile.mkdtemp(prefix="nv-pki-")
    ca_key, ca_cert = _make_ca()
    ca_pem = ca_cert.public_bytes(serialization.Encoding.PEM)
    Path(d, "ca.pem").write_bytes(ca_pem)
    store = w["certs"]

    def made():
        for name, kind in zip(CA_CERTS, ("rsa", "ec", "ec")):
            yield (name, *_make_leaf(ca_key, ca_cert, kind, "localhost", server=True))
        yield ("tw_serial_rsa", *_look_alike(store.certs["rsa"].der, "rsa"))
        yield ("tw_serial_ec", *_look_alike(store.certs["ec"].der, "ec"))
        yield ("tw_serial_ca", *_look_alike(store.certs["ca_ec"].der, "ec", sign_key=ca_key))
        bkey, bcert = _look_alike(store.certs["ec"].der, "ec", new_serial=True)
        yield ("tw_base", bkey, bcert)
        yield ("tw_key", *_look_alike(bcert.public_bytes(serialization.Encoding.DER), "ec", key=bkey, new_serial=True))

    for name, key, cert in made():
        der = cert.public_bytes(serialization.Encoding.DER)
        cp, kp = f"{d}/{name}.pem", f"{d}/{name}.key"
        Path(cp).write_bytes(cert.public_bytes(serialization.Encoding.PEM))
        Path(kp).write_bytes(_pem_key(key))
        store.certs[name] = CertInfo(name, cp, kp, der, "sha256:" + hashlib.sha256(der).hexdigest(), True)
        c = ssl.SSLContext(ssl.PROTOCOL_TLS_SERVER)
        c.minimum_version = ssl.TLSVersion.TLSv1_2
        c.num_tickets = 0
        c.load_cert_chain(cp, kp)
        store._ctx[name] = c
    ikey, icert = _make_leaf(ca_key, ca_cert, "ec", "nv harness user", server=False)
    Path(d, "ident.pem").write_bytes(icert.public_bytes(serialization.Encoding.PEM))
    Path(d, "ident.key").write_bytes(_pem_key(ikey))
    w["pki"] = {"dir": d, "ca_file": f"{d}/ca.pem", "ca_pem": ca_pem.decode(), "ident_cert": f"{d}/ident.pem", "ident_key": f"{d}/ident.key"}

    def _cleanup(pid=os.getpid()):
        if os.getpid() == pid:
            shutil.rmtree(d, ignore_errors=True)

    from .. import core as _core

    _core.at_exit(_cleanup)
    return w["pki"]


# ----------------------------------------------------------------------------
# name resolution
# ----------------------------------------------------------------------------
_REAL_GETADDRINFO = socket.getaddrinfo
_NAMES: set[str] = set()


def _getaddrinfo(host, port, family=0, type=0, proto=0, flags=0):  # noqa: A002
    h = host.decode() if isinstance(host, bytes) else host
    if isinstance(h, str) and h.lower() in _NAMES:
        return _REAL_GETADDRINFO("127.0.0.1", port, socket.AF_INET, type, proto, flags & ~getattr(socket, "AI_CANONNAME", 0))
    return _REAL_GETADDRINFO(host, port, family, type, proto, flags)


def install_resolver(names=LOOKALIKES) -> None:
    """process-wide and idempotent: the given names resolve to 127.0.0.1 from now on"""
    _NAMES.update(n.lower() for n in names)
    if socket.getaddrinfo is not _getaddrinfo:
        socket.getaddrinfo = _getaddrinfo
