import Mathlib.Tactic.IntervalCases
namespace Key
abbrev Str := List Char

def digitChar (d : Nat) : Char := Char.ofNat (48 + d)

/-- decimal digits, most significant first -/
def natToDec (n : Nat) : Str :=
  if h : n < 10 then [digitChar n] else natToDec (n / 10) ++ [digitChar (n % 10)]
termination_by n
decreasing_by omega

def digitVal (c : Char) : Nat := c.toNat - 48
def decToNat (s : Str) : Nat := s.foldl (fun n c => n * 10 + digitVal c) 0

theorem digitVal_digitChar (d : Nat) (h : d < 10) : digitVal (digitChar d) = d := by
  interval_cases d <;> decide

theorem decToNat_append (a : Str) (c : Char) : decToNat (a ++ [c]) = decToNat a * 10 + digitVal c := by
  simp [decToNat, List.foldl_append]

theorem decToNat_natToDec (n : Nat) : decToNat (natToDec n) = n := by
  induction n using Nat.strongRecOn with
  | _ n ih =>
    rw [natToDec]
    split
    · rename_i h; simp [decToNat, digitVal_digitChar n h]
    · rename_i h
      rw [decToNat_append, ih (n / 10) (by omega), digitVal_digitChar _ (by omega)]
      omega

theorem natToDec_inj {a b : Nat} (h : natToDec a = natToDec b) : a = b := by
  have := congrArg decToNat h
  simpa [decToNat_natToDec] using this

theorem digitChar_ne_colon (d : Nat) (h : d < 10) : digitChar d ≠ ':' := by
  interval_cases d <;> decide

theorem natToDec_no_colon (n : Nat) : ∀ c ∈ natToDec n, c ≠ ':' := by
  induction n using Nat.strongRecOn with
  | _ n ih =>
    rw [natToDec]
    split
    · rename_i h; intro c hc; simp at hc; subst hc; exact digitChar_ne_colon n h
    · rename_i h
      intro c hc
      simp at hc
      rcases hc with hc | hc
      · exact ih (n/10) (by omega) c hc
      · subst hc; exact digitChar_ne_colon _ (by omega)

/-- splitting at the last colon is unique -/
theorem last_colon_unique (a b x y : Str) (hx : ∀ c ∈ x, c ≠ ':') (hy : ∀ c ∈ y, c ≠ ':')
    (h : a ++ ':' :: x = b ++ ':' :: y) : a = b ∧ x = y := by
  induction a generalizing b with
  | nil =>
    cases b with
    | nil => simpa using h
    | cons c cs =>
      simp at h
      obtain ⟨rfl, h2⟩ := h
      exfalso
      have : ':' ∈ x := by rw [h2]; simp
      exact hx ':' this rfl
  | cons c cs ih =>
    cases b with
    | nil =>
      simp at h
      obtain ⟨rfl, h2⟩ := h
      exfalso
      have : ':' ∈ y := by rw [← h2]; simp
      exact hy ':' this rfl
    | cons d ds =>
      simp at h
      obtain ⟨rfl, h2⟩ := h
      obtain ⟨r1, r2⟩ := ih ds h2
      exact ⟨by rw [r1], r2⟩

def key (h : Str) (p : Nat) : Str := h ++ ':' :: natToDec p

theorem key_injective {h₁ h₂ : Str} {p₁ p₂ : Nat} (h : key h₁ p₁ = key h₂ p₂) : h₁ = h₂ ∧ p₁ = p₂ := by
  obtain ⟨a, b⟩ := last_colon_unique h₁ h₂ _ _ (natToDec_no_colon p₁) (natToDec_no_colon p₂) h
  exact ⟨a, natToDec_inj b⟩

example : key ['a', ':', '1'] 2 ≠ key ['a'] 12 := by
  intro h; have := (key_injective h).1; simp at this
end Key
