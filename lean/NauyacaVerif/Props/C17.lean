import NauyacaVerif.Url.ProxyProof
import NauyacaVerif.Url.Router
import NauyacaVerif.Gen.Params
import NauyacaVerif.Gen.ProxyGen

/-! # C17  The reverse proxy only talks to its upstream and maps URLs faithfully

Models: `Url.route` (M-Router: `Router.route/_matches`, first registered match wins),
`Url.mapPath` / `Url.upstreamUrl` / `Url.proxyUrl` (M-Proxy: the URL construction of
`ProxyHandler.__init__/_handle_async`), `Url.parseUrl` (M-Url: what the proxy's client then does with
that URL).  A proxy configuration is `PCfg = (authority, base path after rstrip("/"), location
prefix, strip flag)`; `proxy_url_raw` ties it to the raw configured string. -/

namespace NauyacaVerif.C17
open Url

theorem defaultPort_tie : (1965 : Nat) = Gen.defaultPort := by decide
/- Where the URL's parts come from (`self.upstream`, the parsed `request.path`, `request.query`) used to be three extracted
   source-shape ties here.  They are subsumed by the translation of the URL construction (`Translated.upstreamUrl_eq`): the translator
   knows exactly these names, any other source (e.g. `request.raw_url`) is not translatable and fails the obligation
   `translate:upstreamUrl`; unlike the extracted shapes the translation survives the code being split into private helpers. -/

/-- whatever path and query the client sends, the URL the proxy fetches has the configured authority:
    host, port and user-info are functions of the authority, so the request cannot steer the proxy -/
theorem proxy_host_fixed (c : PCfg) (path query : Str)
    (hnl : c.nl.all (fun ch => !isDelim ch) = true)
    (hbase : c.base = [] ∨ c.base.head? = some '/')
    (hp : path.head? = some '/')
    (hsafe : noUnsafe (upstreamUrl c path query))
    (hsafe0 : noUnsafe c.upstream) :
    netlocOf (upstreamUrl c path query) = netlocOf c.upstream := by
  rw [Url.proxy_host_fixed c path query hnl hbase hp hsafe, netloc_upstream c hnl hbase hsafe0]

/-- which location serves a path is decided by registration order alone: the chosen route is the
    first one that matches, for every (overlapping) route list -/
theorem router_first_match (rs : List Route) (path : Str) (k : Nat) :
    route rs path = some k ↔
      ∃ a r b, rs = a ++ r :: b ∧ k = a.length ∧ routeMatches path r = true ∧ ∀ x ∈ a, routeMatches path x = false := by
  unfold route
  rw [routeFrom_some]
  simp

/-- the default handler runs exactly when no route matches -/
theorem router_default (rs : List Route) (path : Str) :
    route rs path = none ↔ ∀ r ∈ rs, routeMatches path r = false := routeFrom_none

/-- a PREFIX route matches exactly the paths that start with its pattern -/
theorem prefix_route_matches (pat path : Str) : routeMatches path ⟨pat, .pfx⟩ = true ↔ pat <+: path := by
  simp [routeMatches, List.isPrefixOf_iff_prefix]

/-- the fetched URL is the upstream base, the mapped path, and the query when there is one: nothing
    else is added, dropped or re-encoded -/
theorem proxy_url (c : PCfg) (path query : Str) :
    upstreamUrl c path query = c.upstream ++ mapPath c path ++ (if query.isEmpty then [] else '?' :: query) := rfl

/-- the same for the raw configured string (any number of trailing slashes is removed first) -/
theorem proxy_url_raw (c : PCfg) (k : Nat) (path query : Str)
    (hnl : c.nl ≠ []) (hl : (c.nl ++ c.base).getLast? ≠ some '/') :
    proxyUrl (c.upstream ++ List.replicate k '/') c.pre c.strip path query = upstreamUrl c path query :=
  proxyUrl_eq c k path query hnl hl

/-- `strip?`: the location prefix is removed exactly when stripping is on and the prefix ends on a
    segment boundary of the path; otherwise the path is forwarded unchanged -/
theorem proxy_map (c : PCfg) :
    (c.strip = false → ∀ path, mapPath c path = path) ∧
    (∀ path, ¬ c.pre <+: path → mapPath c path = path) ∧
    (c.strip = true → ∀ rem, (c.pre.getLast? = some '/' ∨ rem = [] ∨ rem.head? = some '/') →
        mapPath c (c.pre ++ rem) = if rem.head? = some '/' then rem else '/' :: rem) ∧
    (∀ rem, c.pre.getLast? ≠ some '/' → rem ≠ [] → rem.head? ≠ some '/' → mapPath c (c.pre ++ rem) = c.pre ++ rem) :=
  ⟨fun h path => mapPath_nostrip c path h, fun path h => mapPath_noprefix c path h,
   fun h rem hb => mapPath_boundary c rem h hb, fun rem h1 h2 h3 => mapPath_inside_segment c rem h1 h2 h3⟩

/-- the mapped path always starts with `/`, so it can never extend the authority -/
theorem proxy_map_slash (c : PCfg) (path : Str) (h : path.head? = some '/') : (mapPath c path).head? = some '/' :=
  mapPath_slash c path h

/-- for every request the server accepted (components `R`), every configuration with an acceptable
    un-bracketed ASCII upstream: the built URL is accepted by the proxy's client, names the upstream's
    host and port, and the request line sent upstream parses there to (base ++ mapped path, query) -/
theorem proxy_roundtrip (env : Env) (hl : AsciiLower env) (c : PCfg) (hc : UpstreamOK c)
    (line : Str) (R : Parsed) (hR : parseUrl env line = .ok R)
    (P0 : Parsed) (h0 : parseUrl env c.upstream = .ok P0) :
    ∃ P, parseUrl env (upstreamUrl c R.path R.query) = .ok P ∧ P.host = P0.host ∧ P.port = P0.port ∧
      P.path = c.base ++ mapPath c R.path ∧ P.query = R.query ∧ parseUrl env P.normalized = .ok P :=
  Url.proxy_roundtrip env hl c hc R.path R.query (parse_tail_plain env line R hR) P0 h0

/-! ## non-vacuity -/

def api : Str := ['/','a','p','i']
def cfg : PCfg := ⟨['b',':','7','0'], ['/','v','1'], api, true⟩
example : mapPath cfg ['/','a','p','i','k','e','y'] = ['/','a','p','i','k','e','y'] := by decide
example : mapPath cfg ['/','a','p','i','/','x'] = ['/','x'] := by decide
example : mapPath cfg ['/','a','p','i'] = ['/'] := by decide
example : upstreamUrl cfg ['/','a','p','i','/','x',';','p'] ['q','?'] =
    ['g','e','m','i','n','i',':','/','/','b',':','7','0','/','v','1','/','x',';','p','?','q','?'] := by decide
example : proxyUrl (cfg.upstream ++ ['/','/']) api true ['/','a','p','i','/','x'] [] =
    ['g','e','m','i','n','i',':','/','/','b',':','7','0','/','v','1','/','x'] := by decide
example : UpstreamOK cfg := ⟨by decide, by decide, by decide, by decide, Or.inr (by decide), by decide⟩

def rs : List Route := [⟨['/','a','p','i','/'], .pfx⟩, ⟨['/'], .pfx⟩, ⟨['/','a','p','i','/','x'], .exact⟩]
example : route rs ['/','a','p','i','/','x'] = some 0 := by decide
example : route rs ['/','a','p','i'] = some 1 := by decide
example : route rs ['x'] = none := by decide
example : route rs.reverse ['/','a','p','i','/','x'] = some 0 := by decide
end NauyacaVerif.C17
