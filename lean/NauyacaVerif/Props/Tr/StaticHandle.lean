import NauyacaVerif.Gen.Fn.StaticHandle
import NauyacaVerif.Fs.StaticPy
set_option linter.unusedSimpArgs false
set_option linter.unusedVariables false
/-!
The hand-written static-file model `Fs.handle` (M-Fs: resolve, containment, trailing slash, index lookup with re-resolution and
re-check, listing, size limit, read) against the TRANSLATION of `StaticFileHandler.handle` (regenerated from the current source on
every run; the index `for` loop is translated as recursion over the index names carrying `file_path` and `index_found`).
-/
namespace NauyacaVerif.Translated
open NauyacaVerif.Gen.Fn Fs

/-- an exception that leaves `handle` is the model's `raised` -/
def toE : SResp → Except Unit SResp
  | .raised => .error ()
  | r => .ok r

/-- the index loop: raises exactly when the model's `indexRaises` says so, otherwise finds the model's `findIndex` -/
theorem index_loop (os : OS) (cfg : SCfg) (dir : Path) : ∀ names : List Name,
    staticHandle_for1 os cfg names (dir, false) =
      if indexRaises os cfg dir names then .error ()
      else match findIndex os cfg dir names with
        | some r => .ok (r, true)
        | none => .ok (dir, false) := by
  intro names
  induction names with
  | nil => simp [staticHandle_for1, indexRaises, findIndex]
  | cons n ns ih =>
    unfold staticHandle_for1 indexRaises findIndex
    cases hk : os.kind (dir ++ [n]) <;> simp [existsE, isFileE, resolveE, hk, ih]
    · cases hr : os.resolve (dir ++ [n]) with
      | none => simp [hr, ih]
      | some r =>
        by_cases hin : inside cfg.root r = true
        · simp [hr, hin]
        · simp [hr, hin, ih]

theorem serve_file (os : OS) (cfg : SCfg) (p : Path) (hk : os.kind p ≠ .error) :
    (match existsE os p with
      | .error e => (.error e : Except Unit SResp)
      | .ok q1 =>
        if q1 then
          match isFileE os p with
          | .error e => .error e
          | .ok q2 =>
            if q2 then
              if decide (os.size p > cfg.maxSize) then .ok .tooLarge
              else match os.readText p with
                | .notUtf8 => .ok (.tempFail .notUtf8)
                | .denied => .ok (.tempFail .denied)
                | .ioError => .ok (.tempFail .ioError)
                | .ok content => .ok (.file p content)
            else .ok .notFound
        else .ok .notFound) = toE (serveFile os cfg p) := by
  unfold serveFile
  cases hkk : os.kind p <;> simp_all [existsE, isFileE, toE]
  · by_cases hs : os.size p > cfg.maxSize
    · simp [hs, toE]
    · simp [hs]
      cases os.readText p <;> simp [toE]

/-- for every OS behaviour in which resolved locations can be stat'ed (no ENAMETOOLONG on a path `resolve` returned), every
    configuration and every request: the translated `handle` returns — or raises — what the model says -/
theorem static_handle_eq (os : OS) (cfg : SCfg) (comps : Path) (trailing : Bool)
    (hres : ∀ q r, os.resolve q = some r → os.kind r ≠ .error) :
    staticHandle os cfg comps trailing = toE (Fs.handle os cfg comps trailing) := by
  unfold staticHandle Fs.handle
  cases hr : os.resolve (cfg.root ++ comps) with
  | none => simp [resolveE, hr, toE]
  | some fp =>
    have hfp := hres _ _ hr
    by_cases hin : inside cfg.root fp = true
    · simp only [resolveE, hr, hin, Bool.not_true, Bool.false_eq_true, if_false]
      -- the file part, shared by the three places it is reached from
      have file_part : ∀ p, os.kind p ≠ .error →
          (match existsE os p with
            | .error e => (.error e : Except Unit SResp)
            | .ok q1 =>
              if q1 = true then
                match isFileE os p with
                | .error e => .error e
                | .ok q2 =>
                  if q2 = true then
                    if decide (os.size p > cfg.maxSize) = true then .ok .tooLarge
                    else match os.readText p with
                      | .notUtf8 => .ok (.tempFail .notUtf8)
                      | .denied => .ok (.tempFail .denied)
                      | .ioError => .ok (.tempFail .ioError)
                      | .ok content => .ok (.file p content)
                  else .ok .notFound
              else .ok .notFound) = toE (serveFile os cfg p) := by
        intro p hk
        have := serve_file os cfg p hk
        simpa using this
      cases hk : os.kind fp with
      | error => exact absurd hk hfp
      | dir =>
        have hdir : serveDir os cfg fp =
            (if indexRaises os cfg fp cfg.indices then SResp.raised
             else match findIndex os cfg fp cfg.indices with
               | some ip => serveFile os cfg ip
               | none => if cfg.listingOn then (match os.listing fp with | some names => .listing fp names | none => .tempFail .listing) else .notFound) := rfl
        cases trailing <;>
        (cases hraise : indexRaises os cfg fp cfg.indices
         · cases hfi : findIndex os cfg fp cfg.indices with
           | none =>
             cases hlo : cfg.listingOn
             · simp [isDirE, hk, index_loop, serveDir, hraise, hfi, hlo, toE]
             · cases hls : os.listing fp <;> simp [isDirE, hk, index_loop, serveDir, hraise, hfi, hlo, listingE, hls, toE]
           | some ip =>
             obtain ⟨_, q, hq⟩ := findIndex_inside os cfg fp cfg.indices ip hfi
             have hip := hres _ _ hq
             cases hkk : os.kind ip
             · by_cases hs : os.size ip > cfg.maxSize
               · simp [isDirE, existsE, isFileE, hk, index_loop, serveDir, hraise, hfi, serveFile, hkk, hs, toE]
               · cases hrd : os.readText ip <;>
                   simp [isDirE, existsE, isFileE, hk, index_loop, serveDir, hraise, hfi, serveFile, hkk, hs, toE, hrd]
             · simp [isDirE, existsE, isFileE, hk, index_loop, serveDir, hraise, hfi, serveFile, hkk, toE]
             · simp [isDirE, existsE, isFileE, hk, index_loop, serveDir, hraise, hfi, serveFile, hkk, toE]
             · simp [isDirE, existsE, isFileE, hk, index_loop, serveDir, hraise, hfi, serveFile, hkk, toE]
             · exact absurd hkk hip
         · simp [isDirE, hk, index_loop, serveDir, hraise, toE])
      | file =>
        cases trailing <;>
        (by_cases hs : os.size fp > cfg.maxSize
         · simp [isDirE, existsE, isFileE, hk, serveFile, hs, toE]
         · cases hrd : os.readText fp <;> simp [isDirE, existsE, isFileE, hk, serveFile, hs, toE, hrd])
      | other => cases trailing <;> simp [isDirE, existsE, isFileE, hk, toE, serveFile]
      | missing => cases trailing <;> simp [isDirE, existsE, isFileE, hk, toE, serveFile]
    · simp [resolveE, hr, hin, toE]
end NauyacaVerif.Translated
