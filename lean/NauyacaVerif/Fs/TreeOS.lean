import NauyacaVerif.Fs.Static
namespace Fs

/-! ## canonical_path (repaired code): unquote, split, drop ""/".", fold ".." -/
def hexv (c : Char) : Option Nat :=
  if c.isDigit then some (c.toNat - 48)
  else if 'a' ≤ c ∧ c ≤ 'f' then some (c.toNat - 87)
  else if 'A' ≤ c ∧ c ≤ 'F' then some (c.toNat - 55) else none

/-- percent-decode to bytes (UTF-8 for literal characters) -/
def unquoteBytes : List Char → List UInt8
  | '%' :: a :: b :: rest =>
    match hexv a, hexv b with
    | some x, some y => (x * 16 + y).toUInt8 :: unquoteBytes rest
    | _, _ => '%'.toNat.toUInt8 :: unquoteBytes (a :: b :: rest)
  | c :: rest => (String.singleton c).toUTF8.toList ++ unquoteBytes rest
  | [] => []

/-- UTF-8 decode with errors="replace", one U+FFFD per maximal invalid prefix (simplified: per byte) -/
partial def decodeReplace (b : List UInt8) : List Char :=
  match b with
  | [] => []
  | x :: rest =>
    let try_ (n : Nat) : Option (List Char) :=
      if b.length < n then none else
      match String.fromUTF8? (ByteArray.mk (b.take n).toArray) with
      | some s => some (s.toList ++ decodeReplace (b.drop n))
      | none => none
    if x < 0x80 then Char.ofNat x.toNat :: decodeReplace rest
    else match try_ 2 with
      | some r => r
      | none => match try_ 3 with
        | some r => r
        | none => match try_ 4 with
          | some r => r
          | none => '�' :: decodeReplace rest

def unquote (s : String) : String := String.mk (decodeReplace (unquoteBytes s.toList))

def canonSegs (path : String) : List Name × Bool :=
  let parts := (unquote path).splitOn "/"
  let segs := parts.foldl (fun acc p =>
    if p = "" ∨ p = "." then acc else if p = ".." then acc.dropLast else acc ++ [p]) []
  let last := parts.getLast?.getD ""
  (segs, !segs.isEmpty && (last = "" || last = "." || last = ".."))

/-! ## the symlink tree as an OS -/
/-- kernel-style walk: follows every symlink, fails on missing / non-directory components and on loops -/
def kwalk (t : Tree) : Nat → Path → List Name → Option (Path × Node)
  | 0, _, _ => none
  | fuel + 1, cur, [] => (t.lstat cur).map (fun n => (cur, n))
  | fuel + 1, cur, name :: rest =>
    if name = "" ∨ name = "." then kwalk t fuel cur rest
    else if name = ".." then kwalk t fuel cur.dropLast rest
    else
      match t.lstat cur with
      | some .dir =>
        let nxt := cur ++ [name]
        match t.lstat nxt with
        | some (.link target) =>
          let comps := splitPath target
          let start : Path := if target.startsWith "/" then [] else cur
          kwalk t fuel start (comps ++ rest)
        | some _ => kwalk t fuel nxt rest
        | none => none
      | _ => none

def kstat (t : Tree) (p : Path) : Option (Path × Node) := kwalk t 300 [] p

def normpath (p : List Name) : Path :=
  p.foldl (fun acc n => if n = "" ∨ n = "." then acc else if n = ".." then acc.dropLast else acc ++ [n]) []

/-- `Path.resolve()` (non-strict): realpath; on a loop the lexically normalised remainder, then the
    `stat()` probe that turns ELOOP into an exception (none) -/
def resolveT (t : Tree) (p : Path) : Option Path :=
  let (r, ok) := realpath t p
  if ok then some r
  else
    let n := normpath r
    -- probe: a loop anywhere on the normalised path raises; a merely missing path does not
    if loopsOn t n then none else some n
where
  loopsOn (t : Tree) (n : Path) : Bool :=
    -- ENOENT is not an error for resolve(); only ELOOP is.  Distinguish by walking with little fuel
    -- versus structure: a path loops iff the walk runs out of fuel.
    (kwalkFuelOut t 300 [] n)
  kwalkFuelOut (t : Tree) : Nat → Path → List Name → Bool
    | 0, _, _ => true
    | fuel + 1, cur, [] => false
    | fuel + 1, cur, name :: rest =>
      if name = "" ∨ name = "." then kwalkFuelOut t fuel cur rest
      else if name = ".." then kwalkFuelOut t fuel cur.dropLast rest
      else match t.lstat cur with
        | some .dir =>
          let nxt := cur ++ [name]
          match t.lstat nxt with
          | some (.link target) =>
            kwalkFuelOut t fuel (if target.startsWith "/" then [] else cur) (splitPath target ++ rest)
          | some _ => kwalkFuelOut t fuel nxt rest
          | none => false
        | _ => false

structure FileMeta where
  id : Nat
  utf8 : Bool
  big : Bool
deriving Repr

def treeOS (t : Tree) (metas : List FileMeta) : OS where
  resolve := resolveT t
  kind := fun p => match kstat t p with
    | some (_, .file _) => .file
    | some (_, .dir) => .dir
    | some (_, .link _) => .other
    | none => .missing
  size := fun p => match kstat t p with
    | some (_, .file id) => if (metas.find? (·.id == id)).any (·.big) then 1000000 else 10
    | _ => 0
  readText := fun p => match kstat t p with
    | some (_, .file id) => if (metas.find? (·.id == id)).all (·.utf8) then .ok id else .notUtf8
    | _ => .ioError
  listing := fun p =>
    match kstat t p with
    | some (d, .dir) =>
      let children := t.filterMap (fun e => if e.1.dropLast == d ∧ !e.1.isEmpty then e.1.getLast? else none)
      -- `item.is_dir()` swallows errors, `item.stat()` on a dangling / looping non-directory raises
      if children.any (fun c => (kstat t (d ++ [c])).isNone) then none else some children
    | _ => none
end Fs
