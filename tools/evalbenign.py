#!/venv/bin/python
"""Run the checks of the given properties against a BEHAVIOUR-PRESERVING refactoring written by an independent sub-agent.

    tools/evalbenign.py <agent-worktree> <k> <name> <Cxx> [<Cyy> ...]

The patch <agent-worktree>/benign/<k>/patch.diff is applied to a private worktree (tools/mutant.sh) and every listed
check is run (quick tier).  Outcome per property:
    quiet                    exit 0: the check is not disturbed by the rewrite
    tie-broken               exit 1 with `no-failing-input-found`: a proof obligation / translation / extraction /
                             correspondence no longer checks and no failing input exists (what the brief prescribes
                             for a harmless rewrite that breaks the tie)
    FALSE-ALARM              exit 1 with a concrete failing input: the oracle (or the harness) is wrong - must be fixed
Kept as /verif/seeded/benign-<name>-<k>/ {patch.diff, README.txt, meta.json}.
"""
import json, os, shutil, subprocess, sys, re
adv, k, name, props = sys.argv[1], sys.argv[2], sys.argv[3], sys.argv[4:]
src = f"{adv}/benign/{k}"
tag = f"benign-{name}-{k}"
def sh(cmd): return subprocess.run(cmd, shell=True, capture_output=True, text=True)
out = {}
sh(f"git -C /repo worktree remove --force /tmp/nvm-{tag}/repo; rm -rf /tmp/nvm-{tag}")
for pid in props:
    r = sh(f"cd /verif && tools/mutant.sh {tag} {src}/patch.diff {pid} --tier quick 2>&1")
    lines = [l for l in r.stdout.splitlines() if "conda" not in l]
    viol = [l for l in lines if l.startswith("VIOLATION")]
    how = [l[:400] for l in lines if "failing input" in l or "broken obligation" in l][:4]
    if r.returncode == 0 and not viol:
        cls = "quiet"
    elif viol and all("no-failing-input-found" in v for v in viol):
        cls = "tie-broken"
    elif r.returncode == 2 or not viol:
        cls = f"CHECK-ERROR rc={r.returncode}"
        how = lines[-6:]
    else:
        cls = "FALSE-ALARM"
    out[pid] = {"class": cls, "rc": r.returncode, "how": how}
    print(f"[{tag}] {pid}: {cls} {how[:2] if cls != 'quiet' else ''}")
sh(f"git -C /repo worktree remove --force /tmp/nvm-{tag}/repo; rm -rf /tmp/nvm-{tag}; git -C /repo worktree prune")
d = f"/verif/seeded/{tag}"
os.makedirs(d, exist_ok=True)
shutil.copy(f"{src}/patch.diff", d)
if os.path.exists(f"{src}/README.txt"):
    shutil.copy(f"{src}/README.txt", d)
json.dump({"kind": "behaviour-preserving refactoring written by an independent sub-agent (466 tests pass with it)", "checks": out}, open(f"{d}/meta.json", "w"), indent=1)
