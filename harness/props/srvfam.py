"""Shared correspondence family for the server connection state machine (M-ServerConn):
the real GeminiServerProtocol on a fake transport under a virtual clock vs `Srv.run` in Lean.
Used by C01, C04, C07, C08, C15 with different generators and oracles."""
from __future__ import annotations

import asyncio
import random

from ..core import Family
from ..sim import srv as sim

METAS = ["text/gemini", "", "a\r\nb", "x" * 1030, "é" * 600, "m\udcffz", "ok\n", "€" * 341 + "ab", "€" * 342, "text/plain; charset=utf-8", "\r", "x" * 1024, "x" * 1025]
BODIES = [None, ["s", ""], ["s", "hello"], ["s", "x\udc80y"], ["b", ""], ["b", "00ff62696e"], ["s", "é€😀"], ["s", "30 fake\r\n"], ["b", "0d0a"]]
STATUSES = [20, 20, 20, 21, 29, 10, 30, 31, 40, 51, 59, 60, 69, 9, 70, 99, 0, -5, 100, 19, 30, 200, 2]

LINES = [b"gemini://h/", b"gemini://h/a?b", b"gemini://[::1]/", b"http://h/", b"gemini:///x", b"gemini://u@h/", b"gemini://h/#f", b"\xff\xfe", b"",
         b"gemini://h/" + b"a" * 1011, b"gemini://h/" + b"a" * 1012, b"gemini://h/" + b"a" * 2000, b"gemini://h/a\nb", b"gemini://h/\tx", b" gemini://h/",
         b"GEMINI://H/", b"gemini://h:1965/", b"gemini://h:70000/", b"gemini://[zz]/", b"gemini://h/%41",
         b"titan://h/f;size=3", b"titan://h/f;size=0", b"titan://h/f;size=10;mime=text/plain;token=t", b"titan://h/f", b"titan://h/f;size=x",
         b"titan://h/f;size=-1", b"titan://h/f;size= 4 ", b"titan://h/f;size=1;size=2", b"titan://u@h/f;size=1", b"titan://h/f;mime=a",
         b"TITAN://h/f;size=1", b"titan://h/f;size=1_0", b"titan://h/f;size=+2", b"titan://h/f;size=3#x", b"titan:///f;size=1",
         # valid lines with multi-byte UTF-8 sequences (2, 3 and 4 bytes): a read boundary may fall inside any of them
         "gemini://h/caf\u00e9".encode(), "gemini://h/\u65e5\u672c\u8a9e?q=\u00fc".encode(), "gemini://h/\U0001f600/\u00e9\u00e8".encode(),
         "titan://h/\u00fc\u00f1\u00ee;size=2".encode(), "gemini://h/\u00e9".encode() + b"\xc3", b"gemini://h/\xe6\x97",
         # sizes spelled as floats: int() refuses every one of them; float() takes them and int(float(..)) fails in other ways
         b"titan://h/f;size=inf", b"titan://h/f;size=1e999", b"titan://h/f;size=3.0", b"titan://h/f;size=nan"]


def gen_resp(rnd):
    return [rnd.choice(STATUSES), rnd.choice(METAS), rnd.choice(BODIES)]


def cut(rnd, s: bytes, maxcuts=3):
    cuts = sorted(rnd.sample(range(1, len(s)), min(len(s) - 1, rnd.randint(0, maxcuts)))) if len(s) > 1 else []
    out, p = [], 0
    for c in cuts + [len(s)]:
        out.append(s[p:c])
        p = c
    return [x for x in out if x] or [b""]


def gen_stream(rnd):
    line = rnd.choice(LINES)
    r = rnd.random()
    tail = b"" if r < 0.3 else bytes(rnd.randrange(256) for _ in range(rnd.randint(0, 14)))
    s = line + (b"\r\n" if rnd.random() < 0.9 else rnd.choice([b"", b"\r", b"\n"])) + tail
    if rnd.random() < 0.1:
        s = bytes(rnd.choice([13, 10, 65, 0x67]) for _ in range(rnd.randint(0, 30)))
    return cut(rnd, s)


MW_LINES = ["53 Access denied\r\n", "44 Slow down\r\n", "garbage", "20 ok\r\n", "6 x", "60", "61 a b c\r\n", "53 a\nb\r\n", "", "60 Client certificate required\r\n", "99 x\r\n", "5a x\r\n"]


def gen_case(rnd):
    mw = rnd.random() < 0.5
    up = rnd.random() < 0.6
    hk = rnd.choice(["s", "s", "r", "a", "a"])
    handler = ["s", gen_resp(rnd)] if hk == "s" else [hk]
    evs = [["d", c.hex()] for c in gen_stream(rnd)]
    extra = []
    for _ in range(rnd.randint(0, 5)):
        k = rnd.choice(["t", "l", "ma", "ma", "mr", "mn", "md", "ha", "ha", "hr", "ua", "ua", "ur", "d", "wall"])
        if k == "wall":
            extra.append(["wall", rnd.choice([-86400, -3600, -45, 45, 3600, 86400])])
            continue
        if k == "md":
            extra.append(["md", rnd.choice(MW_LINES)])
        elif k in ("ha", "ua"):
            extra.append([k, gen_resp(rnd)])
        elif k == "d":
            extra.append(["d", bytes(rnd.randrange(256) for _ in range(rnd.randint(1, 5))).hex()])
        else:
            extra.append([k])
    for e in extra:
        evs.insert(rnd.randint(0, len(evs)), e)
    return {"mw": mw, "up": up, "handler": handler, "evs": evs}


def gen_orderly(rnd):
    """a well-formed session whose completions arrive in causal order (hits the deep states often)"""
    c = gen_case(rnd)
    data = [e for e in c["evs"] if e[0] == "d"]
    rest = []
    if c["mw"]:
        rest.append(rnd.choice([["ma"], ["ma"], ["ma"], ["mr"], ["mn"], ["md", rnd.choice(MW_LINES)]]))
    rest.append(rnd.choice([["ha", gen_resp(rnd)], ["hr"], ["ua", gen_resp(rnd)], ["ur"], ["ha", gen_resp(rnd)], ["ua", gen_resp(rnd)]]))
    if rnd.random() < 0.3:
        rest.insert(rnd.randint(0, len(rest)), rnd.choice([["t"], ["l"], ["d", "6162"]]))
    if rnd.random() < 0.3:
        rest.append(rnd.choice([["ha", gen_resp(rnd)], ["ua", gen_resp(rnd)], ["t"], ["d", "0d0a"]]))
    c["evs"] = data + rest
    return c


def racy(rng, c):
    """make some task completions racy: the task finishes, but the read / disconnect that follows is delivered
    before the task's done-callback runs (possible in asyncio when both are queued in one loop iteration)"""
    evs = c["evs"]
    out = []
    for i, e in enumerate(evs):
        nxt = evs[i + 1][0] if i + 1 < len(evs) else None
        if e[0] in ("ma", "md", "mr", "mn", "ha", "hr", "ua", "ur") and nxt in ("d", "l") and rng.random() < 0.7:
            out.append([e[0] + "!"] + list(e[1:]))
        else:
            out.append(e)
    c = dict(c)
    c["evs"] = out
    return c


_LOOP = None


def get_loop():
    global _LOOP
    if _LOOP is None or _LOOP.is_closed():
        _LOOP = sim.VLoop()
        asyncio.set_event_loop(_LOOP)
    return _LOOP


def parse_model(out: str):
    assert out.startswith("ok "), out
    left, _, right = out[3:].partition(" | ")
    toks = left.split() if left.strip() else []
    kv = dict(x.split("=", 1) for x in right.split())
    return {"tokens": toks, "h": int(kv["h"]), "u": int(kv["u"]), "m": int(kv["m"]), "content": kv["content"],
            "timer": kv["timer"] == "true", "phase": kv.get("phase", ""),
            "lens": [int(x) for x in kv.get("lens", "").split(",") if x != ""]}


def delivered_bytes(case) -> bytes:
    """bytes the peer sent before it disconnected"""
    out = b""
    for e in case["evs"]:
        if e[0] == "l":
            break
        if e[0] == "d":
            out += bytes.fromhex(e[1])
    return out


class ConnFamily(Family):
    """base: impl/model/expect/same; subclasses provide gen + oracle"""

    name = "events"
    quick_n = 3000
    thorough_n = 60000
    check_lens = True   # also compare WHEN (after which event) the response was written

    def gen(self, rng: random.Random, n: int):
        for i in range(n):
            c = gen_orderly(rng) if i % 3 == 0 else gen_case(rng)
            yield racy(rng, c) if i % 4 == 0 else c

    def impl(self, case):
        if case.get("newloop") and _LOOP is not None and not _LOOP.is_closed():
            # the server is started again in the same process (a test suite, a supervisor restarting it, an embedding
            # application): the connection of this case is served by a NEW event loop, the previous one is closed
            _LOOP.close()
        loop = get_loop()
        return loop.run_until_complete(sim.run_conn(loop, case))

    def model(self, case):
        return sim.enc_case(case)

    def expect(self, case, out):
        return parse_model(out)

    def same(self, exp, obs):
        return (sim.match_tokens(exp["tokens"], obs["acts"]) and exp["h"] == obs["h"] and exp["u"] == obs["u"] and exp["m"] == obs["m"]
                and exp["content"] == obs["content"] and exp["timer"] == obs["timer"] and obs["dropped"] == 0 and not obs["exc"]
                and (not self.check_lens or obs.get("racy") or exp["lens"] == obs["lens"]))

    def key(self, case, obs):
        ok, what = sim.wellformed_trace(obs["acts"])
        return f"{what}|h{obs['h']}u{obs['u']}m{obs['m']}|{'lost' if obs['lost'] else ''}|{'pend' if obs['pending'] else ''}"

    def shrink(self, case, bad):
        """greedy minimisation of a failing event list: drop events, then shorten data chunks"""
        if "evs" not in case:
            return case
        cur = dict(case)
        changed = True
        budget = 300
        while changed and budget > 0:
            changed = False
            evs = cur["evs"]
            for i in range(len(evs)):
                cand = dict(cur)
                cand["evs"] = evs[:i] + evs[i + 1:]
                budget -= 1
                if budget <= 0:
                    break
                try:
                    if cand["evs"] and bad(cand):
                        cur = cand
                        changed = True
                        break
                except Exception:
                    pass
        return cur

    # ---- oracles shared by the server properties (each evaluates the property text on the trace) ----
    @staticmethod
    def oracle_c01(case, obs):
        ok, what = sim.wellformed_trace(obs["acts"])
        if not ok:
            return ("malformed-response", what)
        evs = case["evs"]
        lost = any(e[0] == "l" for e in evs)
        data = delivered_bytes(case)
        decided = b"\r\n" in data or len(data) > 1024 or any(e[0] == "t" for e in evs)
        if not lost and decided and not obs["pending"] and not obs["acts"]:
            if obs["awaiting"] and not any(e[0] == "t" for e in evs):
                return None  # waiting for the declared Titan content: not yet a full request
            return ("no-response", "request decided, nothing pending, peer still connected, yet nothing was written")
        if obs["acts"] and obs["acts"][-1] != ["close"]:
            return ("no-close", "response written but connection not closed")
        return None

    @staticmethod
    def oracle_once(case, obs):
        if obs["h"] + obs["u"] > 1:
            return ("handler-twice", f"handler invoked {obs['h']}x and upload handler {obs['u']}x on one connection")
        return None

    @staticmethod
    def oracle_gated(case, obs):
        if not case["mw"]:
            return None
        allowed = 0
        for x in obs["order"]:
            if x == "allow":
                allowed += 1
            elif x in ("h", "u"):
                if allowed == 0:
                    return ("handler-ungated", f"{'upload ' if x == 'u' else ''}handler ran before the middleware chain admitted the request: {obs['order']}")
        if obs["m"] > 1:
            return ("mw-twice", f"middleware consulted {obs['m']} times")
        return None
