namespace Mw.Cert
abbrev Str := List Char
abbrev Fp := Nat   -- fingerprints are opaque, only equality matters

structure Rule where
  pre : Str
  requireCert : Bool
  allowed : Option (List Fp)    -- none = no list; some [] = nobody
deriving Repr

inductive Decision where | allow | d60 | d61
deriving Repr, DecidableEq

def applyRule (r : Rule) (fp : Option Fp) : Decision :=
  if r.requireCert && fp.isNone then .d60
  else match r.allowed with
    | none => .allow
    | some l => match fp with
      | none => .d60
      | some f => if l.contains f then .allow else .d61

/-! ### specification: the first rule whose prefix covers the *location of the resource* decides -/
def firstCover : List Rule → Str → Option Rule
  | [], _ => none
  | r :: rs, loc => if r.pre.isPrefixOf loc then some r else firstCover rs loc

def policy (rules : List Rule) (loc : Str) (fp : Option Fp) : Decision :=
  match firstCover rules loc with
  | none => .allow
  | some r => applyRule r fp

/-- the admission condition spelled out as in the property statement -/
theorem applyRule_allow_iff (r : Rule) (fp : Option Fp) :
    applyRule r fp = .allow ↔
      (r.requireCert = true → fp.isSome = true) ∧
      (∀ l, r.allowed = some l → ∃ f, fp = some f ∧ f ∈ l) := by
  unfold applyRule
  cases hq : r.requireCert <;> cases fp <;> cases ha : r.allowed <;> simp
  all_goals (split <;> simp_all)

def DirPrefix (p : Str) : Prop := ∃ q, p = q ++ ['/']

theorem isPrefixOf_iff {a b : Str} : a.isPrefixOf b = true ↔ a <+: b := by
  simpa using (List.isPrefixOf_iff_prefix (l₁ := a) (l₂ := b))

/-- a prefix ending in `/` covers `dir/name` (name without `/`) iff it covers `dir/` -/
theorem dirPrefix_file {p dir name : Str} (hp : DirPrefix p) (hn : '/' ∉ name) :
    p <+: dir ++ ['/'] ++ name ↔ p <+: dir ++ ['/'] := by
  obtain ⟨q, rfl⟩ := hp
  constructor
  · intro h
    obtain ⟨t, ht⟩ := h
    -- q ++ "/" ++ t = dir ++ "/" ++ name ; the '/' of p cannot lie inside name
    by_cases hlen : (q ++ ['/']).length ≤ (dir ++ ['/']).length
    · exact (List.prefix_of_prefix_length_le ⟨t, ht⟩ (List.prefix_append _ _) hlen)
    · exfalso
      have hlt : (dir ++ ['/']).length < (q ++ ['/']).length := by omega
      have h2 : dir ++ ['/'] <+: q ++ ['/'] := by
        apply List.prefix_of_prefix_length_le (List.prefix_append _ name) ⟨t, ht⟩ (by omega)
      obtain ⟨u, hu⟩ := h2
      have hu_ne : u ≠ [] := by
        intro hnil; subst hnil; simp at hu; simp [hu] at hlt
      -- then name = u ++ t, and u ends with '/'
      have : name = u ++ t := by
        have := ht; rw [← hu] at this
        simp only [List.append_assoc] at this
        have := List.append_cancel_left this
        simpa using this.symm
      have hlast : '/' ∈ u := by
        have hq : (dir ++ ['/'] ++ u).getLast? = some '/' := by rw [hu]; simp
        rw [List.getLast?_append] at hq
        cases hul : u.getLast? with
        | none => simp [List.getLast?_eq_none_iff] at hul; exact absurd hul hu_ne
        | some c => simp [hul] at hq; subst hq; exact List.mem_of_getLast? hul
      exact hn (by rw [this]; simp [hlast])
  · intro h
    exact h.trans (List.prefix_append _ _)

/-- repaired `CertificateAuth.process_request`, on the canonical path: the rule for the path
    itself, and — when the path does not end in `/` and may therefore name a directory — also
    the rule for `path/`; the request passes only if both admit -/
def stricter (a b : Decision) : Decision := if a = .allow then b else a

def process (rules : List Rule) (path : Str) (fp : Option Fp) : Decision :=
  stricter (policy rules path fp)
    (if path.getLast? = some '/' then .allow else policy rules (path ++ ['/']) fp)

theorem firstCover_congr {rules : List Rule} {l₁ l₂ : Str}
    (h : ∀ r ∈ rules, (r.pre <+: l₁ ↔ r.pre <+: l₂)) : firstCover rules l₁ = firstCover rules l₂ := by
  induction rules with
  | nil => rfl
  | cons r rs ih =>
    have hr := h r (by simp)
    have ih' := ih (fun r' hr' => h r' (by simp [hr']))
    simp only [firstCover]
    by_cases h1 : r.pre <+: l₁
    · have h2 := hr.mp h1
      simp [isPrefixOf_iff.mpr h1, isPrefixOf_iff.mpr h2]
    · have h2 : ¬ r.pre <+: l₂ := fun h2 => h1 (hr.mpr h2)
      have e1 : r.pre.isPrefixOf l₁ = false := by
        cases hh : r.pre.isPrefixOf l₁ with
        | false => rfl
        | true => exact absurd (isPrefixOf_iff.mp hh) h1
      have e2 : r.pre.isPrefixOf l₂ = false := by
        cases hh : r.pre.isPrefixOf l₂ with
        | false => rfl
        | true => exact absurd (isPrefixOf_iff.mp hh) h2
      simp [e1, e2, ih']

/-- the location of what the static handler delivers for canonical request path `path` -/
inductive Served (path : Str) : Str → Prop
  | file : path.getLast? ≠ some '/' → Served path path
  | dirSlash (index : Str) : path.getLast? = some '/' → '/' ∉ index → Served path (path ++ index)
  | dirListing : path.getLast? = some '/' → Served path path
  | dirNoSlash (index : Str) : path.getLast? ≠ some '/' → '/' ∉ index → Served path (path ++ ['/'] ++ index)

/-- C05 core (rule prefixes are directory prefixes): whatever is delivered for a request the
    middleware let through is admitted by the first rule covering its own location -/
theorem c05_core (rules : List Rule) (hd : ∀ r ∈ rules, DirPrefix r.pre) (path loc : Str) (fp : Option Fp)
    (hs : Served path loc) (hp : process rules path fp = .allow) : policy rules loc fp = .allow := by
  unfold process stricter at hp
  cases hs with
  | file hne =>
    split at hp
    · assumption
    · rename_i h; simp_all
  | dirListing hl =>
    split at hp
    · assumption
    · rename_i h; simp_all
  | dirSlash index hl hi =>
    have h1 : policy rules path fp = .allow := by
      split at hp
      · assumption
      · rename_i h; simp_all
    obtain ⟨d, hdp⟩ : ∃ d, path = d ++ ['/'] := List.getLast?_eq_some_iff.mp hl
    have : firstCover rules (path ++ index) = firstCover rules path := by
      apply firstCover_congr
      intro r hr
      rw [hdp]
      exact dirPrefix_file (hd r hr) hi
    simpa [policy, this] using h1
  | dirNoSlash index hne hi =>
    have h2 : policy rules (path ++ ['/']) fp = .allow := by
      split at hp
      · simpa [hne] using hp
      · rename_i h; simp_all
    have : firstCover rules (path ++ ['/'] ++ index) = firstCover rules (path ++ ['/']) := by
      apply firstCover_congr
      intro r hr
      exact dirPrefix_file (hd r hr) hi
    unfold policy at h2 ⊢
    rw [this]; exact h2
end Mw.Cert
