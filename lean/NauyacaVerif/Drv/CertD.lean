import NauyacaVerif.Drv.Common
import NauyacaVerif.Mw.Cert
import NauyacaVerif.Fs.Canon
import NauyacaVerif.Fs.TreeOS
import NauyacaVerif.Drv.FsD
namespace NauyacaVerif.Drv.CertD
open NauyacaVerif.Drv Mw.Cert

/-! Line protocol of the certificate-rule model (space-separated fields).

`cert <rules> <raw> <fp> <loc>`:
  rules = `-` (none) or entries joined by `;`, each `<prefix>:<require 0|1>:<fps>` with the prefix
  as comma-separated hex code points and fps = `-` (no list) | `e` (empty list) | ids joined by `+`;
  raw = the path component of the request URL (code points); fp = certificate id or `-`;
  loc = canonical location of a resource, or `-`.
  → `ok <canonical path> <process on canonical_path(raw)> <policy on loc | ->`
`certcfg <paths> <raw> <fp>`: the configuration layer; paths = `none` (no `paths` key), `-` (empty
  list) or entries `<prefix>:<require n|0|1>:<fps>` → `ok <enforced decision>` -/

def parseFps (s : String) : Option (Option (List Fp)) :=
  if s == "-" then some none
  else if s == "e" then some (some [])
  else
    let parts := s.splitOn "+"
    if parts.all (fun p => p.isNat) then some (some (parts.map String.toNat!)) else none

def parseRule (e : String) : Option Rule :=
  match e.splitOn ":" with
  | [p, q, f] =>
    match parseFps f with
    | some fps => if q == "0" || q == "1" then some ⟨cpsNat p, q == "1", fps⟩ else none
    | none => none
  | _ => none

def parseRules (s : String) : Option (List Rule) :=
  if s == "-" then some [] else (s.splitOn ";").mapM parseRule

def parseCfg (e : String) : Option PathCfg :=
  match e.splitOn ":" with
  | [p, q, f] =>
    match parseFps f with
    | some fps =>
      if q == "n" then some ⟨cpsNat p, none, fps⟩
      else if q == "0" || q == "1" then some ⟨cpsNat p, some (q == "1"), fps⟩ else none
    | none => none
  | _ => none

def parseFp (s : String) : Option (Option Fp) :=
  if s == "-" then some none else if s.isNat then some (some s.toNat!) else none

def showD : Decision → String
  | .allow => "allow" | .d60 => "60" | .d61 => "61"

def parsePaths (ps : String) : Option (Option (List PathCfg)) :=
  if ps == "none" then some none
  else if ps == "-" then some (some [])
  else ((ps.splitOn ";").mapM parseCfg).map some

def handle : List String → Option String
  | "capsule" :: ts :: ms :: listing :: idx :: mx :: ps :: reqs =>
    match parsePaths ps with
    | none => some "bad-op"
    | some cfgPaths =>
      let t := FsD.parseTree ts
      let os := Fs.treeOS t (FsD.parseMetas ms)
      let cfg : Fs.SCfg := { root := [Fs.toName [114, 111, 111, 116]], indices := FsD.comps idx, listingOn := listing == "1", maxSize := mx.toNat! }
      let one (rq : String) : String :=
        match rq.splitOn "@" with
        | [raw, fp] =>
          match parseFp fp with
          | none => "bad-req"
          | some f =>
            if raw == "!" then "reject" else    -- the request line was refused before any middleware ran
            let sp := Fs.Canon.canonSegs (cpsNat raw)
            match enforced cfgPaths (Fs.Canon.render sp) f with
            | .d60 => "60"
            | .d61 => "61"
            | .allow => FsD.showResp (Fs.handle os cfg (sp.1.map Fs.toName) sp.2)
        | _ => "bad-req"
      some ("ok " ++ " | ".intercalate (reqs.map one))
  | ["cert", rs, raw, fp, loc] =>
    match parseRules rs, parseFp fp with
    | some rules, some f =>
      let path := Fs.Canon.canonicalPath (cpsNat raw)
      let pol := if loc == "-" then "-" else showD (policy rules (cpsNat loc) f)
      some s!"ok {showCpsNat path} {showD (process rules path f)} {pol}"
    | _, _ => some "bad-op"
  | ["certcfg", ps, raw, fp] =>
    match parsePaths ps, parseFp fp with
    | some cfg, some f => some s!"ok {showD (enforced cfg (Fs.Canon.canonicalPath (cpsNat raw)) f)}"
    | _, _ => some "bad-op"
  | "capsule" :: _ => some "bad-op"
  | "cert" :: _ => some "bad-op"
  | "certcfg" :: _ => some "bad-op"
  | _ => none
end NauyacaVerif.Drv.CertD
