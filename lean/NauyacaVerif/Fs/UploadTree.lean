import NauyacaVerif.Fs.TreeOS
import NauyacaVerif.Fs.Upload

/-! # What a fixpoint of `realpath` means in the symlink-tree instance

`FileUploadHandler._is_safe_path` accepts a target only if `os.path.realpath(target) == target`.
For the executable tree model (`Fs/Tree.lean`, the port of `posixpath._joinrealpath`) this file
proves what that buys: a path that `realpath` returns with `ok = true` has no symlink among its
non-empty prefixes and no `""`, `.` or `..` component (`joinReal_linkFree`), and on such a path the
kernel-style walk follows no link: what it finds is the entry at that very path
(`kwalk_linkFree`). -/
namespace Fs

def IsLinkAt (t : Tree) (p : Path) : Prop := ∃ tgt, t.lstat p = some (.link tgt)

def Plainname (n : Name) : Prop := n ≠ "" ∧ n ≠ "." ∧ n ≠ ".."

/-- no non-empty prefix of `p` is a symlink of the tree and every component is an ordinary name -/
def LinkFree (t : Tree) (p : Path) : Prop :=
  (∀ k, 0 < k → k ≤ p.length → ¬ IsLinkAt t (p.take k)) ∧ ∀ n ∈ p, Plainname n

theorem linkFree_nil (t : Tree) : LinkFree t [] := by
  constructor
  · intro k h1 h2; simp at h2; omega
  · intro n hn; simp at hn

theorem linkFree_dropLast {t : Tree} {p : Path} (h : LinkFree t p) : LinkFree t p.dropLast := by
  constructor
  · intro k h1 h2
    have hk : k ≤ p.length - 1 := by simpa using h2
    have e : p.dropLast.take k = p.take k := by
      rw [List.dropLast_eq_take, List.take_take]
      congr 1
      omega
    rw [e]
    exact h.1 k h1 (by omega)
  · intro n hn
    rw [List.dropLast_eq_take] at hn
    exact h.2 n (List.mem_of_mem_take hn)

theorem linkFree_snoc {t : Tree} {p : Path} {n : Name} (h : LinkFree t p) (hl : ¬ IsLinkAt t (p ++ [n]))
    (hn : Plainname n) : LinkFree t (p ++ [n]) := by
  constructor
  · intro k h1 h2
    simp at h2
    by_cases hk : k ≤ p.length
    · rw [List.take_append_of_le_length hk]; exact h.1 k h1 hk
    · have : k = p.length + 1 := by omega
      subst this
      have e : (p ++ [n]).take (p.length + 1) = p ++ [n] := by
        apply List.take_of_length_le; simp
      rw [e]; exact hl
  · intro m hm
    simp at hm
    rcases hm with hm | rfl
    · exact h.2 m hm
    · exact hn

/-- every path remembered as "already resolved" is link free -/
def SeenOk (t : Tree) (seen : List (Path × Option Path)) : Prop := ∀ q r, (q, some r) ∈ seen → LinkFree t r


theorem joinReal_linkFree (t : Tree) (strict : Bool) : ∀ (fuel : Nat) (path : Path) (rest : List Name)
    (seen : List (Path × Option Path)) (r : Path) (seen' : List (Path × Option Path)),
    LinkFree t path → SeenOk t seen → joinReal t strict fuel path rest seen = (r, true, seen') →
    LinkFree t r ∧ SeenOk t seen' := by
  intro fuel
  induction fuel with
  | zero => intro path rest seen r seen' _ _ h; simp [joinReal] at h
  | succ f ih =>
    intro path rest seen r seen' hp hs h
    cases rest with
    | nil => simp [joinReal] at h; obtain ⟨rfl, rfl⟩ := h; exact ⟨hp, hs⟩
    | cons name rest' =>
      unfold joinReal at h
      simp only at h
      by_cases h1 : name = "" ∨ name = "."
      · rw [if_pos h1] at h; exact ih _ _ _ _ _ hp hs h
      · rw [if_neg h1] at h
        by_cases h2 : name = ".."
        · rw [if_pos h2] at h; exact ih _ _ _ _ _ (linkFree_dropLast hp) hs h
        · rw [if_neg h2] at h
          have hname : Plainname name := ⟨fun e => h1 (Or.inl e), fun e => h1 (Or.inr e), h2⟩
          cases hl : t.lstat (path ++ [name]) with
          | none =>
            rw [hl] at h
            simp only at h
            cases strict with
            | true => simp at h
            | false =>
              simp only [Bool.false_eq_true, if_false] at h
              exact ih _ _ _ _ _ (linkFree_snoc hp (by intro ⟨tgt, e⟩; rw [hl] at e; cases e) hname) hs h
          | some nd =>
            rw [hl] at h
            cases nd with
            | file id =>
              simp only at h
              exact ih _ _ _ _ _ (linkFree_snoc hp (by intro ⟨tgt, e⟩; rw [hl] at e; cases e) hname) hs h
            | dir =>
              simp only at h
              exact ih _ _ _ _ _ (linkFree_snoc hp (by intro ⟨tgt, e⟩; rw [hl] at e; cases e) hname) hs h
            | link target =>
              simp only at h
              cases hf : seen.find? (·.1 == path ++ [name]) with
              | some e =>
                rw [hf] at h
                obtain ⟨q, o⟩ := e
                cases o with
                | none => simp at h
                | some resolved =>
                  simp only at h
                  have hm := List.mem_of_find?_eq_some hf
                  exact ih _ _ _ _ _ (hs q resolved hm) hs h
              | none =>
                rw [hf] at h
                simp only at h
                generalize hres : joinReal t strict f (if target.startsWith "/" then [] else path) (splitPath target)
                  ((path ++ [name], none) :: seen) = res at h
                obtain ⟨p2, ok, seen2⟩ := res
                simp only at h
                cases ok with
                | false => simp at h
                | true =>
                  simp only [Bool.not_true, Bool.false_eq_true, if_false] at h
                  have hstart : LinkFree t (if target.startsWith "/" then [] else path) := by
                    split
                    · exact linkFree_nil t
                    · exact hp
                  have hs1 : SeenOk t ((path ++ [name], none) :: seen) := by
                    intro q r hm
                    simp at hm
                    exact hs q r hm
                  obtain ⟨hp2, hs2⟩ := ih _ _ _ _ _ hstart hs1 hres
                  have hs3 : SeenOk t ((path ++ [name], some p2) :: seen2) := by
                    intro q r hm
                    simp at hm
                    rcases hm with ⟨_, rfl⟩ | hm
                    · exact hp2
                    · exact hs2 q r hm
                  exact ih _ _ _ _ _ hp2 hs3 h

/-- what `os.path.realpath` returns without having met a loop contains no symlink -/
theorem realpath_linkFree (t : Tree) (p r : Path) (h : realpath t p = (r, true)) : LinkFree t r := by
  unfold realpath at h
  generalize hres : joinReal t false 200 [] p [] = res at h
  obtain ⟨r', ok, s'⟩ := res
  simp only [Prod.mk.injEq] at h
  obtain ⟨rfl, rfl⟩ := h
  exact (joinReal_linkFree t false 200 [] p [] _ _ (linkFree_nil t) (by intro q r hm; simp at hm) hres).1


theorem not_link_prefix {t : Tree} {cur : Path} {name : Name} {rest : List Name}
    (h : LinkFree t (cur ++ name :: rest)) : ¬ IsLinkAt t (cur ++ [name]) := by
  have := h.1 (cur.length + 1) (by omega) (by simp)
  have e : (cur ++ name :: rest).take (cur.length + 1) = cur ++ [name] := by
    have e2 : cur ++ name :: rest = (cur ++ [name]) ++ rest := by simp
    rw [e2, List.take_append_of_le_length (by simp)]
    apply List.take_of_length_le; simp
  rwa [e] at this

/-- on a link-free path the kernel-style walk follows no symlink: whatever it finds is the entry at
    that very path (an operation on the path touches that path only) -/
theorem kwalk_linkFree (t : Tree) : ∀ (fuel : Nat) (cur : Path) (rest : List Name) (q : Path) (n : Node),
    LinkFree t (cur ++ rest) → kwalk t fuel cur rest = .found q n → q = cur ++ rest ∧ t.lstat q = some n := by
  intro fuel
  induction fuel with
  | zero => intro cur rest q n _ h; simp [kwalk] at h
  | succ f ih =>
    intro cur rest q n hlf h
    cases rest with
    | nil =>
      simp only [kwalk] at h
      split at h
      · rename_i nd hl
        simp only [Walk.found.injEq] at h
        obtain ⟨rfl, rfl⟩ := h
        exact ⟨by simp, hl⟩
      · cases h
    | cons name rest' =>
      have hname : Plainname name := hlf.2 name (by simp)
      have h1 : ¬ (name = "" ∨ name = ".") := fun e => e.elim hname.1 hname.2.1
      have h2 : ¬ name = ".." := hname.2.2
      unfold kwalk at h
      simp only [h1, h2, if_false] at h
      split at h
      · split at h
        · cases h
        · split at h
          · rename_i tgt hl
            exact absurd ⟨tgt, hl⟩ (not_link_prefix hlf)
          · have := ih (cur ++ [name]) rest' q n (by simpa using hlf) h
            simpa using this
          · cases h
      · cases h

theorem kstat_linkFree (t : Tree) (p q : Path) (n : Node) (h : LinkFree t p) (hk : kstat t p = some (q, n)) :
    q = p ∧ t.lstat p = some n := by
  unfold kstat kwalkTop at hk
  split at hk
  · rename_i q' n' hw
    simp only [Option.some.injEq, Prod.mk.injEq] at hk
    obtain ⟨rfl, rfl⟩ := hk
    have := kwalk_linkFree t 300 [] p q' n' (by simpa using h) hw
    simp only [List.nil_append] at this
    obtain ⟨rfl, h2⟩ := this
    exact ⟨rfl, h2⟩
  · cases hk


/-- the symlink tree as the OS the upload handler sees (what the driver runs): `Path.resolve()`
    non-strict with its pseudo-loop quirk (`resolveLax`), `stat` by the kernel-style walk, `lstat`
    by look-up, `os.path.realpath` by the `_joinrealpath` port followed by `abspath` (which only
    matters for the unresolved remainder of a loop result) -/
def treeUOS (tr : Tree) : UOS where
  resolve := resolveLax tr
  kind := (treeOS tr []).kind
  size := fun _ => 0
  readText := fun _ => .ioError
  listing := fun _ => none
  lexists := fun p => (tr.lstat p).isSome
  realpath := fun p => if (realpath tr p).2 then some (realpath tr p).1 else some (normpath (realpath tr p).1)

/-- in the tree instance a `realpath` fixpoint reached without meeting a loop is a link-free path -/
theorem treeUOS_fix_linkFree (tr : Tree) (t : Path) (hfix : (treeUOS tr).realpath t = some t)
    (hok : (realpath tr t).2 = true) : LinkFree tr t := by
  simp only [treeUOS, hok, if_true, Option.some.injEq] at hfix
  have : realpath tr t = (t, true) := by
    cases hr : realpath tr t with
    | mk a b => rw [hr] at hfix hok; simp only at hfix hok; rw [hfix, hok]
  exact realpath_linkFree tr t t this

end Fs
