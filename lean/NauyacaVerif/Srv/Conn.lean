import NauyacaVerif.Url.Basic
import NauyacaVerif.Srv.Render
namespace Srv

def maxRequest : Nat := 1024
/-- `REQUEST_TIMEOUT` in 1/8 s -/
def requestTimeout8 : Nat := 240

/-- index of first CRLF -/
def findCRLF : Bytes → Option Nat
  | [] => none
  | [_] => none
  | a :: b :: rest => if a = 13 ∧ b = 10 then some 0 else (findCRLF (b :: rest)).map (· + 1)

def decodeUtf8 (b : Bytes) : Option (List Char) :=
  (String.fromUTF8? (ByteArray.mk (b.map Nat.toUInt8).toArray)).map String.toList

def asciiEnv : Url.Env :=
  { ipLiteralOk := fun _ => true, nfkcOk := fun _ => true, lowerU := fun s => s.map Url.lowerAscii }

def titanLit : List Char := ['t', 'i', 't', 'a', 'n', ':', '/', '/']
def geminiLit : List Char := ['g', 'e', 'm', 'i', 'n', 'i', ':', '/', '/']
def sizeLit : List Char := ['s', 'i', 'z', 'e']

/-- Python's `str.isspace` (what `str.strip()` and `int()` strip): the ASCII part and the Unicode spaces -/
def isWs (c : Char) : Bool :=
  let n := c.toNat
  (9 ≤ n && n ≤ 13) || (28 ≤ n && n ≤ 32) || n = 0x85 || n = 0xa0 || n = 0x1680 || (0x2000 ≤ n && n ≤ 0x200a) ||
  n = 0x2028 || n = 0x2029 || n = 0x202f || n = 0x205f || n = 0x3000
def stripWs (s : List Char) : List Char := ((s.dropWhile isWs).reverse.dropWhile isWs).reverse

def splitAllAux (c : Char) : List Char → List Char → List (List Char)
  | [], cur => [cur.reverse]
  | x :: xs, cur => if x = c then cur.reverse :: splitAllAux c xs [] else splitAllAux c xs (x :: cur)
def splitAll (c : Char) (s : List Char) : List (List Char) := splitAllAux c s []

/-- ASCII fragment of Python's `int(str)`: optional sign, digits, single underscores between digits -/
def pyIntDigits : List Char → Bool → Option Nat → Option Nat   -- (rest, prevWasDigit, acc)
  | [], prevDigit, acc => if prevDigit then acc else none
  | c :: cs, prevDigit, acc =>
    if c.isDigit then pyIntDigits cs true (some ((acc.getD 0) * 10 + (c.toNat - 48)))
    else if c = '_' && prevDigit then pyIntDigits cs false acc
    else none
def pyInt (s0 : List Char) : Option Int :=
  let s := stripWs s0
  match s with
  | '-' :: r => (pyIntDigits r false none).map (fun n => - (n : Int))
  | '+' :: r => (pyIntDigits r false none).map (fun n => (n : Int))
  | r => (pyIntDigits r false none).map (fun n => (n : Int))

/-- `_parse_titan_params` then lookup of "size" (last duplicate wins) -/
def titanSizeParam (params : List Char) : Option (List Char) :=
  (splitAll ';' params).foldl (fun acc part =>
    match Url.splitOnce '=' part with
    | some (k, v) => if stripWs k = sizeLit then some (stripWs v) else acc
    | none => acc) none

/-- `TitanRequest.from_line` : some size, or none when it raises -/
def titanParse (env : Url.Env) (line : List Char) : Option Nat :=
  match Url.splitOnce ';' line with
  | none => none
  | some (urlPart, params) =>
    match titanSizeParam params with
    | none => none
    | some sz =>
      match pyInt sz with
      | none => none
      | some n =>
        if n < 0 then none else
        match Url.parseUrl env (geminiLit ++ urlPart.drop 8) with
        | .ok _ => some n.toNat
        | .error _ => none

/-- `GeminiRequest.from_line` succeeds? (`validate_url` length test cannot fail after the protocol's own) -/
def geminiOk (env : Url.Env) (line : List Char) : Bool :=
  match Url.parseUrl env line with | .ok _ => true | .error _ => false

/-! ### the connection state machine -/
inductive HScript where
  | sync (r : Resp) | syncRaise | async
deriving Repr

structure Cfg where
  mw : Bool
  upload : Bool
  handler : HScript
  env : Url.Env

inductive Phase where
  | awaitLine | awaitTitan | mwG | mwT | hPend | uPend | done
deriving Repr, DecidableEq

/-- what is written: exact bytes, or only the status is modelled (message text is Python's) -/
inductive Out where
  | exact (b : Bytes)
  | statusOnly (status : Nat)
  | close
deriving Repr, DecidableEq

structure St where
  phase : Phase := .awaitLine
  buf : Bytes := []
  timer : Bool := true
  lost : Bool := false
  sent : Bool := false
  out : List Out := []
  hcalls : Nat := 0
  ucalls : Nat := 0
  mwcalls : Nat := 0
  allowed : Nat := 0   -- ghost: middleware `allow` results consumed
  size : Nat := 0
  content : Bytes := []
  now : Nat := 0                 -- virtual clock in 1/8 s since `connection_made`
  req : Option Bytes := none     -- ghost: the request line that was parsed (without CRLF)
deriving Repr

inductive Ev where
  | data (c : Bytes) | timeout | lost
  | tick (dt : Nat)              -- the clock advances by `dt`/8 s and due timers run
  | mwAllow | mwDeny (line : Option (List Char)) | mwRaise
  | hDone (r : Resp) | hRaise | uDone (r : Resp) | uRaise
deriving Repr

def respondWith (s : St) (outs : List Out) : St :=
  if s.lost ∨ s.sent then { s with phase := .done } else
  { s with sent := true, timer := false, phase := .done, out := s.out ++ outs ++ [.close] }

def respond (s : St) (r : Resp) : St :=
  let (h, b) := render r
  respondWith s (if b.isEmpty then [.exact h] else [.exact h, .exact b])

def respondFixed (s : St) (status : Int) (msg : String) : St := respond s ⟨status, strOf msg, .none⟩
def respondDyn (s : St) (status : Nat) : St := respondWith s [.statusOnly status]

def route (cfg : Cfg) (s : St) : St :=
  let s := { s with hcalls := s.hcalls + 1 }
  match cfg.handler with
  | .sync r => respond s r
  | .syncRaise => respondDyn s 40
  | .async => { s with phase := .hPend }

def startUpload (s : St) : St := { s with ucalls := s.ucalls + 1, phase := .uPend }

def dispatchT (cfg : Cfg) (s : St) : St :=
  let s := { s with timer := false, content := s.buf.take s.size }
  if cfg.mw then { s with mwcalls := s.mwcalls + 1, phase := .mwT } else startUpload s

def dispatchG (cfg : Cfg) (s : St) : St :=
  if cfg.mw then { s with mwcalls := s.mwcalls + 1, phase := .mwG } else route cfg s

/-- `_send_middleware_rejection` -/
def rejection (line : Option (List Char)) : Resp :=
  let dflt : Resp := ⟨40, strOf "Request refused", .none⟩
  match line with
  | none => dflt
  | some l0 =>
    let l := if l0.length ≥ 2 ∧ l0.drop (l0.length - 2) = ['\r', '\n'] then l0.take (l0.length - 2) else l0
    let (code, text) := match Url.splitOnce ' ' l with | some (a, b) => (a, b) | none => (l, [])
    match code with
    | [a, b] =>
      if a.isDigit ∧ b.isDigit then
        let n := (a.toNat - 48) * 10 + (b.toNat - 48)
        if 20 ≤ n ∧ n ≤ 29 then dflt else ⟨n, text.map Char.toNat, .none⟩
      else dflt
    | _ => dflt

def onLine (cfg : Cfg) (s : St) (lineB rest : Bytes) : St :=
  let s := { s with buf := rest, req := some lineB }
  match decodeUtf8 lineB with
  | none => respondFixed s 59 "Invalid UTF-8 encoding"
  | some line =>
    if titanLit.isPrefixOf line then
      if !cfg.upload then respondFixed s 50 "Titan uploads not supported on this server" else
      match titanParse cfg.env line with
      | none => respondDyn s 59
      | some n =>
        let s := { s with size := n }
        if n = 0 ∨ s.buf.length ≥ n then dispatchT cfg s else { s with phase := .awaitTitan }
    else
      let s := { s with timer := false }
      if geminiOk cfg.env line then dispatchG cfg s else respondDyn s 59

def tooLong (s : St) : St := respondFixed s 59 "Request exceeds maximum size (1024 bytes)"

/-- state 1 of `data_received`: looking for the request line in the accumulated buffer -/
def lineStep (cfg : Cfg) (s : St) (buf : Bytes) : St :=
  match findCRLF buf with
  | none => if buf.length > maxRequest then tooLong { s with buf := buf } else { s with buf := buf }
  | some i =>
    if i + 2 > maxRequest then tooLong { s with buf := buf }
    else onLine cfg { s with buf := buf } (buf.take i) (buf.drop (i + 2))

/-- state 2 of `data_received`: waiting for the declared number of Titan content bytes -/
def titanStep (cfg : Cfg) (s : St) (buf : Bytes) : St :=
  if buf.length ≥ s.size then dispatchT cfg { s with buf := buf } else { s with buf := buf }

def step (cfg : Cfg) (s : St) : Ev → St
  | .data c =>
    if s.lost then s else   -- asyncio delivers nothing after connection_lost
    match s.phase with
    | .awaitLine => if s.sent then s else lineStep cfg s (s.buf ++ c)
    | .awaitTitan => titanStep cfg s (s.buf ++ c)
    | _ => s
  | .timeout => if s.timer ∧ !s.lost then respondFixed s 40 "Request timeout" else s
  | .tick dt =>
    if s.timer ∧ !s.lost ∧ s.now + dt ≥ requestTimeout8
    then respondFixed { s with now := s.now + dt } 40 "Request timeout" else { s with now := s.now + dt }
  | .lost => { s with lost := true, timer := false }
  | .mwAllow => match s.phase with
    | .mwG => route cfg { s with allowed := s.allowed + 1 }
    | .mwT => startUpload { s with allowed := s.allowed + 1 }
    | _ => s
  | .mwDeny l => match s.phase with
    | .mwG | .mwT => respond s (rejection l)
    | _ => s
  | .mwRaise => match s.phase with
    | .mwG | .mwT => respondFixed s 40 "Middleware error"
    | _ => s
  | .hDone r => if s.phase = .hPend then respond s r else s
  | .hRaise => if s.phase = .hPend then respondDyn s 40 else s
  | .uDone r => if s.phase = .uPend then respond s r else s
  | .uRaise => if s.phase = .uPend then respondDyn s 40 else s

def run (cfg : Cfg) (evs : List Ev) : St := evs.foldl (step cfg) {}
end Srv
