import NauyacaVerif.Drv.Common
import NauyacaVerif.Url.Proxy
import NauyacaVerif.Url.Router
import NauyacaVerif.Srv.Render
import NauyacaVerif.Srv.RelayModel
import NauyacaVerif.Url.WireModel
namespace NauyacaVerif.Drv.ProxyD
open NauyacaVerif.Drv Url

def parseRoute (s : String) : Option Route :=
  if s.startsWith "e:" then some ⟨cpsChars (s.drop 2).toString, .exact⟩
  else if s.startsWith "p:" then some ⟨cpsChars (s.drop 2).toString, .pfx⟩
  else none

def parseBody (b : String) : Srv.Body :=
  if b == "n" then .none
  else if b.startsWith "s:" then .str (cpsNat (b.drop 2).toString)
  else .bytes (unhexS (b.drop 2).toString)

def faultOfName (s : String) : Option Srv.Fault :=
  [("refused", Srv.Fault.refused), ("tlsFailure", .tlsFailure), ("closedBeforeHeader", .closedBeforeHeader),
   ("closedMidHeader", .closedMidHeader), ("reset", .reset), ("stallConnect", .stallConnect), ("stallHeader", .stallHeader),
   ("stallBody", .stallBody), ("garbageHeader", .garbageHeader), ("statusSpelling", .statusSpelling),
   ("missingSeparator", .missingSeparator), ("metaControl", .metaControl), ("headerTooLong", .headerTooLong),
   ("statusOutOfRange", .statusOutOfRange), ("headerNotUtf8", .headerNotUtf8), ("bodyTooLarge", .bodyTooLarge),
   ("badUpstreamUrl", .badUpstreamUrl)].lookup s

def showRender (r : Srv.Resp) : String :=
  let hb := Srv.render r
  s!"ok {toHex hb.1} {toHex hb.2}"

inductive Loc where
  | static (pre : Str)
  | proxy (pre : Str) (strip : Bool) (up : Str)

def Loc.pre : Loc → Str
  | .static p => p
  | .proxy p _ _ => p

/-- loc ::= `s:<prefix>` | `x:<prefix>:<strip 0|1>:<upstream>` (code points) -/
def parseLoc (s : String) : Option Loc :=
  match s.splitOn ":" with
  | ["s", p] => some (.static (cpsChars p))
  | ["x", p, st, up] => if st == "0" || st == "1" then some (.proxy (cpsChars p) (st == "1") (cpsChars up)) else none
  | _ => none

def lowerA (s : Str) : Str := s.map lowerAscii
def mkEnv (ip nf : String) : Env := { ipLiteralOk := fun _ => ip == "1", nfkcOk := fun _ => nf == "1", lowerU := lowerA }

/-- the whole chain for one request line: `GeminiRequest.from_line` → location router → `ProxyHandler` URL
    construction → the proxy client's `validate_url` / `parse_url` (whom it contacts and what it sends) -/
def proxyCase (line : Str) (env1 env2 : Env) (locs : List Loc) : String :=
  match validated env1 1024 line with
  | .error _ => "ok rejected"
  | .ok R =>
    match route (locationRoutes (locs.map Loc.pre)) R.path with
    | none => "ok default"
    | some i =>
      match locs[i]? with
      | none => "bad-op"
      | some (.static _) => s!"ok {i} static"
      | some (.proxy pre strip up) =>
        let url := proxyUrl up (locPrefix pre) strip R.path R.query
        match validated env2 1024 url with
        | .error _ => s!"ok {i} {showCps url} invalid"
        | .ok P => s!"ok {i} {showCps url} {showCps P.host} {P.port} {showCps P.normalized}"

/-- line-protocol handler of this area; `none` = not one of ours
    `proxy <upstream> <prefix> <strip:0|1> <path> <query>`  (code points)  → `ok <url>`
    `route <path> <r;r;…|->`   r ::= `e:<pattern>` | `p:<pattern>`        → `ok <index>` | `ok default`
    `pcase <line> <ip1> <nf1> <ip2> <nf2> <loc;loc;…|->`  loc ::= `s:<prefix>` | `x:<prefix>:<strip>:<upstream>`
         → `ok rejected` | `ok default` | `ok <i> static` | `ok <i> <url> invalid` | `ok <i> <url> <host> <port> <request line>`
    `pcasen <ip1> <nf1> <ip2> <nf2> <locs> <line;line;…>` → the `pcase` answers joined by ` ; `
    `relay resp <status> <meta> <n | b:hex | s:cps>` | `relay fail <t|c|o> <msg>` | `relay fault <kind> <msg>` → `ok <header-hex> <body-hex>` -/
def handle : List String → Option String
  | ["proxy", up, pre, strip, path, query] =>
    if strip == "0" || strip == "1" then
      some s!"ok {showCps (proxyUrl (cpsChars up) (cpsChars pre) (strip == "1") (cpsChars path) (cpsChars query))}"
    else some "bad-op"
  | ["route", path, routes] =>
    match (if routes == "-" then some [] else (routes.splitOn ";").mapM parseRoute) with
    | none => some "bad-op"
    | some rs =>
      match route rs (cpsChars path) with
      | some i => some s!"ok {i}"
      | none => some "ok default"
  | ["relay", "resp", st, m, b] =>
    some (showRender (Srv.proxyRespond (.resp ⟨parseInt st, cpsNat m, parseBody b⟩)))
  | ["relay", "fault", kind, msg] =>
    match faultOfName kind with
    | some f => some (showRender (Srv.proxyRespond (.fail f.cls (cpsNat msg))))
    | none => some "bad-op"
  | ["relay", "fail", k, msg] =>
    match (if k == "t" then some Srv.FailClass.timeout else if k == "c" then some .connection else if k == "o" then some .other else none) with
    | some cls => some (showRender (Srv.proxyRespond (.fail cls (cpsNat msg))))
    | none => some "bad-op"
  | ["pcase", line, ip1, nf1, ip2, nf2, locs] =>
    match (if locs == "-" then some [] else (locs.splitOn ";").mapM parseLoc) with
    | none => some "bad-op"
    | some ls => some (proxyCase (cpsChars line) (mkEnv ip1 nf1) (mkEnv ip2 nf2) ls)
  | ["pcasen", ip1, nf1, ip2, nf2, locs, lines] =>
    -- several requests through the same configuration: the outcome of each is a function of that request alone
    match (if locs == "-" then some [] else (locs.splitOn ";").mapM parseLoc) with
    | none => some "bad-op"
    | some ls => some (" ; ".intercalate ((lines.splitOn ";").map (fun l => proxyCase (cpsChars l) (mkEnv ip1 nf1) (mkEnv ip2 nf2) ls)))
  | "pcase" :: _ => some "bad-op"
  | "pcasen" :: _ => some "bad-op"
  | "proxy" :: _ => some "bad-op"
  | "route" :: _ => some "bad-op"
  | "relay" :: _ => some "bad-op"
  | _ => none
end NauyacaVerif.Drv.ProxyD
