"""C19  URL normalisation preserves meaning and is idempotent

Correspondence: `parse_url` / `normalize_url` of the working tree against `Url.parseUrl` in the Lean
model (family `parse`, in-process, RFC 3986 generator restricted to gemini + mutations), and the request
line a real `GeminiClient.get` writes against what a real `GeminiServerProtocol` behind TLS on loopback
makes of it (family `wire`, spy handler; the model side is `Url.clientWire` / `Url.serverParse`); the same with the
command line as the caller (family `cmdline`: every command of the typer tree that takes a URL, run in-process against the
spy server; oracle only).
"""
from __future__ import annotations

import asyncio
import logging
import random
import unicodedata
import urllib.parse as up

from .. import core
from ..core import Family, cps, uncps

ID = "C19"
READY = True
LEAN_TARGETS = ["NauyacaVerif.Props.C19", "NauyacaVerif.Props.Tr.ParseUrl"]
TRANSLATED = ["parseUrl"]
THEOREMS = [f"NauyacaVerif.C19.{t}" for t in (
    "norm_accepted_partial", "norm_same_partial", "norm_idem_partial", "norm_idem_plain_partial",
    "wire_roundtrip_partial", "tail_canonical", "defaultPort_tie", "maxRequest_tie")] + ["NauyacaVerif.Translated.parseUrl_eq"]
EXTRACT = ["defaultPort", "maxRequest"]
ASSUMPTIONS = [
    "urllib.parse of the interpreter in /venv (3.12.1) is what Url.urlsplit ports; ipaddress.ip_address / the IPvFuture regex on a bracketed host and the NFKC check on a non-ASCII authority are opaque (passed to the model per case as oracle bits); str.lower is modelled as ASCII lower-casing",
    "theorems cover ASCII authorities; host names with non-ASCII characters are checked by correspondence (family parse: model compared when str.lower acts as ASCII lower-casing on the authority, direct oracle always) — not proved",
    "the IP-literal check is assumed to accept the lower-cased spelling of whatever it accepts (IpStable): ipaddress parses hex digits case-insensitively and the IPvFuture pattern allows both cases after the leading 'v'",
    "the UTF-8 encode/decode pair between client and server is treated as the identity on text (codec contract)",
    "family cmdline runs the commands in-process (typer's CliRunner, private HOME) with BaseEventLoop.create_connection wrapped for the calling thread the way family wire wraps it; arguments the library rejects are run but not judged (a command line may complete or refuse what the library does not accept)",
    "family wire redirects the client's TCP connection to the loopback spy server whatever host/port the URL names (loop.create_connection is wrapped; the requested host/port are recorded), so default-port and non-resolvable host spellings can be exercised; TLS is real",
]
LEVEL_TEXT = "partial"
LEVEL_NOTE = ("proved for every URL with an ASCII authority (reg-name, IPv4, bracketed IPv6 with/without zone, IPvFuture, any port spelling, "
              "any path/query); host names with non-ASCII characters are covered by correspondence only (str.lower / NFKC are opaque); "
              "the TLS/TCP path between client and server is exercised live, not modelled")
TECHNIQUE = "Lean 4 proofs over a port of urlsplit/parse_url (norm_idem_ascii, parse_canonical, wire_roundtrip) + differential testing against parse_url and a live client/server pair"

logging.disable(logging.CRITICAL)

# ------------------------------------------------------------------------------------------------
# generator: RFC 3986 restricted to gemini, plus mutations
# ------------------------------------------------------------------------------------------------
UNRESERVED = "abcdefghijklmnopqrstuvwxyzABCDEFGHIJKLMNOPQRSTUVWXYZ0123456789-._~"
SUBDELIMS = "!$&'()*+,;="
HEX = "0123456789abcdefABCDEF"
ODD = " \t\r\n\\|^`{}<>\"[]%#?@:/\x00\x1f\x7f"
NONASCII_HOST = ["é", "ä", "ß", "İ", "Ａ", "ｅ", "℀", "／", "＠", "：", "？", "＃", "⁈", "ǅ", "Σ", "ς", "ı", "K", "Ω", "ﬁ", "٣", "日本", "­", "‍", "\U0001f600", "ª", "⑴", "︓", "﹕"]
# raw non-ASCII text for paths and queries (IRIs): every Unicode normalisation situation - composed and decomposed spellings of the same
# letter, singletons whose canonical form is another code point, conjoining jamo / syllables, marks in and out of canonical order,
# composition exclusions, compatibility characters (only NFKC/NFKD touch them), case pairs, astral characters
TEXT = ["é", "e\u0301", "ü", "u\u0308", "日", "\U0001f600", "İ", "\u212b", "\u00c5", "A\u030a", "\u2126", "\u03a9", "\u212a", "\u1100\u1161", "\uac00", "\u1100\u1161\u11a8",
        "a\u0323\u0307", "a\u0307\u0323", "\u1e9b\u0323", "\u0958", "\u0915\u093c", "\u0344", "\u0340", "\u2000", "\ufb01", "\uff21", "\u00aa", "\u2460", "\u00df", "\u1e9e", "\u03c2",
        "\u0131", "\u01c5", "\u0301", "\u00ad", "\u200d", "\u0f73", "\U0001d15e", "\u2adc", "\U0002f800"]
# characters that text functions take for the end of a line (str.splitlines, re `$`/`^` in MULTILINE mode, file iteration in universal
# newline mode) or for white space (str.strip / str.split / `\s`) although they are neither CR nor LF nor anything urlsplit removes:
# inside a path or a query they are data the caller asked for, and code that "cleans" a request line with such a function loses them
LINE_BREAKS = ["\x0b", "\x0c", "\x1c", "\x1d", "\x1e", "\x85", "\u2028", "\u2029"]
SPACES = ["\x1f", "\xa0", "\u1680", "\u2000", "\u2003", "\u200a", "\u202f", "\u205f", "\u3000", "\ufeff", "\u200b", "\u180e", "\x7f"]
SEPARATORS = LINE_BREAKS + SPACES
# texts that look like the beginning of a URL or like a piece of an authority: in a path or query they are ordinary data (a search for
# a URL, a gateway or link checker that takes a URL as its input, a page that is named after one), and code that rewrites the caller's
# URL by text substitution (scheme aliases, default-port removal, host lower-casing with str.replace / re.sub) changes them too
SCHEME_WORDS = ["gemini", "titan", "Titan", "TITAN", "GEMINI", "http", "https", "gopher", "spartan", "file"]
EMBED = [w + sep for w in SCHEME_WORDS for sep in ("://", ":", ":/")] + ["//", "://", ":1965", ":1965/", ":01965", ":443", "@", "localhost", "LOCALHOST", "titan:%2F%2F", "%2F%2F", "/./", "/../"]
SCHEMES = ["gemini"] * 12 + ["GEMINI", "Gemini", "gEmInI", "http", "titan", "gemini+x", "gemin", "geminii", "", "1gemini", "gem ini", "gemini\t"]
SEEDS = [
    "gemini://[::1]/x", "gemini://[::1]", "gemini://[::1]:1965/", "gemini://[::1]:70/a?b", "gemini://[FE80::1%25eth0]/", "gemini://[fe80::1%eth0]:1966/p",
    "gemini://[2001:DB8::1]/", "gemini://[::ffff:1.2.3.4]/", "gemini://[v1.fe]/", "gemini://[v1.a:b]/", "gemini://[vF.a-b:c]:7/", "gemini://[v1.a[b]/", "gemini://[v1.a[b:]/",
    "gemini://[1.2.3.4]/", "gemini://[zz]/", "gemini://[::1", "gemini://::1]/", "gemini://[::1]x/", "gemini://x[::1]/", "gemini://[::1]:/", "gemini://[::1]:x/", "gemini://[::1]@h/", "gemini://@[::1]/",
    "gemini://example.com", "gemini://example.com/", "GEMINI://EXAMPLE.COM:1965/Path?Query", "gemini://example.com:01965", "gemini://example.com:0/", "gemini://example.com:65535/",
    "gemini://example.com:65536/", "gemini://example.com:/", "gemini://example.com:1966", "gemini://h?", "gemini://h/?", "gemini://h?q", "gemini://h??", "gemini://h/a;b;c?d;e", "gemini://h;p",
    "gemini://h/%2F%2e%2e%00%", "gemini://h/a//b/./../c", "gemini://h/a:b@c", "gemini://h//", "gemini://@h/", "gemini://:@h/", "gemini://u@h/", "gemini://u:p@h/", "gemini://a@b@h/",
    "gemini://h/#", "gemini://h/#f", "gemini://h#", " gemini://h/", "gemini://h/ x", "gemini://h/\tx", "gem\nini://h/", "gemini:///x", "gemini://", "gemini:/h", "gemini:h", "//h/", "",
    "gemini://127.0.0.1/", "gemini://1.2.3.4:70", "gemini://h%41/", "gemini://h%/", "gemini://exämple.com/", "gemini://İ.com/", "gemini://ＥＸ.com/", "gemini://a℀b/", "gemini://h/é?ü",
    "gemini://h:٣/", "gemini://h:¹/", "gemini://h:+1/", "gemini://h:1_0/", "gemini://h: 1/", "gemini://H.:1965/.", "gemini://-/", "gemini://h/[x]", "gemini://h/?[x]",
]


def pct(rng):
    return "%" + rng.choice(HEX) + rng.choice(HEX)


def pchar(rng):
    r = rng.random()
    if r < 0.55:
        return rng.choice(UNRESERVED)
    if r < 0.67:
        return pct(rng)
    if r < 0.82:
        return rng.choice(SUBDELIMS)
    if r < 0.89:
        return rng.choice(":@")
    if r < 0.95:
        return rng.choice(TEXT)
    if r < 0.97:
        return rng.choice(SEPARATORS)
    return rng.choice(ODD)


def gen_regname(rng):
    n = rng.choice([1, 1, 2, 3, 5, 9])
    s = ""
    for _ in range(n):
        r = rng.random()
        if r < 0.75:
            s += rng.choice(UNRESERVED)
        elif r < 0.83:
            s += pct(rng)
        elif r < 0.93:
            s += rng.choice(SUBDELIMS)
        else:
            s += rng.choice(NONASCII_HOST)
    return s


def gen_v6(rng):
    groups = [format(rng.randrange(0, 65536), rng.choice(["x", "X", "04x"])) for _ in range(8)]
    form = rng.random()
    if form < 0.25:
        a = ":".join(groups)
    elif form < 0.6:
        i, j = sorted(rng.sample(range(0, 9), 2))
        a = ":".join(groups[:i]) + "::" + ":".join(groups[j:])
    elif form < 0.7:
        a = "::"
    elif form < 0.8:
        a = "::" + rng.choice(["1", "ffff:1.2.3.4", "FFFF:127.0.0.1"])
    elif form < 0.9:
        a = rng.choice(["fe80::1", "FE80::A", "fe80::1:2"])
    else:
        a = rng.choice(["1::2::3", ":::", "12345::", "g::1", "1.2.3.4", "::1.2.3", ""])
    z = rng.random()
    if z < 0.15:
        a += "%25" + rng.choice(["eth0", "ETH0", "1", "en-1"])
    elif z < 0.25:
        a += "%" + rng.choice(["eth0", "Lo", "", "%", "a:b", "a[b"])
    return a


def gen_vfuture(rng):
    body = "".join(rng.choice(UNRESERVED + SUBDELIMS + "::" + ("[%@" if rng.random() < 0.2 else "")) for _ in range(rng.randint(0, 5)))
    return rng.choice(["v", "v", "V"]) + rng.choice(["1", "F", "a9", "", "g"]) + rng.choice([".", ".", ""]) + body


def gen_host(rng):
    r = rng.random()
    if r < 0.4:
        return gen_regname(rng)
    if r < 0.5:
        return ".".join(str(rng.choice([0, 1, 127, 255, 256, 10])) for _ in range(rng.choice([4, 4, 4, 3, 5])))
    if r < 0.75:
        return "[" + gen_v6(rng) + "]"
    if r < 0.85:
        return "[" + gen_vfuture(rng) + "]"
    if r < 0.9:
        return rng.choice(["", "[", "]", "[]", "[::1", "::1]", "[::1]]", "[[::1]", "x[::1]", "[::1]x", "[::1][::2]"])
    return rng.choice(["example.com", "EXAMPLE.com", "localhost", "LocalHost", "h"])


def gen_port(rng):
    r = rng.random()
    if r < 0.3:
        return ""
    if r < 0.4:
        return ":1965"
    if r < 0.5:
        return ":" + str(rng.choice([0, 1, 70, 1964, 1966, 65535, 65536, 99999]))
    if r < 0.7:
        return ":" + str(rng.randrange(0, 65536))
    if r < 0.78:
        return ":" + rng.choice(["", "01965", "007", "0", "00000", "0001966"])
    return ":" + rng.choice(["1a", "-1", "+1", "٣", "¹", " 1", "1 ", "1_0", "0x10", "1.0", "１"])


def gen_path(rng):
    r = rng.random()
    if r < 0.15:
        return ""
    if r < 0.25:
        return "/"
    segs = []
    for _ in range(rng.randint(1, 4)):
        t = rng.random()
        if t < 0.1:
            segs.append(rng.choice([".", "..", "", "%2e%2e", "%2E", "..."]))
        elif t < 0.25:
            segs.append("".join(pchar(rng) for _ in range(rng.randint(1, 4))) + ";" + "".join(pchar(rng) for _ in range(rng.randint(0, 3))))
        else:
            segs.append("".join(pchar(rng) for _ in range(rng.randint(0, 6))))
    p = "/" + "/".join(segs)
    if rng.random() < 0.05:
        p = p[1:]  # rootless (only mutations make this reach the authority)
    return p


def gen_query(rng):
    r = rng.random()
    if r < 0.45:
        return ""
    if r < 0.55:
        return "?"
    return "?" + "".join(rng.choice([pchar(rng), "/", "?", "=", "&"]) for _ in range(rng.randint(1, 8)))


def gen_url(rng):
    scheme = rng.choice(SCHEMES)
    ui = rng.choice([""] * 14 + ["@", ":@", "u@", "u:p@", "@@", ":p@", "[@"])
    sep = rng.choice(["://"] * 12 + [":", "//", ":/", ":///"])
    frag = rng.choice([""] * 12 + ["#", "#f", "#/?"])
    pre = rng.choice([""] * 10 + [" ", "\x00", "\n", "\t "])
    return pre + scheme + sep + ui + gen_host(rng) + gen_port(rng) + gen_path(rng) + gen_query(rng) + frag


def mutate(rng, u):
    if not u:
        return rng.choice(ODD)
    k = rng.random()
    i = rng.randrange(len(u))
    alphabet = ":/?#[]@%;" + ODD + "gG1."
    if k < 0.3:
        return u[:i] + u[i + 1:]
    if k < 0.6:
        return u[:i] + rng.choice(alphabet) + u[i:]
    if k < 0.8:
        return u[:i] + rng.choice(alphabet) + u[i + 1:]
    if k < 0.9:
        j = rng.randrange(len(u))
        a, b = min(i, j), max(i, j)
        return u[:a] + u[a:b] * 2 + u[b:]
    return u[:i] + rng.choice(NONASCII_HOST) + u[i:]


def oracle_bits(u: str) -> tuple[int, int]:
    """What urlsplit learns from ipaddress / NFKC for this URL (the model's opaque parameters)."""
    ipok, nf = 1, 1
    try:
        up.urlsplit(u)
    except ValueError as e:
        m = str(e)
        if "NFKC" in m:
            nf = 0
        elif "Invalid IPv6 URL" in m:
            pass
        else:
            ipok = 0
    return ipok, nf


def err_kind(m: str) -> str:
    for needle, k in (("cannot be empty", "empty"), ("missing scheme", "noScheme"), ("Invalid scheme", "badScheme"), ("missing hostname", "noHost"),
                      ("userinfo", "userinfo"), ("must not contain fragment", "fragment"), ("could not be cast", "badPort"), ("out of range", "portRange"),
                      ("Invalid IPv6 URL", "invalidIPv6"), ("NFKC", "nfkc"), ("URL too long", "tooLong")):
        if needle in m:
            return k
    return "bracketHost"


def parse_obs(u: str):
    from nauyaca.utils.url import parse_url

    try:
        p = parse_url(u)
    except ValueError as e:
        return ["err", err_kind(str(e))]
    return ["ok", p.hostname, p.port, p.path, p.query, p.normalized]


def authority_of(u: str) -> str | None:
    try:
        return up.urlsplit(u).netloc
    except ValueError:
        return None


def model_applicable(u: str) -> bool:
    """The driver's `lowerU` is ASCII lower-casing: compare when str.lower agrees with it on the authority."""
    nl = authority_of(u)
    if nl is None:
        # rejected inside urlsplit: the bits carry the reason; non-ASCII lowering is never reached
        return True
    return nl.lower() == "".join(c.lower() if c.isascii() else c for c in nl)


def classify_host(u: str, r) -> str:
    nl = authority_of(u) or ""
    if "[" in nl:
        h = "v6zone" if "%" in nl else "vfuture" if "[v" in nl.lower() else "v6"
    elif any(ord(c) > 127 for c in nl):
        h = "nonascii"
    elif nl.replace(".", "").split(":")[0].isdigit():
        h = "ipv4"
    else:
        h = "regname"
    return h


class Parse(Family):
    name = "parse"
    quick_n = 60000
    thorough_n = 1500000

    def gen(self, rng: random.Random, n: int):
        cnt = 0
        for u in self.share(SEEDS):  # every process runs its part of the fixed list (harness/README "Sharding pitfall")
            cnt += 1
            yield {"u": u}
        for i in range(max(0, n - cnt)):
            u = gen_url(rng)
            m = rng.random()
            if m < 0.25:
                u = mutate(rng, u)
            if m < 0.05:
                u = mutate(rng, u)
            yield {"u": u}

    def impl(self, case):
        from nauyaca.utils.url import normalize_url

        u = case["u"]
        r = parse_obs(u)
        obs = {"r": r}
        if r[0] == "ok":
            obs["again"] = parse_obs(r[5])
            try:
                n1 = normalize_url(u)
                obs["norm"] = n1
                try:
                    obs["norm2"] = normalize_url(n1)
                except ValueError as e:
                    obs["norm2"] = None
            except ValueError:
                obs["norm"] = None
        return obs

    def model(self, case):
        u = case["u"]
        if not model_applicable(u):
            return None
        ip, nf = oracle_bits(u)
        return f"url {cps(u)} {ip} {nf}"

    def expect(self, case, out):
        if out.startswith("err "):
            return ["err", out.split(".")[-1]]
        assert out.startswith("ok "), out
        h, port, path, q, n = out[3:].split(" ")
        return ["ok", uncps(h), int(port), uncps(path), uncps(q), uncps(n)]

    def same(self, expected, obs):
        return expected == obs["r"]

    def oracle(self, case, obs):
        r = obs["r"]
        if r[0] != "ok":
            return None
        _, host, port, path, query, norm = r
        a = obs["again"]
        if obs.get("norm") != norm:
            return ("normalize-differs", f"normalize_url({case['u']!r}) = {obs.get('norm')!r} but parse_url(...).normalized = {norm!r}")
        if a[0] != "ok":
            if host.startswith("v") and "[" in host and ":" not in host:
                return ("norm-rejected:ipvfuture-inner-bracket", f"{case['u']!r} is accepted (host {host!r}) but its normalised form {norm!r} is rejected: {a[1]}")
            return ("norm-rejected", f"{case['u']!r} is accepted but its normalised form {norm!r} is rejected: {a[1]}")
        for name, x, y in (("hostname", host, a[1]), ("port", port, a[2]), ("path", path, a[3]), ("query", query, a[4])):
            if x != y:
                return (f"norm-changed:{name}", f"{case['u']!r}: {name} {x!r} becomes {y!r} after normalisation to {norm!r}")
        if obs.get("norm2") != norm:
            return ("norm-not-idempotent", f"{case['u']!r}: normalize gives {norm!r}, normalising again gives {obs.get('norm2')!r}")
        return None

    def key(self, case, obs):
        r = obs["r"]
        if r[0] == "err":
            return "err:" + r[1]
        u = case["u"]
        nl = authority_of(u) or ""
        flags = []
        if r[2] != 1965:
            flags.append("port")
        elif ":" in nl.rsplit("]", 1)[-1]:
            flags.append("port1965")
        if r[4]:
            flags.append("q")
        if ";" in r[3]:
            flags.append("params")
        if nl != nl.lower():
            flags.append("upper")
        return "ok:" + classify_host(u, r) + (":" + "+".join(flags) if flags else "")


# ------------------------------------------------------------------------------------------------
# live: GeminiClient.get -> TLS on loopback -> GeminiServerProtocol -> spy handler
# ------------------------------------------------------------------------------------------------
WIRE_HOSTS = ["127.0.0.1", "localhost", "LOCALHOST", "LocalHost.", "[::1]", "[::FFFF:127.0.0.1]", "[fe80::1%25lo]", "[fe80::1%lo]", "[v1.lo:x]", "[v1.lo]", "example.com", "EXAMPLE.COM",
              "@localhost", ":@localhost", "xn--bcher-kva.example", "h%41", "a_b", "1.2.3.4", "[2001:db8::1]", "localhost[::1]", "exämple.com", "İ.example", "ＥＸ.example", "ß.example"]


def judge_wire(u: str, obs, who: str):
    """The property's last sentence, evaluated on what was observed at both ends of a real connection: `who` (the client
    object, or a command of the command line) was given `u`; `caller` is what the library's own parse_url makes of `u`."""
    c, seen, caller = obs["client"], obs["seen"], obs["caller"]
    if c[0] == "invalid":
        if seen or obs["asked"]:
            return ("wire-sent-invalid", f"{who} refused {u!r} but a connection was made")
        return None
    if c[0] == "error":
        return ("wire-client-error", f"{who} raised {c[1]} for {u!r}")
    if caller[0] != "ok":
        return ("wire-accepted-unparsable", f"{who} sent a request for {u!r} which parse_url rejects")
    _, host, port, path, query, norm = caller
    if obs["asked"] != [[host, port]]:
        return ("wire-connect-target", f"{u!r} given to the {who}: connected to {obs['asked']} instead of {[host, port]}"
                + (f"; the server was sent {seen[0][0]!r} and parsed host {seen[0][1]!r}, port {seen[0][2]!r}, path {seen[0][3]!r}, query {seen[0][4]!r}" if seen else ""))
    if len(seen) != 1:
        if len(norm.encode()) + 2 > 1024 and len(u.encode()) + 2 <= 1024:
            return ("wire-rejected:normalised-longer-than-limit",
                    f"{who} accepted {len(u.encode())}-byte URL {u[:40]!r}… but sent the {len(norm.encode())}-byte normalised form, which the server refused: {c}")
        if host.startswith("v") and "[" in host and ":" not in host:
            return ("norm-rejected:ipvfuture-inner-bracket", f"{who} sent {norm!r} for {u!r}; server answered {c}")
        if len(u.encode("utf-8", "replace")) + 2 > 1024:
            return ("wire-rejected:accepted-longer-than-limit", f"{who} accepted a URL of {len(u)} characters = {len(u.encode('utf-8', 'replace'))} bytes in UTF-8 (+2 for CRLF: more than the "
                    f"1024 bytes of a request line) and sent it; the server did not accept the request line: {c}; handler calls {len(seen)}; URL {u!r}")
        return ("wire-rejected", f"request line for {u!r} was not accepted by the server: {c}; handler calls {len(seen)}")
    s = seen[0]
    for name, x, y in (("hostname", host, s[1]), ("port", port, s[2]), ("path", path, s[3]), ("query", query, s[4])):
        if x != y:
            return (f"wire-changed:{name}", f"{u!r} given to the {who}: caller's {name} {x!r} ({cps(x) if isinstance(x, str) else x}), server saw {y!r} "
                    f"({cps(y) if isinstance(y, str) else y}) (request line {s[0]!r})")
    return None


def wire_urls_fixed() -> list[str]:
    fixed = [
        "gemini://127.0.0.1/", "gemini://127.0.0.1", "gemini://[::1]/x", "gemini://[::1]:1965", "GEMINI://LOCALHOST:01965/A;b?C=d&e", "gemini://localhost?", "gemini://localhost?q",
        "gemini://localhost/%2F%2e%2e/;p?x?y", "gemini://localhost:7/a//b", "gemini://[fe80::1%25lo]:70/z", "gemini://[v1.lo:x]/", "gemini://[v1.a[b]/", "gemini://exämple.com/é?ü",
        "gemini://@localhost/x", "gemini://localhost/ x", "gemini://localhost/a\tb", " gemini://localhost/",
        # the same text in its composed and decomposed spellings, singletons, jamo, marks out of canonical order, compatibility characters
        "gemini://localhost/cafe\u0301?na\u0308ive", "gemini://localhost/caf\u00e9?na\u00efve", "Gemini://localhost:1966/\u212b/\u2126?\u212a", "gemini://localhost/\u1100\u1161\u11a8?\uac01",
        "gemini://localhost/a\u0307\u0323/\u0958?\u0344", "gemini://localhost/\ufb01\uff21\u2460?\u00aa\u2000", "GEMINI://[::1]/\u0301x",
    ]
    # lengths around the limit: the client measures the caller's string, the server the normalised one
    for total in (1020, 1021, 1022, 1023):
        for shape in ("gemini://localhost?", "gemini://localhost/?", "gemini://localhost/", "gemini://LOCALHOST:1965/", "gemini://localhost"):
            pad = total - len(shape)
            fixed.append(shape + "q" * pad)
    fixed.append("gemini://localhost/" + "é" * 501)
    fixed.append("gemini://localhost/" + "é" * 502)
    # the limit is one of BYTES on the wire: text of every UTF-8 width (2, 3 and 4 bytes per character) that ends exactly at the limit,
    # one character beyond it, and well beyond it with few characters
    for shape in ("gemini://localhost/", "gemini://localhost/?", "GEMINI://LOCALHOST:1965/d/"):
        room = 1022 - len(shape)
        for ch in ("\u00df", "\u65e5", "\u20ac", "\U0001f40d", "\U00012000", "\U0002f800"):
            w = len(ch.encode("utf-8"))
            fixed.append(shape + ch * (room // w) + "a" * (room % w))
            fixed.append(shape + "a" * (room % w) + ch * (room // w + 1))
    fixed += ["gemini://localhost/" + "\U0001f40d" * 294 + "?q=1", "gemini://localhost/d?" + "\U00012000" * 320, "gemini://localhost/" + "\u65e5" * 340]
    # every character that some text function takes for a line end or for white space, inside the path (with more path and a query
    # after it), inside the query, and as the last character of the URL
    for i, ch in enumerate(SEPARATORS):
        fixed.append(f"gemini://localhost/docs/line{ch}separator/page.gmi?x=1{ch}y")
        if i % 2:
            fixed.append(f"GEMINI://LOCALHOST:1965/{ch}?{ch}")
        else:
            fixed.append(f"gemini://[::1]:1966/d/f.gmi{ch}")
    # texts that look like the start of a URL / like a piece of an authority, as data in the path and in the query
    for w in ("titan", "gemini", "TITAN", "http"):
        for sep in ("://", ":"):
            fixed.append(f"gemini://localhost/gateway/{w}{sep}other.example/page?url={w}{sep}u.example/notes.gmi")
    fixed += ["gemini://localhost/titan://a", "gemini://localhost/search?titan://u/notes.gmi", "gemini://localhost//titan://a//b?//", "gemini://localhost:1965/a:1965/b:1965?c:1965",
              "gemini://localhost/gemini://localhost/?gemini://localhost/", "GEMINI://LOCALHOST/LOCALHOST/GEMINI://LOCALHOST?LOCALHOST", "gemini://localhost/a/./b/../c?/./../",
              "gemini://localhost/x?titan:%2F%2Fa&u=titan://b&v=titan://c", "gemini://localhost?titan://", "gemini://localhost/@localhost:1965/?@localhost:1965"]
    return fixed


WIDE = {1: "az0-._~", 2: "\u00e9\u00df\u03a9\u0416", 3: "\u65e5\u20ac\uac00\u0915", 4: "\U0001f40d\U00012000\U0001d11e\U0002f800\U0001f600"}


def long_text_url(rng: random.Random) -> str:
    """a URL whose UTF-8 form ends within a few bytes of the request-line limit (or well beyond it) while its length in
    CHARACTERS is anything from a quarter of that upwards: text of one UTF-8 width or of a mixture, in the path or the query"""
    shape = rng.choice(["gemini://localhost/", "gemini://localhost/", "gemini://localhost/?", "gemini://localhost?", "gemini://localhost", "GEMINI://LOCALHOST:1965/",
                        "gemini://[::1]:1966/d/", "gemini://127.0.0.1/a;b/?k="])
    target = rng.choice([1016, 1019, 1020, 1021, 1022, 1022, 1022, 1023, 1023, 1024, 1025, 1026, 1030, 1060, 1200, 1360])
    widths = rng.choice([[4], [4], [4], [3], [2], [4, 1], [4, 3], [4, 3, 2, 1], [3, 1], [2, 1]])
    room = target - len(shape.encode("utf-8"))
    out = []
    while room > 0:
        w = rng.choice(widths)
        if w > room:
            w = 1
        out.append(rng.choice(WIDE[w]))
        room -= w
    return shape + "".join(out)


WORDS = ["docs", "search", "proxy", "q", "url", "page.gmi", "a", "x1", "~u", "notes", ""]


def embedded_url(rng: random.Random) -> str:
    """a URL whose path and query are made of plain words, of texts that look like pieces of a URL (scheme prefixes, `//`, port and host
    texts - among them the URL's OWN scheme, host and port spelled again) and of characters some text function takes for a line end or
    for white space; these stand at the beginning, in the middle and at the end of segments and of the query"""
    scheme = rng.choice(["gemini", "gemini", "gemini", "Gemini", "GEMINI"])
    host = rng.choice(WIRE_HOSTS)
    port = rng.choice(["", "", "", ":1965", ":1966", ":70", ":01965"])
    own = [scheme + "://", scheme + "://" + host + port + "/", scheme + ":", host, host.upper(), host.lower(), port or ":1965", "titan://" + host + port + "/"]
    style = rng.choice(["embed", "embed", "break", "break", "both"])

    def piece():
        r = rng.random()
        if r < 0.4:
            return rng.choice(WORDS)
        if style == "break" or (style == "both" and r < 0.7):
            return rng.choice(LINE_BREAKS if rng.random() < 0.6 else SPACES)
        return rng.choice(EMBED + own)

    def text(k):
        return "".join(piece() for _ in range(rng.randint(1, k)))

    path = rng.choice(["", "/", "/", "/", "//"]) if rng.random() < 0.15 else "/" + "/".join(text(3) for _ in range(rng.randint(1, 3)))
    r = rng.random()
    query = "" if r < 0.3 else "?" + rng.choice(["", "", "url=", "q=", "a=1&b="]) + text(4) + rng.choice(["", "", "&z", "=", "?"])
    return scheme + "://" + host + port + path + query


def wire_cases(fam, rng: random.Random, n: int, extra=()):
    """URLs for the families that put a request on a real wire: this shard's part of the fixed list, then random ones
    (every spelling of the scheme the library accepts, every kind of host, any port / path / query spelling)"""
    cnt = 0
    for u in fam.share(list(extra) + wire_urls_fixed()):
        cnt += 1
        yield {"u": u}
    for _ in range(max(0, n - cnt)):
        r = rng.random()
        if r < 0.1:
            yield {"u": long_text_url(rng)}
            continue
        if r < 0.4:
            yield {"u": embedded_url(rng)}
            continue
        host = rng.choice(WIRE_HOSTS)
        u = rng.choice(["gemini", "gemini", "Gemini", "GEMINI", "gEMINI"]) + "://" + host + gen_port(rng) + gen_path(rng) + gen_query(rng)
        if rng.random() < 0.1:
            u = mutate(rng, u)
        yield {"u": u}


def text_kind(u: str) -> str:
    """distribution label: what the part of the URL after the authority carries besides ordinary text"""
    tail = u.split("://", 1)[-1]
    cut = min([i for i in (tail.find("/"), tail.find("?")) if i >= 0], default=len(tail))
    tail = tail[cut:]
    out = ""
    if any(ch in tail for ch in LINE_BREAKS):
        out += ":line-break-like char"
    elif any(ch in tail for ch in SPACES):
        out += ":space-like char"
    if "://" in tail or any(w + ":" in tail.lower() for w in ("gemini", "titan", "http")):
        out += ":scheme-like text"
    return out


class Wire(Family):
    realtime = True     # runs on the wall clock (sockets, threads): a failure is re-run once before it counts (core.run_family)
    name = "wire"
    quick_n = 380
    thorough_n = 4000
    parallel = False

    def setup(self):
        from ..sim import url_upstream as U
        from nauyaca.protocol.response import GeminiResponse
        from nauyaca.server.protocol import GeminiServerProtocol

        if getattr(self, "_ready", False):
            return
        self.loop = U.quiet_loop()
        self.seen: list = []

        def spy(request):
            self.seen.append([request.raw_url, request.hostname, request.port, request.path, request.query])
            return GeminiResponse(status=20, meta="text/plain", body="ok")

        async def start():
            srv = await self.loop.create_server(lambda: GeminiServerProtocol(spy), "127.0.0.1", 0, ssl=U.server_context())
            return srv

        self.server = self.loop.run_until_complete(start())
        self.port = self.server.sockets[0].getsockname()[1]
        # every connection of the client goes to the spy server; what was asked for is recorded
        self.asked: list = []
        orig = self.loop.create_connection

        async def redirect(factory, host=None, port=None, *, ssl=None, server_hostname=None, **kw):
            self.asked.append([host, port])
            return await orig(factory, host="127.0.0.1", port=self.port, ssl=ssl, server_hostname="localhost", **kw)

        self.loop.create_connection = redirect  # type: ignore[method-assign]
        self._ready = True

    def gen(self, rng: random.Random, n: int):
        yield from wire_cases(self, rng, n)

    def impl(self, case):
        from nauyaca.client.session import GeminiClient

        u = case["u"]
        self.seen.clear()
        self.asked.clear()

        async def go():
            client = GeminiClient(timeout=3.0, verify_ssl=False, trust_on_first_use=False)
            try:
                r = await client.get(u, follow_redirects=False)
                return ["resp", r.status, r.meta]
            except ValueError as e:
                return ["invalid", err_kind(str(e))]
            except Exception as e:  # noqa: BLE001
                return ["error", type(e).__name__]

        res = self.loop.run_until_complete(go())
        self.loop.run_until_complete(asyncio.sleep(0))
        return {"client": res, "asked": list(self.asked), "seen": list(self.seen), "caller": parse_obs(u)}

    def model(self, case):
        u = case["u"]
        if not model_applicable(u):
            return None
        ip, nf = oracle_bits(u)
        return f"wire 1024 {cps(u)} {ip} {nf}"

    def expect(self, case, out):
        # what the model says the spy must see: [raw line, host, port, path, query] or a refusal
        if out.startswith("err "):
            return {"client": "invalid", "seen": []}
        wire, _, srv = out[3:].partition(" | ")
        line = uncps(wire)
        assert line.endswith("\r\n")
        if srv.startswith("err "):
            return {"client": "resp59", "seen": []}
        h, port, path, q, n = srv[3:].split(" ")
        return {"client": "resp20", "seen": [[line[:-2], uncps(h), int(port), uncps(path), uncps(q)]]}

    def same(self, expected, obs):
        c = obs["client"]
        kind = "invalid" if c[0] == "invalid" else f"resp{c[1]}" if c[0] == "resp" else "error"
        return expected["client"] == kind and expected["seen"] == obs["seen"]

    def oracle(self, case, obs):
        return judge_wire(case["u"], obs, "client")

    def key(self, case, obs):
        c = obs["client"]
        u = case["u"]
        nb = len(u.encode("utf-8", "replace"))
        size = "" if nb <= 1000 else (":longline" if nb <= 1022 else ":over-the-limit") + (":4-byte text" if any(ord(ch) > 0xFFFF for ch in u) else ":2/3-byte text" if not u.isascii() else "")
        if c[0] != "resp":
            return c[0] + ":" + str(c[1]) + size
        return f"resp{c[1]}:" + classify_host(u, None) + size + text_kind(u)


class Purity(Family):
    """parsing and normalising a URL is a function of the URL alone: whatever the process did before (fetches that follow
    redirects with absolute, relative, odd or non-gemini targets; uploads; request parsing on the server side) the same URL
    parses to the same components - in particular a path keeps its `;`, `%`, `.` and empty segments"""

    name = "purity"
    quick_n = 120
    thorough_n = 2500

    PROBES = ["gemini://h/dir/file;v=1", "gemini://h/a;b/c;d?q;r", "gemini://h/;x", "gemini://h/a/./b/../c//d", "gemini://h/%2e%2e/x;y", "gemini://H:1965/a%3Bb",
              "gemini://h/a;b.txt", "gemini://[::1]:1966/p;q;r=1/", "gemini://h/?;", "gemini://h/x;"]

    def gen(self, rng: random.Random, n: int):
        targets = ["/relative", "relative/path", "../up", "?q", "//other/x", "gemini://b/next", ";params", "./a;b", "", "http://a/", "gemini://b/y;z"]
        for i in range(n):
            probes = rng.sample(self.PROBES, 4) + [gen_url(rng) for _ in range(3)] + [gen_url(rng).split("?")[0] + ";p=" + str(i)]
            graph = {"gemini://a/": ["r", rng.choice([30, 31]), rng.choice(targets)], "gemini://b/next": ["f", 20], "gemini://a/relative": ["f", 20],
                     "gemini://b/y;z": ["r", 31, rng.choice(targets)]}
            yield {"probes": probes, "graph": graph, "lines": ["gemini://h/x;y\r\n", "titan://h/up;size=0\r\n"]}

    def impl(self, case):
        import asyncio

        from nauyaca.client.session import GeminiClient
        from nauyaca.protocol.request import GeminiRequest
        from nauyaca.protocol.response import GeminiResponse
        from nauyaca.utils.url import normalize_url

        def look():
            out = []
            for u in case["probes"]:
                r = parse_obs(u)
                try:
                    nz = normalize_url(u)
                except ValueError:
                    nz = None
                out.append([r, nz])
            return out

        before = look()
        graph = case["graph"]

        async def fake_single(url: str):
            e = graph.get(url)
            if e is None:
                raise ConnectionError("stub: no such host")
            if e[0] == "f":
                return GeminiResponse(status=e[1], meta="text/gemini", body="x", url=url)
            return GeminiResponse(status=e[1], meta=e[2], url=url)

        async def go():
            client = GeminiClient(max_redirects=5, verify_ssl=False, trust_on_first_use=False)
            client._get_single = fake_single  # type: ignore[method-assign]
            for start in ("gemini://a/", "gemini://b/y;z"):
                try:
                    await client.get(start, follow_redirects=True)
                except Exception:  # noqa: BLE001  what the fetch returns is C16's business
                    pass

        asyncio.run(go())
        for ln in case["lines"]:
            try:
                GeminiRequest.from_line(ln.strip())
            except Exception:  # noqa: BLE001
                pass
        return {"before": before, "after": look()}

    def model(self, case):
        return None     # family parse compares single URLs with the Lean model; here the oracle speaks

    def oracle(self, case, obs):
        for u, b, a in zip(case["probes"], obs["before"], obs["after"]):
            if a != b:
                return ("parse-depends-on-history", f"{u!r} parsed/normalised to {b} before and to {a} after the same process followed some redirects and parsed some request lines")
            r = a[0]
            if r[0] == "ok":
                tail = u.split("://", 1)[1]
                rawpath = "/" + tail.split("/", 1)[1] if "/" in tail.split("?")[0] else "/"
                rawpath = rawpath.split("?")[0].split("#")[0]
                if ";" in rawpath and r[3] != rawpath and "\t" not in u and "\n" not in u and "\r" not in u:
                    return ("path-lost-params", f"{u!r}: path component is {r[3]!r}, the URL says {rawpath!r}")
        return None

    def key(self, case, obs):
        return f"{sum(1 for a in obs['after'] if a[0][0] == 'ok')} ok of {len(obs['after'])}"


# ------------------------------------------------------------------------------------------------
# live, from the user's end: `nauyaca <command> <url>` -> TLS on loopback -> GeminiServerProtocol -> spy handler
# ------------------------------------------------------------------------------------------------
# option sets for the commands the harness knows (each is only used when the command declares the options); any OTHER
# leaf command of the command tree that declares a URL parameter is run with the arguments synthesised from its declaration
CMD_VARIANTS = {"get": [["-t", "5"], ["-t", "5", "--no-redirects"], ["-t", "5", "-v"], ["-t", "5", "--no-trust"], ["--no-redirects", "-v", "--no-trust", "-t", "5"], []]}


def url_commands() -> list[dict]:
    """leaf commands of the working tree's command line that take a URL (enumerated from the typer/click tree)"""
    from ..sim import tls_startup

    try:
        cmds = tls_startup.cli_commands()
    except Exception:  # noqa: BLE001
        return []
    out = []
    for c in cmds:
        if c["path"] and c["path"][0] == "serve":
            continue
        ups = [p for p in c["params"] if "url" in p["name"].lower() or "uri" in p["name"].lower()]
        if ups:
            out.append({"path": c["path"], "params": c["params"], "url_param": ups[0]["name"]})
    return out


class Cmdline(Family):
    """The caller of the last sentence of the property is, for most users, the command line: every command of `nauyaca ...`
    that takes a URL (found in the command tree of the working tree) is given every spelling the library accepts, and what
    the connection was opened to and what the real server protocol parsed from the request line are compared with
    the components the library's parse_url reads from the very same argument.  Arguments the library rejects are run too
    (distribution only: a command line may be more generous than the library)."""
    realtime = True     # runs on the wall clock (sockets, threads): a failure is re-run once before it counts (core.run_family)
    name = "cmdline"
    quick_n = 400
    thorough_n = 4000

    def setup(self):
        import threading

        from ..sim import url_upstream as U
        from nauyaca.protocol.response import GeminiResponse
        from nauyaca.server.protocol import GeminiServerProtocol

        if getattr(self, "_ready", False):
            return
        self.seen: list = []
        self.asked: list = []
        ready = threading.Event()

        def spy(request):
            self.seen.append([request.raw_url, request.hostname, request.port, request.path, request.query])
            return GeminiResponse(status=20, meta="text/plain", body="ok")

        def serve():
            loop = U.quiet_loop()
            asyncio.set_event_loop(loop)
            self.srv_loop = loop

            async def start():
                return await loop.create_server(lambda: GeminiServerProtocol(spy), "127.0.0.1", 0, ssl=U.server_context())

            self.server = loop.run_until_complete(start())
            self.port = self.server.sockets[0].getsockname()[1]
            ready.set()
            loop.run_forever()

        self.thread = threading.Thread(target=serve, daemon=True)
        self.thread.start()
        if not ready.wait(20):
            raise RuntimeError("spy server did not start")
        self._ready = True

    def gen(self, rng: random.Random, n: int):
        cmds = url_commands() or [{"path": ["get"], "params": [], "url_param": "url"}]
        i = 0
        for c in wire_cases(self, rng, n, extra=["GEMINI://localhost:1234/p?q", "Gemini://LocalHost/", "gEMINI://[::1]:1966/a;b?c", "gemini://localhost:1234/p?q"]):
            cmd = cmds[i % len(cmds)] if i < 4 * len(cmds) else rng.choice(cmds)
            name = " ".join(cmd["path"])
            vs = CMD_VARIANTS.get(name)
            yield {"u": c["u"], "cmd": name, "opts": (vs[i % len(vs)] if i < 40 else rng.choice(vs)) if vs else None}
            i += 1

    def impl(self, case):
        import asyncio.base_events as be
        import os
        import re
        import shutil
        import tempfile
        import threading

        from typer.testing import CliRunner

        from ..sim import tls_startup

        import nauyaca.__main__ as M

        u = case["u"]
        cmd = next((c for c in url_commands() if " ".join(c["path"]) == case["cmd"]), None)
        if cmd is None:
            return {"client": ["absent", case["cmd"]], "asked": [], "seen": [], "caller": parse_obs(u), "argv": []}
        home = tempfile.mkdtemp(prefix="nv-")      # a private HOME (pin store) per invocation
        if case["opts"] is not None:
            argv = cmd["path"] + list(case["opts"]) + ["--", u]
        else:
            argv = tls_startup.synth_argv({"path": cmd["path"], "params": [p for p in cmd["params"] if p["name"] != cmd["url_param"]]}, self.port, home) + ["--", u]
        self.seen.clear()
        self.asked.clear()
        me = threading.current_thread()
        orig = be.BaseEventLoop.create_connection
        fam = self

        async def redirect(loop_self, protocol_factory, host=None, port=None, *, ssl=None, server_hostname=None, **kw):
            if threading.current_thread() is not me:
                return await orig(loop_self, protocol_factory, host, port, ssl=ssl, server_hostname=server_hostname, **kw)
            fam.asked.append([host, port])
            return await orig(loop_self, protocol_factory, host="127.0.0.1", port=fam.port, ssl=ssl, server_hostname="localhost" if ssl else None, **kw)

        saved = {k: os.environ.get(k) for k in ("HOME", "NO_COLOR", "COLUMNS")}
        os.environ.update(HOME=home, NO_COLOR="1", COLUMNS="4000")
        be.BaseEventLoop.create_connection = redirect
        try:
            res = CliRunner().invoke(M.app, argv)
        finally:
            be.BaseEventLoop.create_connection = orig
            for k, v in saved.items():
                if v is None:
                    os.environ.pop(k, None)
                else:
                    os.environ[k] = v
            shutil.rmtree(home, ignore_errors=True)
            core.configure_harness_logging()
        text = (res.output or "")
        try:
            text += "\n" + (res.stderr or "")
        except Exception:  # noqa: BLE001  (stderr not captured separately)
            pass
        code = res.exit_code
        m = re.search(r"^\[(\d\d)\]", text, re.M)
        if code == 0:
            client = ["resp", 20, ""]
        elif code == 2 and not self.asked:
            client = ["usage", 2]
        elif re.search(r"^Error: ", text, re.M):
            client = ["invalid", err_kind(text)]
        elif m:
            client = ["resp", int(m.group(1)), ""]
        else:
            first = next((ln.strip() for ln in text.splitlines() if ln.strip()), "")
            client = ["error", first.split(":")[0][:40] or f"exit {code}"]
        return {"client": client, "asked": list(self.asked), "seen": list(self.seen), "caller": parse_obs(u), "argv": argv[:-1]}

    def model(self, case):
        return None     # families parse and wire compare with the Lean model; the command line is judged by the property's oracle

    def oracle(self, case, obs):
        if obs["caller"][0] != "ok":
            return None     # not a URL the library accepts: the property says nothing (a command line may complete or refuse it)
        if obs["client"][0] in ("absent", "usage"):
            return None
        who = "command `nauyaca " + " ".join(obs["argv"]) + " <url>`"
        if case["opts"] is None and not obs["asked"]:
            return None     # a command the harness has no recipe for and that opened no connection: nothing was put on a wire
        v = judge_wire(case["u"], obs, who)
        return None if v is None else ("cmdline-" + v[0], v[1])

    def key(self, case, obs):
        c = obs["client"]
        scheme = case["u"].split(":")[0]
        sp = "lower-case scheme" if scheme == scheme.lower() else "upper/mixed-case scheme"
        if obs["caller"][0] != "ok":
            return f"{case['cmd']}: rejected by the library ({obs['caller'][1]}) -> {c[0]}{' (CONNECTED)' if obs['asked'] else ''}"
        if c[0] != "resp":
            return f"{case['cmd']}: accepted, {sp} -> {c[0]}:{c[1]}"
        return f"{case['cmd']}: accepted, {sp}, {classify_host(case['u'], None)}{' non-ascii text' if any(ord(ch) > 127 for ch in case['u'].split('://', 1)[-1].partition('/')[2]) else ''}{text_kind(case['u'])} -> resp{c[1]}"


FAMILIES = [Parse(), Wire(), Purity(), Cmdline()]
