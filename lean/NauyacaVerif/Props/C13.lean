import NauyacaVerif.Cl.ClientSeg
import NauyacaVerif.Gen.Params

/-! # C13  Client calls always terminate with a faithful response or a clear error

Model: `Cl.onData / Cl.onLost` mirror `data_received / _parse_header / connection_lost` of
`GeminiClientProtocol` and `TitanClientProtocol`.  Parameters (`Cl.Env`, every theorem quantifies over
all of them): UTF-8 decoding of the header line, the text/* test, `bytes.decode(charset)`.  The status
token is concrete (exactly two ASCII digits), as are the "meta is mandatory below 40" and "no CR/LF in
the meta" rules.
Contract of asyncio used by the model: nothing is delivered after `transport.close()`; an exception
escaping `data_received` leads to `connection_lost(exc)`.  Not modelled: `asyncio.wait_for` (the
timeout cut-off is checked by the live family of the harness only). -/

namespace NauyacaVerif.C13
open Cl

theorem maxBody_tie : Cl.maxBody = Gen.maxBody := by decide
theorem maxHeader_tie : Cl.maxHeader = Gen.maxHeader := by decide

/-- every history that contains a connection loss leaves the caller with a result: whatever the
    server sent, however it was split into reads, whatever happened before or after, whatever the
    codecs do -/
theorem client_resolves (env : Env) (s0 : CSt) (evs : List CEv) (h : ∃ e, CEv.lost e ∈ evs) :
    (crunFrom env s0 evs).fut ≠ .pending := by
  obtain ⟨e, he⟩ := h
  obtain ⟨pre, post, rfl⟩ := List.append_of_mem he
  have := resolves_after_lost env s0 pre post e
  simpa using this

/-- a response — after ANY sequence of events — has a status in 10–69 and a body exactly for 2x
    (`run_inv` + `response_origin`) -/
theorem client_faithful (env : Env) (evs : List CEv) (st : Nat) (m : Bytes) (b : Option Bytes) (d : Bool)
    (h : (crun env evs).fut = .response st m b d) :
    (10 ≤ st ∧ st ≤ 69) ∧ (b ≠ none ↔ (20 ≤ st ∧ st ≤ 29)) := by
  have hg := run_good env (init true) evs (init_inv true) (by intro st m b d h; cases h)
  obtain ⟨h1, h2⟩ := hg st m b d h
  refine ⟨by omega, ?_⟩
  rw [h2]
  constructor <;> intro hx <;> omega

/-- a response is the faithful reading of the server's stream `T` (the concatenation of the reads, up
    to the close): the status is the two ASCII digits before the first space of the first line, the meta
    is the rest of that line (present for 1x–3x, free of CR and LF), the body is present exactly for 2x and consists of exactly the bytes after
    the first CRLF, marked `decoded` exactly when the meta is text/* (and decoding is on) and then the
    codec accepted those bytes; and - for a 2x response, whose body ends where the stream ends - the connection was
    closed cleanly (a non-2x response is complete with its header line: fix 8049c3f) -/
theorem client_faithful_stream (env : Env) (dt : Bool) (reads : List Bytes) (exc : Bool) (st : Nat) (m : Bytes)
    (b : Option Bytes) (d : Bool)
    (h : (crunFrom env (init dt) (streamEvs reads exc)).fut = .response st m b d) :
    (exc = false ∨ ¬ (20 ≤ st ∧ st < 30)) ∧ Faithful env dt reads.flatten st m b d := by
  rw [(run_spec env dt reads exc).1] at h
  exact finish_response env dt _ exc st m b d h

/-- the outcome (future and whether the client closed the transport) does not depend on how the stream
    was split into reads -/
theorem client_seg_indep (env : Env) (dt : Bool) (r1 r2 : List Bytes) (exc : Bool) (h : r1.flatten = r2.flatten) :
    (crunFrom env (init dt) (streamEvs r1 exc)).fut = (crunFrom env (init dt) (streamEvs r2 exc)).fut ∧
    (crunFrom env (init dt) (streamEvs r1 exc)).closeReq = (crunFrom env (init dt) (streamEvs r2 exc)).closeReq := by
  rw [(run_spec env dt r1 exc).1, (run_spec env dt r2 exc).1, (run_spec env dt r1 exc).2, (run_spec env dt r2 exc).2, h]
  exact ⟨rfl, rfl⟩

/-- a valid non-2x header IS the response: the call is resolved as soon as the header line is complete - before the
    connection is lost - and neither what the server sends afterwards nor how the teardown goes (`exc`) changes it -/
theorem client_nonsuccess_at_header (env : Env) (dt : Bool) (reads more : List Bytes) (exc : Bool) (st : Nat) (m : Bytes)
    (h : phaseOf env reads.flatten = .closedPending st m) :
    (feed env (init dt) reads).fut = .response st m none false ∧
    (crunFrom env (init dt) (streamEvs (reads ++ more) exc)).fut = .response st m none false := by
  have h1 : (feed env (init dt) reads).fut = .response st m none false := by
    rw [(feed_spec env dt reads).1, h]; rfl
  refine ⟨h1, ?_⟩
  have hne : (feed env (init dt) reads).fut ≠ .pending := by rw [h1]; simp
  unfold crunFrom streamEvs
  rw [List.map_append, List.append_assoc, List.foldl_append, foldl_data]
  rw [run_stable env _ _ hne]; exact h1

/-- the same while the server stalls (no loss yet) -/
theorem client_seg_indep_stall (env : Env) (dt : Bool) (r1 r2 : List Bytes) (h : r1.flatten = r2.flatten) :
    (feed env (init dt) r1).fut = (feed env (init dt) r2).fut ∧
    (feed env (init dt) r1).closeReq = (feed env (init dt) r2).closeReq := by
  rw [(feed_spec env dt r1).1, (feed_spec env dt r2).1, (feed_spec env dt r1).2, (feed_spec env dt r2).2, h]
  exact ⟨rfl, rfl⟩

/-- more than `MAX_RESPONSE_BODY_SIZE` bytes after a 2x header: error and close, at once (no loss
    needed), for every segmentation -/
theorem client_cap (env : Env) (dt : Bool) (reads : List Bytes) (i : Nat) (st : Nat) (m : Bytes)
    (hf : findCRLF reads.flatten = some i) (hi : i ≤ Gen.maxHeader)
    (hh : hdrOf env (reads.flatten.take i) = .ok st m) (h2x : 20 ≤ st ∧ st < 30)
    (hbig : (reads.flatten.drop (i + 2)).length > Gen.maxBody) :
    (feed env (init dt) reads).fut = .error "tooBig" ∧ (feed env (init dt) reads).closeReq = true := by
  rw [← maxHeader_tie] at hi
  rw [← maxBody_tie] at hbig
  have hp := phase_tooBig env reads.flatten i st m hf hi hh h2x hbig
  rw [(feed_spec env dt reads).1, (feed_spec env dt reads).2, hp]
  exact ⟨rfl, rfl⟩

/-- a header line longer than `MAX_RESPONSE_HEADER_SIZE`: error and close, for every segmentation -/
theorem client_header_bound (env : Env) (dt : Bool) (reads : List Bytes)
    (h : (findCRLF reads.flatten = none ∧ reads.flatten.length > Gen.maxHeader + 1) ∨
         ∃ i, findCRLF reads.flatten = some i ∧ i > Gen.maxHeader) :
    (feed env (init dt) reads).fut = .error "headerTooLong" ∧ (feed env (init dt) reads).closeReq = true := by
  rw [← maxHeader_tie] at h
  have hp := phase_tooLong env reads.flatten h
  rw [(feed_spec env dt reads).1, (feed_spec env dt reads).2, hp]
  exact ⟨rfl, rfl⟩

/-- once the client has closed the transport, or the call has a result, no later event changes the result -/
theorem client_result_final (env : Env) (s : CSt) (evs : List CEv) (h : s.fut ≠ .pending) :
    (crunFrom env s evs).fut = s.fut := run_stable env s evs h

/-! non-vacuity -/
def envOk : Env := ⟨fun _ => true, fun _ => true, fun _ _ => 0⟩
def envBadCodec : Env := { envOk with decodeBody := fun _ _ => 3 }

-- "20 x\r\nhi" in one read and in three reads: the same response, body = "hi"
example : (crunFrom envOk (init true) (streamEvs [[50, 48, 32, 120, 13, 10, 104, 105]] false)).fut
    = .response 20 [120] (some [104, 105]) true := by decide
example : (crunFrom envOk (init true) (streamEvs [[50, 48, 32, 120, 13], [10, 104], [105]] false)).fut
    = .response 20 [120] (some [104, 105]) true := by decide
-- "51 x\r\n" + trailing bytes: response without body, transport closed by the client
example : (crunFrom envOk (init true) (streamEvs [[53, 49, 32, 120, 13, 10, 1, 2, 3]] false)).fut
    = .response 51 [120] none false := by decide
-- … also when more bytes arrive in a later read and the teardown then fails (over TLS: data after the client's close_notify)
example : (crunFrom envOk (init true) (streamEvs [[53, 49, 32, 120, 13, 10], [1, 2, 3]] true)).fut
    = .response 51 [120] none false := by decide
example : phaseOf envOk [53, 49, 32, 120, 13, 10] = .closedPending 51 [120] := by decide
-- a codec that raises something unexpected still resolves the call
example : (crunFrom envBadCodec (init true) (streamEvs [[50, 48, 32, 120, 13, 10, 104]] false)).fut = .error "codec" := by decide
-- reset before any header
example : (crunFrom envOk (init true) (streamEvs [[50]] true)).fut = .error "connection" := by decide
-- "99\r\n": two digits but out of range; "+20 x": `int()` would take it, the protocol does not; "20\r\n": meta missing
example : (crunFrom envOk (init true) (streamEvs [[57, 57, 13, 10]] false)).fut = .error "statusRange" := by decide
example : (crunFrom envOk (init true) (streamEvs [[43, 50, 48, 32, 120, 13, 10]] false)).fut = .error "badStatus" := by decide
example : (crunFrom envOk (init true) (streamEvs [[50, 48, 13, 10]] false)).fut = .error "badHeader" := by decide
example : (crunFrom envOk (init true) (streamEvs [[53, 49, 13, 10]] false)).fut = .response 51 [] none false := by decide
end NauyacaVerif.C13
