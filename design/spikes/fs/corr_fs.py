import os, random, subprocess, sys, tempfile, shutil, posixpath
rnd=random.Random(int(sys.argv[1])); N=int(sys.argv[2])
NAMES=["a","b","c","d","x y","ü","root","root-evil"]
def gen_tree():
    """returns list of entries (kind, relpath, extra) ; all under a fresh base dir whose absolute path is '/' for the model"""
    ents=[]; dirs=[""]
    for _ in range(rnd.randint(3,12)):
        parent=rnd.choice(dirs); name=rnd.choice(NAMES)
        p=(parent+"/"+name).lstrip("/")
        if any(e[1]==p for e in ents): continue
        k=rnd.random()
        if k<0.35: ents.append(("d",p)); dirs.append(p)
        elif k<0.65: ents.append(("f",p,len(ents)+1))
        else:
            tk=rnd.random()
            if tk<0.3: tgt=rnd.choice(NAMES)                       # relative sibling
            elif tk<0.5: tgt="../"+rnd.choice(NAMES)
            elif tk<0.7: tgt="/"+rnd.choice(dirs+[e[1] for e in ents]) if True else ""
            elif tk<0.8: tgt=name                                   # self loop
            elif tk<0.9: tgt="./"+rnd.choice(NAMES)+"/../"+rnd.choice(NAMES)
            else: tgt="nonexistent/"+rnd.choice(NAMES)
            ents.append(("l",p,tgt))
    return ents
def gen_path(ents):
    parts=[]
    for _ in range(rnd.randint(1,6)):
        parts.append(rnd.choice(NAMES[:3]+["..",".",""]+[e[1].split("/")[-1] for e in ents]*3))
    return "/".join(parts)
def main():
    base=tempfile.mkdtemp(prefix="fs"); lines=[]; exp=[]
    try:
        for i in range(N):
            root=os.path.join(base,"t%d"%i); os.mkdir(root)
            ents=gen_tree(); spec=[]
            for e in ents:
                full=os.path.join(root,e[1])
                if not os.path.isdir(os.path.dirname(full)) or os.path.islink(os.path.dirname(full)): continue
                if os.path.lexists(full): continue
                if e[0]=="d": os.mkdir(full); spec.append(f"d:{e[1]}")
                elif e[0]=="f": open(full,"w").write("S%d"%e[2]); spec.append(f"f:{e[1]}:{e[2]}")
                else:
                    tgt=e[2]
                    # absolute targets are relative to the model root: materialise as root-prefixed
                    real_tgt=(root+tgt) if tgt.startswith("/") else tgt
                    os.symlink(real_tgt,full); spec.append(f"l:{e[1]}:{tgt}")
            for _ in range(8):
                p=gen_path(ents)
                # chroot-like: evaluate inside root; paths climbing above root differ from the model's "/" clamp -> skip those
                rp=os.path.realpath(root+"/"+p)
                if not (rp==root or rp.startswith(root+"/")): continue
                rel=rp[len(root):] or "/"
                try:
                    st=os.stat(rp)      # the handler stats the *resolved* path
                    import stat as S
                    srp=os.path.realpath(rp)
                    kind=("dir@"+(srp[len(root):] or "/")) if S.S_ISDIR(st.st_mode) else ("file%s@%s"%(open(rp).read()[1:],srp[len(root):]))
                except OSError: kind="none"
                lines.append(";".join(spec)+"\t"+p); exp.append((rel,kind))
        out=subprocess.run(["/tmp/spike6/Fs/.lake/build/bin/drv"],input="\n".join(lines)+"\n",capture_output=True,text=True).stdout.splitlines()
        bad=0
        for l,(rel,kind),o in zip(lines,exp,out):
            f=o.split(" ")
            # model path may contain '..' leftovers on loops: normalise like abspath
            mp=posixpath.normpath(o.split(" true ")[0][3:] if " true " in o else o.split(" false ")[0][3:])
            mk=o.rsplit(" ",1)[1] if not o.endswith("none") else "none"
            mk=o.split(" true " if " true " in o else " false ")[1]
            if mp!=rel or mk!=kind:
                bad+=1
                if bad<6: print("DIFF",l,"\n os:",rel,kind,"\n model:",o)
        print("cases",len(lines),"diffs",bad, "kinds", {k:sum(1 for _,x in exp if x.startswith(k)) for k in ("file","dir","none")})
    finally: shutil.rmtree(base)
main()
