namespace Mw

/-! ## IP access control (AccessControl._is_allowed + config layer) -/
inductive Fam where | v4 | v6
deriving Repr, DecidableEq

def Fam.bits : Fam → Nat | .v4 => 32 | .v6 => 128

structure Addr where
  fam : Fam
  val : Nat
deriving Repr, DecidableEq

structure Net where
  fam : Fam
  base : Nat
  plen : Nat
deriving Repr, DecidableEq

/-- `ip_obj in network` : same family and equal after dropping the host bits -/
def Net.contains (n : Net) (a : Addr) : Bool :=
  n.fam = a.fam && (a.val >>> (n.fam.bits - n.plen) == n.base >>> (n.fam.bits - n.plen))

structure Acl where
  allow : List Net
  deny : List Net
  dflt : Bool
deriving Repr, DecidableEq

/-- the loop structure of `_is_allowed` (first deny hit refuses, first allow hit admits) -/
def denyHit : List Net → Addr → Bool
  | [], _ => false
  | n :: ns, a => if n.contains a then true else denyHit ns a
def allowHit : List Net → Addr → Bool
  | [], _ => false
  | n :: ns, a => if n.contains a then true else allowHit ns a

/-- `none` = address text did not parse -/
def isAllowed (acl : Acl) : Option Addr → Bool
  | none => false
  | some a =>
    if denyHit acl.deny a then false
    else if !acl.allow.isEmpty then allowHit acl.allow a
    else acl.dflt

/-- ServerConfig.get_access_control_config (repaired) + start_server wiring:
    `none` = no AccessControl component in the chain -/
structure AclCfg where
  enabled : Bool
  allow : Option (List Net)
  deny : Option (List Net)
  dflt : Bool

def buildAcl (c : AclCfg) : Option Acl :=
  if !c.enabled then none
  else if (c.allow.getD []).isEmpty && (c.deny.getD []).isEmpty && c.dflt then none
  else some { allow := c.allow.getD [], deny := c.deny.getD [], dflt := c.dflt }

/-- what a request from `a` gets from the configured server -/
def serverAdmits (c : AclCfg) (a : Option Addr) : Bool :=
  match buildAcl c with
  | none => true
  | some acl => isAllowed acl a

/-- the line `AccessControl.process_request` answers a refused peer with: "53 Access denied\r\n" -/
def denyLine : List Nat := [53, 51, 32, 65, 99, 99, 101, 115, 115, 32, 100, 101, 110, 105, 101, 100, 13, 10]

/-- `AccessControl.process_request`: `none` = admitted, `some line` = refused with that response line -/
def aclProcess (acl : Acl) (a : Option Addr) : Option (List Nat) :=
  if isAllowed acl a then none else some denyLine

/-! ### list entries as written (`AccessControl.__init__`)

Text parsing is `ipaddress`'s; the model sees, for every entry `e`, the outcome of the three attempts
the constructor makes: `ip_network(e)`, `ip_network(f"{e}/32")`, `ip_network(f"{e}/128")`
(`none` = that call raises `ValueError`).  The third attempt is not guarded, so an entry for which
all three fail makes the constructor raise. -/
structure Entry where
  asNet : Option Net
  as32 : Option Net
  as128 : Option Net
deriving Repr

def Entry.interp (e : Entry) : Option Net :=
  match e.asNet with
  | some n => some n
  | none =>
    match e.as32 with
    | some n => some n
    | none => e.as128

/-- the parsing loop: the first entry without an interpretation raises -/
def interpList : List Entry → Option (List Net)
  | [] => some []
  | e :: es =>
    match e.interp with
    | none => none
    | some n =>
      match interpList es with
      | none => none
      | some ns => some (n :: ns)

/-- `AccessControl(AccessControlConfig(allow, deny, default))`; `none` = the constructor raises.
    An absent list and an empty list are both skipped (`if self.config.allow_list:`). -/
def mkAcl (allow deny : Option (List Entry)) (dflt : Bool) : Option Acl :=
  match interpList (allow.getD []) with
  | none => none
  | some al =>
    match interpList (deny.getD []) with
    | none => none
    | some dn => some { allow := al, deny := dn, dflt := dflt }

/-- the `[access_control]` table as written -/
structure RawCfg where
  enabled : Bool
  allow : Option (List Entry)
  deny : Option (List Entry)
  dflt : Bool

/-- outcome of `ServerConfig.get_access_control_config` + the chain assembly in `start_server` -/
inductive Start where
  | failed                       -- start-up raised: the server does not run
  | running (acl : Option Acl)   -- `none` = no AccessControl component in the chain
deriving Repr, DecidableEq

def noPolicy (c : RawCfg) : Bool := (c.allow.getD []).isEmpty && (c.deny.getD []).isEmpty && c.dflt

def start (c : RawCfg) : Start :=
  if !c.enabled then .running none
  else if noPolicy c then .running none
  else
    match mkAcl c.allow c.deny c.dflt with
    | none => .failed
    | some acl => .running (some acl)

/-- what a peer gets from a running server: `none` = admitted by access control -/
def runningProcess (acl : Option Acl) (a : Option Addr) : Option (List Nat) :=
  match acl with
  | none => none
  | some x => aclProcess x a

/-! ### the chain `start_server` assembles -/

/-- `MiddlewareChain.process_request`: components are consulted in order, the first rejection is the answer
    (a component's verdict: `none` = admits, `some line` = refuses with that line) -/
def chainFirst : List (Option (List Nat)) → Option (List Nat)
  | [] => none
  | none :: r => chainFirst r
  | some l :: _ => some l

/-- class names of the components in the order `start_server` appends them:
    CertificateAuth, AccessControl, RateLimiter -/
def chainOrder : List (List Nat) := [[67, 101, 114, 116, 105, 102, 105, 99, 97, 116, 101, 65, 117, 116, 104], [65, 99, 99, 101, 115, 115, 67, 111, 110, 116, 114, 111, 108], [82, 97, 116, 101, 76, 105, 109, 105, 116, 101, 114]]

/-- the verdict of the assembled chain, given each component's own verdict on the request
    (a component that is not configured counts as admitting) -/
def serverChain (cert acl limiter : Option (List Nat)) : Option (List Nat) := chainFirst [cert, acl, limiter]

/-! ### specification and theorems -/
def Spec (allow deny : List Net) (dflt : Bool) (a : Addr) : Prop :=
  (¬ ∃ d ∈ deny, d.contains a = true) ∧ ((∃ n ∈ allow, n.contains a = true) ∨ (allow = [] ∧ dflt = true))

theorem denyHit_iff (ns : List Net) (a : Addr) : denyHit ns a = true ↔ ∃ n ∈ ns, n.contains a = true := by
  induction ns with
  | nil => simp [denyHit]
  | cons n ns ih => simp only [denyHit]; split <;> simp_all

theorem allowHit_iff (ns : List Net) (a : Addr) : allowHit ns a = true ↔ ∃ n ∈ ns, n.contains a = true := by
  induction ns with
  | nil => simp [allowHit]
  | cons n ns ih => simp only [allowHit]; split <;> simp_all

/-- C09: the middleware decides exactly as configured, for every address -/
theorem acl_iff (acl : Acl) (a : Addr) : isAllowed acl (some a) = true ↔ Spec acl.allow acl.deny acl.dflt a := by
  unfold isAllowed Spec
  by_cases hd : denyHit acl.deny a = true
  · have := (denyHit_iff _ _).mp hd
    simp [hd, this]
  · have hd' : ¬ ∃ d ∈ acl.deny, d.contains a = true := fun h => hd ((denyHit_iff _ _).mpr h)
    simp only [hd, Bool.false_eq_true, ↓reduceIte, hd', not_false_eq_true, true_and]
    cases hal : acl.allow with
    | nil => simp
    | cons n ns =>
      simp only [List.isEmpty_cons, Bool.not_false, ↓reduceIte]
      rw [allowHit_iff]; simp

theorem unparsed_refused (acl : Acl) : isAllowed acl none = false := rfl

/-- C09, configuration layer: what the running server does equals the written policy
    (absent lists count as empty); in particular "no lists, default deny" refuses everyone -/
theorem config_faithful (c : AclCfg) (h : c.enabled = true) (a : Addr) :
    serverAdmits c (some a) = true ↔ Spec (c.allow.getD []) (c.deny.getD []) c.dflt a := by
  unfold serverAdmits buildAcl
  by_cases hc : ((c.allow.getD []).isEmpty && (c.deny.getD []).isEmpty && c.dflt) = true
  · simp only [h, Bool.not_true, Bool.false_eq_true, ↓reduceIte, hc]
    simp only [Bool.and_eq_true, List.isEmpty_iff] at hc
    obtain ⟨⟨ha, hdn⟩, hdf⟩ := hc
    simp [Spec, ha, hdn, hdf]
  · simp only [h, Bool.not_true, Bool.false_eq_true, ↓reduceIte, hc]
    exact acl_iff ⟨c.allow.getD [], c.deny.getD [], c.dflt⟩ a

example : serverAdmits ⟨true, none, none, false⟩ (some ⟨.v4, 1⟩) = false := by decide
example : (Net.mk .v4 0x0A000000 8).contains ⟨.v4, 0x0AFFFFFF⟩ = true ∧
          (Net.mk .v4 0x0A000000 8).contains ⟨.v4, 0x0B000000⟩ = false ∧
          (Net.mk .v4 0x0A000000 8).contains ⟨.v6, 0x0A000001⟩ = false := by decide
end Mw
