import NauyacaVerif.Url.Basic
namespace Url

/-! # M-Router: `Router.route` / `Router._matches` for EXACT and PREFIX routes

`get_location_router` registers one PREFIX route per configured location, in configuration order;
`Router.route` walks the list and calls the first route that matches, the default handler when none
does.  The model returns the index of the chosen route (`none` = default handler). -/

inductive RouteKind where
  | exact | pfx
deriving Repr, DecidableEq

structure Route where
  pattern : Str
  kind : RouteKind
deriving Repr, DecidableEq

/-- `Router._matches` -/
def routeMatches (path : Str) (r : Route) : Bool :=
  match r.kind with
  | .exact => path == r.pattern
  | .pfx => r.pattern.isPrefixOf path

/-- `LocationConfig.__post_init__`: a prefix without a leading `/` gets one -/
def locPrefix (p : Str) : Str := if p.head? = some '/' then p else '/' :: p

/-- `get_location_router`: one PREFIX route per location, in configuration order -/
def locationRoutes (prefixes : List Str) : List Route := prefixes.map (fun p => ⟨locPrefix p, .pfx⟩)

/-- the `for route in self.routes` loop, carrying the index of the route under test -/
def routeFrom (path : Str) : List Route → Nat → Option Nat
  | [], _ => none
  | r :: rs, i => if routeMatches path r then some i else routeFrom path rs (i + 1)

/-- `Router.route`: index of the route whose handler is called, `none` = default handler -/
def route (rs : List Route) (path : Str) : Option Nat := routeFrom path rs 0

theorem routeFrom_none {path : Str} {rs : List Route} {i : Nat} :
    routeFrom path rs i = none ↔ ∀ r ∈ rs, routeMatches path r = false := by
  induction rs generalizing i with
  | nil => simp [routeFrom]
  | cons r rs ih =>
    simp only [routeFrom]
    by_cases hm : routeMatches path r = true
    · simp [hm]
    · have hm' : routeMatches path r = false := by simpa using hm
      rw [if_neg hm, ih]
      simp [hm']

theorem routeFrom_some {path : Str} {rs : List Route} {i k : Nat} :
    routeFrom path rs i = some k ↔
      ∃ a r b, rs = a ++ r :: b ∧ k = i + a.length ∧ routeMatches path r = true ∧ ∀ x ∈ a, routeMatches path x = false := by
  induction rs generalizing i with
  | nil => simp [routeFrom]
  | cons r rs ih =>
    simp only [routeFrom]
    by_cases hm : routeMatches path r = true
    · rw [if_pos hm]
      constructor
      · intro h
        injection h with h
        exact ⟨[], r, rs, rfl, by simp [h], hm, by simp⟩
      · rintro ⟨a, r', b, e, hk, hr, ha⟩
        cases a with
        | nil => simp at hk; rw [hk]
        | cons x xs =>
          simp only [List.cons_append, List.cons.injEq] at e
          have := ha x (by simp)
          rw [← e.1] at this
          rw [this] at hm
          exact absurd hm (by simp)
    · have hm' : routeMatches path r = false := by simpa using hm
      rw [if_neg hm, ih]
      constructor
      · rintro ⟨a, r', b, e, hk, hr, ha⟩
        refine ⟨r :: a, r', b, by simp [e], by simp [hk]; omega, hr, ?_⟩
        intro x hx
        simp at hx
        rcases hx with rfl | hx
        · exact hm'
        · exact ha x hx
      · rintro ⟨a, r', b, e, hk, hr, ha⟩
        cases a with
        | nil =>
          simp only [List.nil_append, List.cons.injEq] at e
          rw [← e.1] at hr
          rw [hr] at hm'
          exact absurd hm' (by simp)
        | cons x xs =>
          simp only [List.cons_append, List.cons.injEq] at e
          refine ⟨xs, r', b, e.2, by simp at hk; omega, hr, fun y hy => ha y (by simp [hy])⟩

end Url
