import NauyacaVerif.Drv.Common
import NauyacaVerif.Mw.Bucket
import NauyacaVerif.Mw.Acl
import NauyacaVerif.Mw.Cert
namespace NauyacaVerif.Drv.MwD
open NauyacaVerif.Drv Mw

def handle : List String → Option String
  | "bucket" :: cap :: rate :: evs =>
    let c : LCfg := { cap := parseRat cap, rate := parseRat rate }
    let evs := evs.map (fun e => match e.splitOn "@" with
      | ["c", t] => LEv.cleanup (parseRat t)
      | [ip, t] => LEv.req ip.toNat! (parseRat t)
      | _ => LEv.cleanup 0)
    some ("ok " ++ String.ofList ((runL c [] evs).map (fun b => if b then '1' else '0')))
  | _ => none
end NauyacaVerif.Drv.MwD
