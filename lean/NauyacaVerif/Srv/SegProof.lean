import NauyacaVerif.Srv.Conn
namespace Srv

/-! # C07: the outcome depends only on the concatenation of the reads -/

/-- a state in which incoming bytes are no longer looked at -/
def Dead (s : St) : Prop := s.lost = true ∨ (s.phase ≠ .awaitLine ∧ s.phase ≠ .awaitTitan)

/-- equal up to the dead buffer -/
def Eqv (s t : St) : Prop := ({ s with buf := [] } : St) = { t with buf := [] } ∧ (¬ Dead s → s.buf = t.buf)

theorem Eqv.refl (s : St) : Eqv s s := ⟨rfl, fun _ => rfl⟩

theorem dead_data (cfg : Cfg) (s : St) (c : Bytes) (h : Dead s) : step cfg s (.data c) = s := by
  simp only [step]
  rcases h with h | ⟨h1, h2⟩
  · simp [h]
  · split
    · rfl
    · cases hp : s.phase <;> simp_all

/-! ## the helper functions do not look at the buffer -/
theorem respondWith_buf (s : St) (x : Bytes) (o : List Out) :
    respondWith { s with buf := x } o = { respondWith s o with buf := x } := by
  unfold respondWith; split <;> rfl

theorem respond_buf (s : St) (x : Bytes) (r : Resp) : respond { s with buf := x } r = { respond s r with buf := x } := by
  unfold respond; exact respondWith_buf _ _ _

theorem respondFixed_buf (s : St) (x : Bytes) (st : Int) (m : String) :
    respondFixed { s with buf := x } st m = { respondFixed s st m with buf := x } := respond_buf _ _ _

theorem respondDyn_buf (s : St) (x : Bytes) (n : Nat) : respondDyn { s with buf := x } n = { respondDyn s n with buf := x } :=
  respondWith_buf _ _ _

theorem route_buf (cfg : Cfg) (s : St) (x : Bytes) : route cfg { s with buf := x } = { route cfg s with buf := x } := by
  unfold route
  cases cfg.handler with
  | sync r => exact respond_buf { s with hcalls := s.hcalls + 1 } x r
  | syncRaise => exact respondDyn_buf { s with hcalls := s.hcalls + 1 } x 40
  | async => rfl

theorem dispatchG_buf (cfg : Cfg) (s : St) (x : Bytes) :
    dispatchG cfg { s with buf := x } = { dispatchG cfg s with buf := x } := by
  unfold dispatchG; split
  · rfl
  · exact route_buf _ _ _

/-! ## every finishing function leaves a dead state -/
theorem respondWith_dead (s : St) (o : List Out) : Dead (respondWith s o) := by
  unfold respondWith; split <;> right <;> simp

theorem route_dead (cfg : Cfg) (s : St) : Dead (route cfg s) := by
  unfold route
  cases cfg.handler with
  | sync r => exact respondWith_dead _ _
  | syncRaise => exact respondWith_dead _ _
  | async => right; simp

theorem dispatchG_dead (cfg : Cfg) (s : St) : Dead (dispatchG cfg s) := by
  unfold dispatchG; split
  · right; simp
  · exact route_dead _ _

theorem dispatchT_dead (cfg : Cfg) (s : St) : Dead (dispatchT cfg s) := by
  unfold dispatchT; split
  · right; simp
  · right; simp [startUpload]

/-- two dead states that agree on everything but the buffer are equivalent -/
theorem eqv_of_dead {s t : St} (h : ({ s with buf := [] } : St) = { t with buf := [] }) (hd : Dead s) : Eqv s t :=
  ⟨h, fun hn => absurd hd hn⟩

theorem eqv_setbuf_dead (s : St) (x y : Bytes) (hd : Dead s) : Eqv { s with buf := x } { s with buf := y } := by
  refine eqv_of_dead rfl ?_
  rcases hd with h | h
  · left; exact h
  · right; exact h
end Srv

namespace Srv

theorem findCRLF_lt {b : Bytes} {i : Nat} (h : findCRLF b = some i) : i + 2 ≤ b.length := by
  fun_induction findCRLF b generalizing i with
  | case1 => simp at h
  | case2 => simp at h
  | case3 a b rest hc => simp at h; subst h; simp
  | case4 a b rest hc ih =>
    simp at h; obtain ⟨j, hj, rfl⟩ := h
    have := ih hj; simp at this ⊢; omega

theorem findCRLF_append_some {a : Bytes} {i : Nat} (b : Bytes) (h : findCRLF a = some i) :
    findCRLF (a ++ b) = some i := by
  fun_induction findCRLF a generalizing i with
  | case1 => simp at h
  | case2 => simp at h
  | case3 x y rest hc => simp at h; subst h; simp [findCRLF, hc]
  | case4 x y rest hc ih =>
    simp at h; obtain ⟨j, hj, rfl⟩ := h
    have := ih hj
    simp only [List.cons_append] at this ⊢
    simp [findCRLF, hc, this]

theorem findCRLF_append_none {a : Bytes} (b : Bytes) {i : Nat} (h : findCRLF a = none)
    (h2 : findCRLF (a ++ b) = some i) : a.length ≤ i + 1 := by
  fun_induction findCRLF a generalizing i with
  | case1 => simp
  | case2 => simp
  | case3 x y rest hc => simp at h
  | case4 x y rest hc ih =>
    simp at h
    simp only [List.cons_append] at h2
    rw [findCRLF] at h2
    simp [hc] at h2
    obtain ⟨j, hj, rfl⟩ := h2
    have := ih h (by simpa using hj)
    simp at this ⊢; omega

/-- the Titan branch: waiting for `n` content bytes absorbs a later read -/
theorem titan_absorb (cfg : Cfg) (s : St) (n : Nat) (rest b : Bytes) (hl : s.lost = false) :
    Eqv (step cfg (let s1 := { s with buf := rest, size := n }
                   if n = 0 ∨ s1.buf.length ≥ n then dispatchT cfg s1 else { s1 with phase := .awaitTitan }) (.data b))
        (let s1 := { s with buf := rest ++ b, size := n }
         if n = 0 ∨ s1.buf.length ≥ n then dispatchT cfg s1 else { s1 with phase := .awaitTitan }) := by
  obtain ⟨phase, buf, timer, lost, sent, out, hcalls, ucalls, mwcalls, allowed, size, content, now, req⟩ := s
  simp only at hl; subst hl
  simp only
  by_cases hc : n = 0 ∨ rest.length ≥ n
  · have hc' : n = 0 ∨ (rest ++ b).length ≥ n := by rcases hc with h | h; exact Or.inl h; right; simp; omega
    simp only [hc, hc', ↓reduceIte]
    rw [dead_data _ _ _ (dispatchT_dead _ _)]
    refine eqv_of_dead ?_ (dispatchT_dead _ _)
    have ht : rest.take n = (rest ++ b).take n := by
      rcases hc with h | h
      · subst h; simp
      · rw [List.take_append_of_le_length h]
    cases hm : cfg.mw <;> simp [dispatchT, startUpload, hm, ht]
  · have hn : n ≠ 0 := fun h => hc (Or.inl h)
    have hlen : ¬ rest.length ≥ n := fun h => hc (Or.inr h)
    simp only [hc, ↓reduceIte]
    simp only [step, titanStep, Bool.false_eq_true, ↓reduceIte]
    by_cases hc2 : (rest ++ b).length ≥ n
    · have : n = 0 ∨ (rest ++ b).length ≥ n := Or.inr hc2
      simp only [hc2, this, ↓reduceIte]
      refine eqv_of_dead ?_ (dispatchT_dead _ _)
      cases hm : cfg.mw <;> simp [dispatchT, startUpload, hm]
    · simp only [hc2, hn, or_self, ↓reduceIte]
      exact Eqv.refl _

end Srv

namespace Srv

theorem eqv_finish {cfg : Cfg} {f : St → St} (s : St) (x y b : Bytes)
    (hbuf : ∀ (t : St) (z : Bytes), f { t with buf := z } = { f t with buf := z }) (hdead : ∀ t, Dead (f t)) :
    Eqv (step cfg (f { s with buf := x }) (.data b)) (f { s with buf := y }) := by
  have h1 := hbuf s x
  have h2 := hbuf s y
  rw [dead_data _ _ _ (hdead _), h1, h2]
  exact eqv_setbuf_dead (f s) x y (hdead s)

/-- once the request line is complete, a later read is absorbed: processing `rest` and then `b`
    is the same as processing `rest ++ b` at once -/
theorem onLine_absorb (cfg : Cfg) (s : St) (line rest b : Bytes) (hl : s.lost = false) :
    Eqv (step cfg (onLine cfg s line rest) (.data b)) (onLine cfg s line (rest ++ b)) := by
  unfold onLine
  simp only
  split
  · -- invalid UTF-8
    exact eqv_finish (f := fun t => respondFixed t 59 "Invalid UTF-8 encoding") { s with req := some line } rest (rest ++ b) b
      (fun t z => respondFixed_buf t z _ _) (fun t => respondWith_dead _ _)
  · split
    · split
      · exact eqv_finish (f := fun t => respondFixed t 50 "Titan uploads not supported on this server") { s with req := some line } rest (rest ++ b) b
          (fun t z => respondFixed_buf t z _ _) (fun t => respondWith_dead _ _)
      · split
        · exact eqv_finish (f := fun t => respondDyn t 59) { s with req := some line } rest (rest ++ b) b
            (fun t z => respondDyn_buf t z _) (fun t => respondWith_dead _ _)
        · rename_i n _
          exact titan_absorb cfg { s with req := some line } n rest b hl
    · split
      · exact eqv_finish (f := fun t => dispatchG cfg { t with timer := false }) { s with req := some line } rest (rest ++ b) b
          (fun t z => dispatchG_buf cfg { t with timer := false } z) (fun t => dispatchG_dead _ _)
      · exact eqv_finish (f := fun t => respondDyn { t with timer := false } 59) { s with req := some line } rest (rest ++ b) b
          (fun t z => respondDyn_buf { t with timer := false } z _) (fun t => respondWith_dead _ _)

end Srv

namespace Srv

theorem tooLong_buf (s : St) (x : Bytes) : tooLong { s with buf := x } = { tooLong s with buf := x } :=
  respondFixed_buf _ _ _ _

theorem tooLong_dead (s : St) : Dead (tooLong s) := by
  unfold tooLong respondFixed respond; exact respondWith_dead _ _

theorem eqv_tooLong (s : St) (x y : Bytes) : Eqv (tooLong { s with buf := x }) (tooLong { s with buf := y }) := by
  have h1 := tooLong_buf s x
  have h2 := tooLong_buf s y
  rw [h1, h2]; exact eqv_setbuf_dead (tooLong s) x y (tooLong_dead s)

theorem onLine_ignores_buf (cfg : Cfg) (s : St) (x y l r : Bytes) :
    onLine cfg { s with buf := x } l r = onLine cfg { s with buf := y } l r := by
  unfold onLine; rfl

/-- any continuation of an over-long, CRLF-free buffer is over-long too -/
theorem lineStep_tooLong (cfg : Cfg) (s : St) (x b : Bytes) (hf : findCRLF x = none) (hlen : x.length > maxRequest) :
    lineStep cfg s (x ++ b) = tooLong { s with buf := x ++ b } := by
  unfold lineStep
  cases hf2 : findCRLF (x ++ b) with
  | none =>
    have : (x ++ b).length > maxRequest := by simp at hlen ⊢; omega
    simp only [if_pos this]
  | some j =>
    have h1 := findCRLF_append_none b hf hf2
    have : j + 2 > maxRequest := by omega
    simp only [if_pos this]

theorem step_line {cfg : Cfg} {s : St} (hl : s.lost = false) (hp : s.phase = .awaitLine) (hs : s.sent = false)
    (c : Bytes) : step cfg s (.data c) = lineStep cfg s (s.buf ++ c) := by
  simp [step, hl, hp, hs]

theorem step_titan {cfg : Cfg} {s : St} (hl : s.lost = false) (hp : s.phase = .awaitTitan)
    (c : Bytes) : step cfg s (.data c) = titanStep cfg s (s.buf ++ c) := by
  simp [step, hl, hp]

/-- two reads in a row act like one read of their concatenation -/
theorem merge (cfg : Cfg) (s : St) (a b : Bytes) :
    Eqv (step cfg (step cfg s (.data a)) (.data b)) (step cfg s (.data (a ++ b))) := by
  by_cases hl : s.lost = true
  · have hd : Dead s := Or.inl hl
    rw [dead_data _ _ _ hd, dead_data _ _ _ hd, dead_data _ _ _ hd]; exact Eqv.refl _
  have hl' : s.lost = false := by simpa using hl
  cases hp : s.phase with
  | awaitLine =>
    by_cases hs : s.sent = true
    · have e1 : ∀ c, step cfg s (.data c) = s := by intro c; simp [step, hl', hp, hs]
      rw [e1, e1, e1]; exact Eqv.refl _
    have hs' : s.sent = false := by simpa using hs
    rw [step_line hl' hp hs' a, step_line hl' hp hs' (a ++ b), ← List.append_assoc]
    generalize hx : s.buf ++ a = x
    cases hf : findCRLF x with
    | none =>
      by_cases hlen : x.length > maxRequest
      · rw [lineStep_tooLong cfg s x b hf hlen]
        have e : lineStep cfg s x = tooLong { s with buf := x } := by
          unfold lineStep; simp only [hf, if_pos hlen]
        rw [e, dead_data _ _ _ (tooLong_dead _)]
        exact eqv_tooLong s x (x ++ b)
      · have e : lineStep cfg s x = { s with buf := x } := by
          unfold lineStep; simp only [hf, if_neg hlen]
        rw [e, step_line (s := { s with buf := x }) hl' hp hs' b]
        -- `lineStep` overwrites the buffer of the state it is given
        have : lineStep cfg { s with buf := x } (x ++ b) = lineStep cfg s (x ++ b) := by
          unfold lineStep
          split
          · split <;> rfl
          · split
            · rfl
            · exact onLine_ignores_buf cfg s _ _ _ _
        rw [this]; exact Eqv.refl _
    | some i =>
      have hi := findCRLF_lt hf
      have hf2 : findCRLF (x ++ b) = some i := findCRLF_append_some b hf
      by_cases hbig : i + 2 > maxRequest
      · have e1 : lineStep cfg s x = tooLong { s with buf := x } := by
          unfold lineStep; simp only [hf, if_pos hbig]
        have e2 : lineStep cfg s (x ++ b) = tooLong { s with buf := x ++ b } := by
          unfold lineStep; simp only [hf2, if_pos hbig]
        rw [e1, e2, dead_data _ _ _ (tooLong_dead _)]
        exact eqv_tooLong s x (x ++ b)
      · have e1 : lineStep cfg s x = onLine cfg { s with buf := x } (x.take i) (x.drop (i + 2)) := by
          unfold lineStep; simp only [hf, if_neg hbig]
        have e2 : lineStep cfg s (x ++ b) =
            onLine cfg { s with buf := x ++ b } ((x ++ b).take i) ((x ++ b).drop (i + 2)) := by
          unfold lineStep; simp only [hf2, if_neg hbig]
        have htake : (x ++ b).take i = x.take i := List.take_append_of_le_length (by omega)
        have hdrop : (x ++ b).drop (i + 2) = x.drop (i + 2) ++ b := List.drop_append_of_le_length (by omega)
        rw [e1, e2, htake, hdrop, onLine_ignores_buf cfg s (x ++ b) x]
        exact onLine_absorb cfg { s with buf := x } _ _ b hl'
  | awaitTitan =>
    rw [step_titan hl' hp a, step_titan hl' hp (a ++ b), ← List.append_assoc]
    generalize hx : s.buf ++ a = x
    unfold titanStep
    by_cases h1 : x.length ≥ s.size
    · have h2 : (x ++ b).length ≥ s.size := by simp at h1 ⊢; omega
      simp only [h1, h2, ↓reduceIte]
      rw [dead_data _ _ _ (dispatchT_dead _ _)]
      refine eqv_of_dead ?_ (dispatchT_dead _ _)
      have ht : x.take s.size = (x ++ b).take s.size := (List.take_append_of_le_length h1).symm
      cases hm : cfg.mw <;> simp [dispatchT, startUpload, hm, ht]
    · simp only [h1, ↓reduceIte]
      rw [step_titan (s := { s with buf := x }) hl' hp b]
      unfold titanStep
      simp only
      split
      · refine eqv_of_dead ?_ (dispatchT_dead _ _)
        cases hm : cfg.mw <;> simp [dispatchT, startUpload, hm]
      · exact Eqv.refl _
  | mwG | mwT | hPend | uPend | done =>
    have hd : Dead s := Or.inr (by simp [hp])
    rw [dead_data _ _ _ hd, dead_data _ _ _ hd, dead_data _ _ _ hd]; exact Eqv.refl _

end Srv

namespace Srv

theorem Eqv.trans {a b c : St} (h1 : Eqv a b) (h2 : Eqv b c) : Eqv a c := by
  refine ⟨h1.1.trans h2.1, fun hn => ?_⟩
  have hab := h1.2 hn
  have hdb : ¬ Dead b := by
    intro hd; apply hn
    have := h1.1
    have hl : a.lost = b.lost := by simpa using congrArg St.lost this
    have hp : a.phase = b.phase := by simpa using congrArg St.phase this
    rcases hd with h | h
    · left; rw [hl]; exact h
    · right; rw [hp]; exact h
  exact hab.trans (h2.2 hdb)

def feedAll (cfg : Cfg) (s : St) (chunks : List Bytes) : St := chunks.foldl (fun s c => step cfg s (.data c)) s

/-- C07: however the transport splits the client's bytes into reads, the connection ends up in the
    same state (up to the buffer nobody reads any more) as if they had arrived in a single read -/
theorem seg_indep (cfg : Cfg) (s : St) (c : Bytes) (cs : List Bytes) :
    Eqv (feedAll cfg s (c :: cs)) (step cfg s (.data (c ++ cs.flatten))) := by
  induction cs generalizing s c with
  | nil => simp [feedAll]; exact Eqv.refl _
  | cons d ds ih =>
    have h1 : feedAll cfg s (c :: d :: ds) = feedAll cfg (step cfg s (.data c)) (d :: ds) := rfl
    rw [h1]
    refine (ih (step cfg s (.data c)) d).trans ?_
    have : c ++ (d :: ds).flatten = c ++ (d ++ ds.flatten) := by simp
    rw [this]
    exact merge cfg s c (d ++ ds.flatten)

/-- in particular the response, the handler invocations and the uploaded content are the same -/
theorem seg_indep_observables (cfg : Cfg) (c : Bytes) (cs : List Bytes) :
    let a := feedAll cfg {} (c :: cs)
    let b := step cfg {} (.data (c ++ cs.flatten))
    a.out = b.out ∧ a.hcalls = b.hcalls ∧ a.ucalls = b.ucalls ∧ a.mwcalls = b.mwcalls ∧ a.content = b.content ∧
      a.phase = b.phase := by
  have h := (seg_indep cfg {} c cs).1
  refine ⟨?_, ?_, ?_, ?_, ?_, ?_⟩
  · simpa using congrArg St.out h
  · simpa using congrArg St.hcalls h
  · simpa using congrArg St.ucalls h
  · simpa using congrArg St.mwcalls h
  · simpa using congrArg St.content h
  · simpa using congrArg St.phase h

end Srv

namespace Srv

/-! ## extension to arbitrary continuations: `≈` is a congruence for every event -/

theorem startUpload_dead (s : St) : Dead (startUpload s) := by right; simp [startUpload]

/-- non-data events never look at the buffer -/
theorem step_buf (cfg : Cfg) (s : St) (x : Bytes) (e : Ev) (he : ∀ c, e ≠ .data c) :
    step cfg { s with buf := x } e = { step cfg s e with buf := x } := by
  cases e with
  | data c => exact absurd rfl (he c)
  | timeout =>
    show (if s.timer ∧ !s.lost then respondFixed { s with buf := x } 40 "Request timeout" else { s with buf := x }) = _
    simp only [step]
    split
    · exact respondFixed_buf s x _ _
    · rfl
  | tick dt =>
    simp only [step]
    split
    · exact respondFixed_buf { s with now := s.now + dt } x _ _
    · rfl
  | lost => rfl
  | mwAllow =>
    by_cases h1 : s.phase = .mwG
    · have e1 : step cfg { s with buf := x } .mwAllow = route cfg { { s with allowed := s.allowed + 1 } with buf := x } := by
        simp [step, h1]
      have e2 : step cfg s .mwAllow = route cfg { s with allowed := s.allowed + 1 } := by simp [step, h1]
      rw [e1, e2]; exact route_buf cfg _ x
    · by_cases h2 : s.phase = .mwT
      · have e1 : step cfg { s with buf := x } .mwAllow = startUpload { { s with allowed := s.allowed + 1 } with buf := x } := by
          simp [step, h2]
        have e2 : step cfg s .mwAllow = startUpload { s with allowed := s.allowed + 1 } := by simp [step, h2]
        rw [e1, e2]; rfl
      · have e1 : step cfg { s with buf := x } .mwAllow = { s with buf := x } := by
          simp only [step]; try (split <;> first | rfl | simp_all)
        have e2 : step cfg s .mwAllow = s := by simp only [step]; try (split <;> first | rfl | simp_all)
        rw [e1, e2]
  | mwDeny l =>
    by_cases h1 : s.phase = .mwG ∨ s.phase = .mwT
    · have e1 : step cfg { s with buf := x } (.mwDeny l) = respond { s with buf := x } (rejection l) := by
        rcases h1 with h | h <;> simp [step, h]
      have e2 : step cfg s (.mwDeny l) = respond s (rejection l) := by rcases h1 with h | h <;> simp [step, h]
      rw [e1, e2]; exact respond_buf s x _
    · have e1 : step cfg { s with buf := x } (.mwDeny l) = { s with buf := x } := by
        simp only [step]; try (split <;> first | rfl | simp_all)
      have e2 : step cfg s (.mwDeny l) = s := by simp only [step]; try (split <;> first | rfl | simp_all)
      rw [e1, e2]
  | mwRaise =>
    by_cases h1 : s.phase = .mwG ∨ s.phase = .mwT
    · have e1 : step cfg { s with buf := x } .mwRaise = respondFixed { s with buf := x } 40 "Middleware error" := by
        rcases h1 with h | h <;> simp [step, h]
      have e2 : step cfg s .mwRaise = respondFixed s 40 "Middleware error" := by rcases h1 with h | h <;> simp [step, h]
      rw [e1, e2]; exact respondFixed_buf s x _ _
    · have e1 : step cfg { s with buf := x } .mwRaise = { s with buf := x } := by
        simp only [step]; try (split <;> first | rfl | simp_all)
      have e2 : step cfg s .mwRaise = s := by simp only [step]; try (split <;> first | rfl | simp_all)
      rw [e1, e2]
  | hDone r =>
    by_cases hp : s.phase = .hPend
    · have e1 : step cfg { s with buf := x } (.hDone r) = respond { s with buf := x } r := by simp [step, hp]
      have e2 : step cfg s (.hDone r) = respond s r := by simp [step, hp]
      rw [e1, e2]; exact respond_buf s x r
    · simp [step, hp]
  | hRaise =>
    by_cases hp : s.phase = .hPend
    · have e1 : step cfg { s with buf := x } .hRaise = respondDyn { s with buf := x } 40 := by simp [step, hp]
      have e2 : step cfg s .hRaise = respondDyn s 40 := by simp [step, hp]
      rw [e1, e2]; exact respondDyn_buf s x 40
    · simp [step, hp]
  | uDone r =>
    by_cases hp : s.phase = .uPend
    · have e1 : step cfg { s with buf := x } (.uDone r) = respond { s with buf := x } r := by simp [step, hp]
      have e2 : step cfg s (.uDone r) = respond s r := by simp [step, hp]
      rw [e1, e2]; exact respond_buf s x r
    · simp [step, hp]
  | uRaise =>
    by_cases hp : s.phase = .uPend
    · have e1 : step cfg { s with buf := x } .uRaise = respondDyn { s with buf := x } 40 := by simp [step, hp]
      have e2 : step cfg s .uRaise = respondDyn s 40 := by simp [step, hp]
      rw [e1, e2]; exact respondDyn_buf s x 40
    · simp [step, hp]

theorem dead_step (cfg : Cfg) (s : St) (e : Ev) (h : Dead s) : Dead (step cfg s e) := by
  cases e with
  | data c => rw [dead_data _ _ _ h]; exact h
  | timeout => simp only [step]; split; exact respondWith_dead _ _; exact h
  | tick dt => simp only [step]; split; exact respondWith_dead _ _; exact h
  | lost => left; rfl
  | mwAllow =>
    simp only [step]; split
    · exact route_dead _ _
    · exact startUpload_dead _
    · exact h
  | mwDeny l => simp only [step]; split <;> first | exact respondWith_dead _ _ | exact h
  | mwRaise => simp only [step]; split <;> first | exact respondWith_dead _ _ | exact h
  | hDone r => simp only [step]; split <;> first | exact respondWith_dead _ _ | exact h
  | hRaise => simp only [step]; split <;> first | exact respondWith_dead _ _ | exact h
  | uDone r => simp only [step]; split <;> first | exact respondWith_dead _ _ | exact h
  | uRaise => simp only [step]; split <;> first | exact respondWith_dead _ _ | exact h

theorem eqv_eq_of_alive {s t : St} (h : Eqv s t) (hn : ¬ Dead s) : s = t := by
  obtain ⟨h1, h2⟩ := h
  have hb := h2 hn
  obtain ⟨p1, b1, t1, l1, s1, o1, h1', u1, m1, a1, z1, c1, n1, r1⟩ := s
  obtain ⟨p2, b2, t2, l2, s2, o2, h2', u2, m2, a2, z2, c2, n2, r2⟩ := t
  simp only [St.mk.injEq] at h1 ⊢
  simp only at hb
  obtain ⟨e1, _, e3, e4, e5, e6, e7, e8, e9, e10, e11, e12, e13, e14⟩ := h1
  exact ⟨e1, hb, e3, e4, e5, e6, e7, e8, e9, e10, e11, e12, e13, e14⟩

/-- `≈` is preserved by every event -/
theorem eqv_step (cfg : Cfg) {s t : St} (h : Eqv s t) (e : Ev) : Eqv (step cfg s e) (step cfg t e) := by
  by_cases hd : Dead s
  · -- both are dead and differ at most in the buffer: write both as buffer updates of one state
    have h1 := h.1
    have hs : s = { ({ s with buf := [] } : St) with buf := s.buf } := rfl
    have ht : t = { ({ s with buf := [] } : St) with buf := t.buf } := by rw [h1]
    have hd0 : Dead ({ s with buf := [] } : St) := hd
    by_cases hdat : ∃ c, e = .data c
    · obtain ⟨c, rfl⟩ := hdat
      have hdt : Dead t := by rw [ht]; exact hd0
      rw [dead_data _ _ _ hd, dead_data _ _ _ hdt]; exact h
    · have he : ∀ c, e ≠ .data c := fun c hc => hdat ⟨c, hc⟩
      rw [hs, ht, step_buf cfg _ s.buf e he, step_buf cfg _ t.buf e he]
      exact eqv_setbuf_dead _ _ _ (dead_step cfg _ e hd0)
  · rw [eqv_eq_of_alive h hd]; exact Eqv.refl _

/-- C07, full form: the reads may be followed by any events (timer, task completions, disconnect);
    the final state is the same whatever the segmentation of the reads was -/
theorem seg_indep_then (cfg : Cfg) (s : St) (c : Bytes) (cs : List Bytes) (rest : List Ev) :
    Eqv (rest.foldl (step cfg) (feedAll cfg s (c :: cs)))
        (rest.foldl (step cfg) (step cfg s (.data (c ++ cs.flatten)))) := by
  have h0 := seg_indep cfg s c cs
  generalize feedAll cfg s (c :: cs) = a at h0
  generalize step cfg s (.data (c ++ cs.flatten)) = b at h0
  induction rest generalizing a b with
  | nil => simpa using h0
  | cons e es ih => exact ih _ _ (eqv_step cfg h0 e)

end Srv
