import NauyacaVerif.Fs.Static
import NauyacaVerif.Fs.Canon
namespace Fs

/-! ## `canonical_path` on driver strings: the provable code-point model of `Fs.Canon`, with the
    segments turned into tree names -/
def toName (s : Canon.Cps) : Name := String.ofList (s.map Char.ofNat)
def ofName (n : Name) : Canon.Cps := n.toList.map Char.toNat

def canonSegs (raw : Canon.Cps) : List Name × Bool :=
  let sp := Canon.canonSegs raw
  (sp.1.map toName, sp.2)

/-- `_get_mime_type`: `Path.suffix.lower() in (".gmi", ".gemini")`.  `Path.suffix` is empty for a
    name whose only dot is the first or the last character. -/
def suffixOf (name : List Char) : List Char :=
  match name.reverse.span (· ≠ '.') with
  | (_, []) => []                                   -- no dot
  | (revExt, _ :: revStem) =>
    if revStem.isEmpty ∨ revExt.isEmpty then [] else '.' :: revExt.reverse

def lowerAscii (c : Char) : Char := if 'A' ≤ c ∧ c ≤ 'Z' then Char.ofNat (c.toNat + 32) else c

def mimeGem (name : Name) : Bool :=
  let s := (suffixOf name.toList).map lowerAscii
  s == ['.', 'g', 'm', 'i'] || s == ['.', 'g', 'e', 'm', 'i', 'n', 'i']

/-! ## the symlink tree as an OS -/
inductive Walk where
  | found (p : Path) (n : Node)
  | enoent            -- missing component / not a directory
  | eloop             -- too many levels of symbolic links
  | tooLong           -- a component longer than NAME_MAX bytes looked up in an existing directory
deriving Repr, DecidableEq

def nameMax : Nat := 255

def isDirAt (t : Tree) (p : Path) : Bool := t.lstat p == some .dir

/-- kernel-style walk: follows every symlink -/
def kwalk (t : Tree) : Nat → Path → List Name → Walk
  | 0, _, _ => .eloop
  | _ + 1, cur, [] =>
    match t.lstat cur with
    | some n => .found cur n
    | none => .enoent
  | fuel + 1, cur, name :: rest =>
    -- `.`, `..` and an empty component (doubled or trailing slash) need a directory to stand on: ENOTDIR otherwise
    if name = "" ∨ name = "." then (if isDirAt t cur then kwalk t fuel cur rest else .enoent)
    else if name = ".." then (if isDirAt t cur then kwalk t fuel cur.dropLast rest else .enoent)
    else
      match t.lstat cur with
      | some .dir =>
        if name.utf8ByteSize > nameMax then .tooLong
        else
          let nxt := cur ++ [name]
          match t.lstat nxt with
          | some (.link target) =>
            let comps := splitPath target
            let start : Path := if target.startsWith "/" then [] else cur
            kwalk t fuel start (comps ++ rest)
          | some _ => kwalk t fuel nxt rest
          | none => .enoent
      | _ => .enoent

def kwalkTop (t : Tree) (p : Path) : Walk := kwalk t 300 [] p

def kstat (t : Tree) (p : Path) : Option (Path × Node) :=
  match kwalkTop t p with
  | .found q n => some (q, n)
  | _ => none

def normpath (p : List Name) : Path :=
  p.foldl (fun acc n => if n = "" ∨ n = "." then acc else if n = ".." then acc.dropLast else acc ++ [n]) []

def nameHasNul (n : Name) : Bool := n.toList.contains (Char.ofNat 0)

/-- `Path.resolve()` (non-strict; what the handler used before it resolved strictly): an embedded
    NUL raises `ValueError`; otherwise realpath; on a loop the lexically normalised remainder, then
    the `stat()` probe that turns ELOOP into an exception (none).  Its result can still end in a
    symlink (a link whose target passes through the link itself). -/
def resolveLax (t : Tree) (p : Path) : Option Path :=
  if p.any nameHasNul then none
  else
    let (r, ok) := realpath t p
    if ok then some r
    else
      let n := normpath r
      if kwalkTop t n = .eloop then none else some n

/-- `Path.resolve(strict=True)` as `StaticFileHandler` calls it: an embedded NUL raises
    `ValueError`, a component that does not exist (or whose name is too long) and a symlink loop
    raise `OSError` / `RuntimeError` (none) -/
def resolveT (t : Tree) (p : Path) : Option Path :=
  if p.any nameHasNul then none else realpathStrict t p

structure FileMeta where
  id : Nat
  utf8 : Bool
  size : Nat
deriving Repr

def metaOf (metas : List FileMeta) (id : Nat) : FileMeta :=
  (metas.find? (·.id == id)).getD ⟨id, true, 0⟩

def treeOS (t : Tree) (metas : List FileMeta) : OS where
  resolve := resolveT t
  kind := fun p => match kwalkTop t p with
    | .found _ (.file _) => .file
    | .found _ .dir => .dir
    | .found _ (.link _) => .other
    | .tooLong => .error
    | _ => .missing
  size := fun p => match kstat t p with
    | some (_, .file id) => (metaOf metas id).size
    | _ => 0
  readText := fun p => match kstat t p with
    | some (_, .file id) => if (metaOf metas id).utf8 then .ok id else .notUtf8
    | _ => .ioError
  listing := fun p =>
    match kstat t p with
    | some (d, .dir) =>
      let children := t.filterMap (fun e => if e.1.dropLast == d ∧ !e.1.isEmpty then e.1.getLast? else none)
      -- `item.is_dir()` swallows errors, `item.stat()` on a dangling / looping non-directory raises
      if children.any (fun c => (kstat t (d ++ [c])).isNone) then none else some children
    | _ => none
end Fs
