/-!
The SQL statements `TOFUDatabase` (security/tofu.py) issues, as operations on a world `W` threaded through the TRANSLATED
database methods (`Gen/Fn/Tofu*.lean`).  The translator maps each statement TEXT to one operation and refuses any other
text; `H` = host names.  Instances: `Misc.pinsEnv` (the pin store of M-Tofu, C03) and `TofuTxn.recEnv` (the statement
recorder of M-Tofu transactions, C12).
-/
namespace Misc

inductive DbErr where
  | integrity               -- sqlite3.IntegrityError: UNIQUE constraint failed: known_hosts.hostname, known_hosts.port
deriving Repr, DecidableEq

structure SqlEnv (W H : Type) where
  /-- SELECT fingerprint FROM known_hosts WHERE hostname = ? AND port = ?  (+ fetchone) -/
  selectFp : W → H → Nat → W × Option Nat
  /-- INSERT INTO known_hosts (hostname, port, fingerprint, first_seen, last_seen) VALUES (?, ?, ?, now, now) -/
  insert : W → H → Nat → Nat → W × Except DbErr Unit
  /-- UPDATE known_hosts SET fingerprint = ?, last_seen = now WHERE hostname = ? AND port = ? -/
  updateFp : W → Nat → H → Nat → W
  /-- UPDATE known_hosts SET last_seen = now WHERE hostname = ? AND port = ? -/
  touch : W → H → Nat → W
  /-- DELETE FROM known_hosts WHERE hostname = ? AND port = ?  (+ rowcount) -/
  delete : W → H → Nat → W × Nat
  /-- DELETE FROM known_hosts WHERE hostname = ?  (+ rowcount) -/
  deleteHost : W → H → W × Nat
  /-- DELETE FROM known_hosts  (+ rowcount) -/
  deleteAll : W → W × Nat
  /-- conn.commit() -/
  commit : W → W
  /-- conn.close() (leaving `with self._connection()`) -/
  close : W → W

end Misc
