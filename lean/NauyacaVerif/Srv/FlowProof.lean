import NauyacaVerif.Srv.Flow

/-! Theorems about the write pump: what has been written is always a prefix of the response's pieces, in order;
    the close comes only after all of them; nothing is written while paused, after the close or after a
    disconnect; a resume on an unlimited transport finishes the response. -/
namespace Srv.Flow

theorem chunkFuel_flatten (n : Nat) (hn : 0 < n) (fuel : Nat) (b : Bytes) (h : b.length ≤ fuel) :
    (chunkFuel n fuel b).flatten = b := by
  induction fuel generalizing b with
  | zero =>
    have : b = [] := List.length_eq_zero_iff.mp (by omega)
    subst this; rfl
  | succ f ih =>
    simp only [chunkFuel]
    split
    · rename_i he; simpa using he
    · rename_i he
      have hpos : 0 < b.length := by
        cases b with
        | nil => simp at he
        | cons _ _ => simp
      simp only [List.flatten_cons]
      rw [ih (b.drop n) (by simp only [List.length_drop]; omega)]
      exact List.take_append_drop n b

/-- cutting the body into pieces loses nothing -/
theorem chunk_flatten (b : Bytes) : (chunk writeChunk b).flatten = b :=
  chunkFuel_flatten writeChunk (by decide) b.length b (Nat.le_refl _)

/-- … so the pieces of a response concatenate to header ++ body of the renderer -/
theorem pieces_flatten (r : Resp) : (pieces r).flatten = (render r).1 ++ (render r).2 := by
  simp [pieces, chunk_flatten]

theorem chunkFuel_size (n fuel : Nat) (b : Bytes) : ∀ p ∈ chunkFuel n fuel b, p.length ≤ n := by
  induction fuel generalizing b with
  | zero => intro p hp; simp [chunkFuel] at hp
  | succ f ih =>
    intro p hp
    simp only [chunkFuel] at hp
    split at hp
    · simp at hp
    · simp only [List.mem_cons] at hp
      rcases hp with rfl | hp
      · simp [List.length_take]; omega
      · exact ih _ p hp

/-- no body piece is larger than `WRITE_CHUNK_SIZE` -/
theorem chunk_size (b : Bytes) : ∀ p ∈ chunk writeChunk b, p.length ≤ writeChunk := chunkFuel_size _ _ _

/-- the invariant of the pump: written pieces followed by unsent ones are exactly the response handed over;
    the trace is those written pieces, in order, followed by `close` exactly when closed; closed only with
    nothing left -/
structure FInv (s : FSt) : Prop where
  total : s.done ++ s.unsent = s.all
  trace : s.out = s.done.map .write ++ (if s.closed then [.close] else [])
  closedEmpty : s.closed = true → s.unsent = []
  idle : s.started = false → s.all = [] ∧ s.done = [] ∧ s.unsent = [] ∧ s.closed = false

theorem finv_init : FInv {} := ⟨rfl, rfl, by intro h; simp at h, by intro _; exact ⟨rfl, rfl, rfl, rfl⟩⟩

theorem pump_inv (s : FSt) (h : FInv s) : FInv (pump s) := by
  unfold pump
  split
  · exact h
  · rename_i hc
    have hnc : s.closed = false := by
      cases hcl : s.closed <;> simp_all
    have ht := h.total
    have htr := h.trace
    simp only [hnc, Bool.false_eq_true, ↓reduceIte, List.append_nil] at htr
    split
    · refine ⟨by simpa using ht, by simp [htr], by intro _; rfl, by intro hs; simp_all⟩
    · split
      · refine ⟨?_, by simp [htr, hnc], by intro hh; simp [hnc] at hh, by intro hs; simp_all⟩
        simp only [List.append_assoc, List.take_append_drop]; exact ht
      · refine ⟨by simpa using ht, by simp [htr], by intro _; rfl, by intro hs; simp_all⟩

theorem fstep_inv (s : FSt) (e : FEv) (h : FInv s) : FInv (fstep s e) := by
  cases e with
  | send ps =>
    simp only [fstep]
    split
    · exact h
    · rename_i hc
      have hns : s.started = false := by cases hst : s.started <;> simp_all
      obtain ⟨ha, hd, hu, hcl⟩ := h.idle hns
      apply pump_inv
      exact ⟨by simp [hd], by simp [h.trace, hd, hcl], by intro hh; simp [hcl] at hh, by intro hh; simp at hh⟩
  | limit k => exact ⟨h.total, h.trace, h.closedEmpty, h.idle⟩
  | resume => exact pump_inv _ ⟨h.total, h.trace, h.closedEmpty, h.idle⟩
  | pause => exact ⟨h.total, h.trace, h.closedEmpty, h.idle⟩
  | lost => exact ⟨h.total, h.trace, h.closedEmpty, h.idle⟩
  | tick dt =>
    simp only [fstep]
    split
    · exact h
    · split
      · exact ⟨h.total, h.trace, h.closedEmpty, h.idle⟩
      · split
        · exact ⟨h.total, h.trace, h.closedEmpty, h.idle⟩
        · rename_i hc
          have hns : s.started = false := by cases hst : s.started <;> simp_all
          obtain ⟨ha, hd, hu, hcl⟩ := h.idle hns
          apply pump_inv
          exact ⟨by simp [hd], by simp [h.trace, hd, hcl], by intro hh; simp [hcl] at hh, by intro hh; simp at hh⟩

theorem frun_inv (evs : List FEv) : FInv (frun evs) := by
  unfold frun
  have : ∀ s, FInv s → FInv (evs.foldl fstep s) := by
    induction evs with
    | nil => intro s h; simpa using h
    | cons e es ih => intro s h; exact ih _ (fstep_inv s e h)
  exact this _ finv_init

/-- C01/C06: whatever the transport does (pause during any write, resume at any time, disconnect), the writes
    are a prefix, in order, of the pieces of the response, and `close` follows only when ALL pieces were written -/
theorem writes_prefix (evs : List FEv) :
    ∃ k, (frun evs).out = ((frun evs).all.take k).map .write ++ (if (frun evs).closed then [.close] else []) ∧
      ((frun evs).closed = true → k = (frun evs).all.length) := by
  have h := frun_inv evs
  refine ⟨(frun evs).done.length, ?_, ?_⟩
  · rw [h.trace]
    congr 2
    rw [← h.total]; simp
  · intro hc
    have := h.closedEmpty hc
    rw [← h.total, this]; simp

/-- a complete response: once closed, the trace is every piece in order, then `close` -/
theorem closed_complete (evs : List FEv) (hc : (frun evs).closed = true) :
    (frun evs).out = (frun evs).all.map .write ++ [.close] := by
  have h := frun_inv evs
  rw [h.trace, hc]
  have := h.closedEmpty hc
  rw [← h.total, this]; simp

/-- nothing is written while the transport has writing paused, after the close, or after a disconnect:
    only `resume` (and the first `send`) ever extend the trace -/
theorem quiet_when_paused (s : FSt) (e : FEv) (hp : s.paused = true ∨ s.closed = true ∨ s.lost = true)
    (he : e ≠ .resume) : (fstep s e).out = s.out := by
  cases e with
  | send ps =>
    simp only [fstep]
    split
    · rfl
    · rename_i hc
      rcases hp with hp | hp | hp
      · simp [pump, hp]
      · simp [pump, hp]
      · simp_all
  | limit k => rfl
  | resume => exact absurd rfl he
  | pause => rfl
  | lost => rfl
  | tick dt =>
    simp only [fstep]
    split
    · rfl
    · split
      · rfl
      · split
        · rfl
        · rename_i hc
          rcases hp with hp | hp | hp
          · simp [pump, hp]
          · simp [pump, hp]
          · simp_all

theorem resume_quiet_when_dead (s : FSt) (h : s.closed = true ∨ s.lost = true) : (fstep s .resume).out = s.out := by
  rcases h with h | h <;> simp [fstep, pump, h]

/-- progress: a resume on a transport that does not pause again finishes a started response -/
theorem resume_finishes (s : FSt) (hs : s.started = true) (hl : s.lost = false) (hc : s.closed = false) (hb : s.budget = none) :
    (fstep s .resume).closed = true ∧ (fstep s .resume).unsent = [] := by
  simp [fstep, pump, hs, hl, hc, hb]

/-- a small response on a transport that never pauses is written and closed at once -/
theorem send_unpaused (ps : List Bytes) : (frun [.send ps]).out = ps.map .write ++ [.close] := by
  simp [frun, fstep, pump]

/-- the timer is cancelled for good once a response exists: no event re-arms it -/
theorem pump_timer (s : FSt) : (pump s).timer = s.timer ∧ (pump s).started = s.started := by
  unfold pump
  split
  · exact ⟨rfl, rfl⟩
  · split
    · exact ⟨rfl, rfl⟩
    · split <;> exact ⟨rfl, rfl⟩

def TInv (s : FSt) : Prop := s.started = true → s.timer = none

theorem fstep_tinv (s : FSt) (e : FEv) (h : TInv s) : TInv (fstep s e) := by
  unfold TInv at *
  cases e with
  | send ps =>
    simp only [fstep]
    split
    · exact h
    · intro _; rw [(pump_timer _).1]
  | limit k => exact h
  | resume => simp only [fstep]; rw [(pump_timer _).1, (pump_timer _).2]; exact h
  | pause => exact h
  | lost => intro _; rfl
  | tick dt =>
    simp only [fstep]
    split
    · exact h
    · rename_i r hr
      split
      · intro hs; rw [h hs] at hr; cases hr
      · split
        · intro _; rfl
        · intro _; rw [(pump_timer _).1]

theorem frun_tinv (evs : List FEv) : TInv (frun evs) := by
  unfold frun
  have : ∀ s, TInv s → TInv (evs.foldl fstep s) := by
    induction evs with
    | nil => intro s h; simpa using h
    | cons e es ih => intro s h; exact ih _ (fstep_tinv s e h)
  exact this _ (by intro h; cases h)

/-- C15 (the other direction): once the request is decided and a response is being written, the passing of time
    changes NOTHING, however long the transport keeps writing paused: the peer that sent a complete request is not
    cut off by the request timer while it takes its answer -/
theorem tick_after_send (evs : List FEv) (dt : Nat) (hs : (frun evs).started = true) :
    frun (evs ++ [.tick dt]) = frun evs := by
  have h := frun_tinv evs hs
  unfold frun at *
  rw [List.foldl_append]
  simp only [List.foldl_cons, List.foldl_nil, fstep, h]

/-- the timer fires at most once, and only when no response exists: a connection on which nothing was decided within
    `requestTimeout8` eighths of a second gets the timeout response through the same pump -/
theorem tick_fires (s : FSt) (dt r : Nat) (ht : s.timer = some r) (hd : r ≤ dt) (hs : s.started = false) (hl : s.lost = false) :
    fstep s (.tick dt) = pump { s with started := true, unsent := timeoutPieces, all := timeoutPieces, timer := none } := by
  simp [fstep, ht, hs, hl, Nat.not_lt.mpr hd]

example : (frun [.tick 240]).out = [.write (strOf "40 Request timeout\r\n"), .close] := by decide
example : (frun [.tick 239, .send [[1]], .tick 500]).out = [.write [1], .close] := by decide
example : (frun [.limit 0, .send [[1], [2]], .tick 100000]).out = [.write [1]] := by decide
example : (frun [.limit 0, .send [[1], [2], [3]], .lost]).out = [.write [1]] := by decide
example : (frun [.limit 0, .send [[1], [2], [3]], .resume]).out = [.write [1], .write [2], .write [3], .close] := by decide
example : (frun [.limit 1, .send [[1], [2], [3]], .limit 0, .resume, .resume]).out = [.write [1], .write [2], .write [3], .close] := by decide

theorem pump_frame (s : FSt) : (pump s).all = s.all ∧ (pump s).lost = s.lost ∧ (pump s).started = s.started := by
  unfold pump
  split
  · exact ⟨rfl, rfl, rfl⟩
  · split
    · exact ⟨rfl, rfl, rfl⟩
    · split <;> exact ⟨rfl, rfl, rfl⟩

/-- the pieces handed over by `_send_response` never change afterwards -/
theorem fstep_all_started (s : FSt) (e : FEv) (hs : s.started = true) : (fstep s e).all = s.all ∧ (fstep s e).started = true := by
  cases e with
  | send ps => simp [fstep, hs]
  | limit k => exact ⟨rfl, hs⟩
  | pause => exact ⟨rfl, hs⟩
  | lost => exact ⟨rfl, hs⟩
  | resume =>
    have h := pump_frame { s with paused := false }
    exact ⟨h.1, h.2.2.trans hs⟩
  | tick dt =>
    simp only [fstep]
    split
    · exact ⟨rfl, hs⟩
    · split
      · exact ⟨rfl, hs⟩
      · simp [hs]

theorem foldl_all_started (evs : List FEv) (s : FSt) (hs : s.started = true) : (evs.foldl fstep s).all = s.all := by
  induction evs generalizing s with
  | nil => rfl
  | cons e es ih =>
    have := fstep_all_started s e hs
    simp only [List.foldl_cons]
    rw [ih _ this.2, this.1]

/-- a response sent on a fresh connection: whatever the transport does afterwards, `all` is that response's pieces -/
theorem frun_send_all (ps : List Bytes) (evs : List FEv) : (frun (.send ps :: evs)).all = ps := by
  unfold frun
  simp only [List.foldl_cons]
  have h := pump_frame ({ started := true, unsent := ps, all := ps, timer := none } : FSt)
  have h1 : (fstep {} (.send ps)).started = true ∧ (fstep {} (.send ps)).all = ps := ⟨h.2.2, h.1⟩
  rw [foldl_all_started evs _ h1.1, h1.2]
end Srv.Flow
