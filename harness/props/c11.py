"""C11  TOFU: nothing is sent to a peer before its certificate is verified

Correspondence: the real `GeminiClient.get / upload / delete` (and a redirect hop) against scripted
loopback TLS peers that record every application byte they receive, in pinned / unpinned / changed /
unreadable situations, with peers that read eagerly, lazily or not at all; compared with the effect
trace of `Misc.connect` (driver `tofu` line: was anything written to the peer on each connection).
"""
from __future__ import annotations

import asyncio
import hashlib
import random
import shutil
import tempfile
from pathlib import Path

from ..core import Family
from .c03 import CERT_FP, CERTS, HOSTS, SHM, Runner, expected_steps

ID = "C11"
READY = True
LEAN_TARGETS = ["NauyacaVerif.Props.C11"]
THEOREMS = [f"NauyacaVerif.C11.{t}" for t in (
    "send_after_verify", "send_position", "verify_fail_sends_nothing", "accepted_request_intact", "history_guarded",
    "history_send_position", "history_fail_silent", "chain_trace", "redirect_guarded")]
EXTRACT: list[str] = []
ASSUMPTIONS = [
    "parameters of the model (not verified): the TLS handshake (everything before create_connection returns is asyncio's and OpenSSL's; the ClientHello carries the host name as SNI, which is part of the handshake and outside this property), X.509 parsing, SHA-256, SQLite",
    "the request is modelled as the list of transport.write calls of send_request (one for Gemini, request line + content for Titan); the peers observe the decrypted application byte stream",
    "a peer that never reads is observed by draining its socket after the client has gone: what the client wrote before closing is what sits in the kernel buffers",
]
LEVEL_TEXT = ("Lean 4 theorems over a hand-written model of the ordered effect trace of GeminiClient._get_single / upload (connect, verify, trust, "
              "send, await, close), for every store, key, presented certificate and payload, lifted to arbitrary histories and redirect chains; the model "
              "is tied to /repo by differential runs of the real client against scripted loopback TLS peers that log the application bytes they receive")
LEVEL_NOTE = ("proved for the model, not for the Python source; the TLS handshake, X.509 parsing and SHA-256 are parameters; 'before' is observed "
              "at the peer (bytes received when verification fails must be empty), not by instrumenting the client")
TECHNIQUE = "interactive theorem proving (Lean 4) + model-based differential testing against live loopback TLS peers recording application bytes"

# "changed-after-ok": the SAME GeminiClient object first talks to the host successfully (certificate X, pinned on first use),
# then the host presents another certificate on the next connection
SITUATIONS = ["unpinned", "pinned", "changed", "changed-after-ok", "hostile", "patched-raise", "patched-none"]
OPS = ["get", "getq", "upload", "delete", "chain"]
MODES = ["eager", "lazy", "never"]


def content_of(case) -> bytes:
    n = case["size"]
    if n == 0:
        return b""
    seed = hashlib.sha256(f"c11:{n}:{case.get('cseed', 0)}".encode()).digest()
    return (seed * (n // len(seed) + 1))[:n]


def should_fail(case) -> bool:
    return case["tofu"] and case["situation"] not in ("unpinned", "pinned")


class Scenarios(Family):
    name = "scenarios"
    quick_n = 640
    thorough_n = 4000
    parallel = True      # every process binds its own ports (port 0) in setup()

    def setup(self):
        self.R = Runner()

    def gen(self, rng: random.Random, n: int):
        thorough = n > self.quick_n
        sizes = [0, 1, 7, 1000, 16384, 70000] + ([262144, 1048576] if thorough else [])
        count = 0
        # systematic part: situation x operation x reading mode, a different random half of the grid in every shard
        grid = [(sit, op, mode) for sit in SITUATIONS for op in OPS for mode in MODES]
        rng.shuffle(grid)
        for sit, op, mode in grid[: max(1, n // 2)]:
            count += 1
            yield {"tofu": True, "situation": sit, "op": op, "mode": mode, "cert": rng.choice([0, 1, 2, 4, 5]), "size": rng.choice(sizes[1:5]) if op == "upload" else 0,
                   "token": "s3cr3t-token", "host": rng.randrange(3), "cseed": rng.randrange(1000)}
        while count < n:
            count += 1
            op = rng.choice(OPS)
            sz = rng.choice(sizes) if op == "upload" else 0
            if op == "upload" and rng.random() < 0.3:
                sz = rng.randint(0, 100000)
            yield {"tofu": rng.random() < 0.93, "situation": rng.choice(SITUATIONS), "op": op, "mode": rng.choice(MODES), "cert": rng.choice([0, 1, 2, 4, 5]),
                   "size": sz, "token": rng.choice([None, "tok", "s3cr3t-" + "x" * rng.randrange(0, 40)]), "host": rng.randrange(3), "cseed": rng.randrange(1000)}

    # what the peer should receive if (and only if) verification passes -- straight from the protocol definitions
    def request_bytes(self, case, url: str, kind: str) -> bytes:
        if kind == "get":
            return url.encode() + b"\r\n"
        content = content_of(case) if kind == "upload" else b""
        line = "titan://" + url[len("gemini://"):] + f";size={len(content)};mime=text/gemini"
        if case["token"]:
            line += f";token={case['token']}"
        return line.encode() + b"\r\n" + content

    @staticmethod
    def prepinned_other(case) -> bool:
        sit = case["situation"]
        if sit in ("changed", "changed-after-ok"):
            return True
        # unreadable certificate: against a pinned host and (the historical defect) against an unpinned one
        return sit in ("hostile", "patched-raise", "patched-none") and case.get("cseed", 0) % 2 == 0

    def hops_of(self, case):
        sit = case["situation"]
        cert = 3 if sit == "hostile" else case["cert"]
        patch = {"patched-raise": "raise", "patched-none": "none"}.get(sit, "")
        target = [case["host"], 1, cert, patch]
        if case["op"] == "chain":
            # A (other port, own certificate, unpinned -> first use) redirects to the target
            return [[(case["host"] + 1) % 3, 0, (case["cert"] + 1) % 3, ""], [target[0], target[1], target[2], ""]], patch
        return [target], patch

    def impl(self, case):
        from nauyaca.client.session import GeminiClient
        from nauyaca.security.tofu import TOFUDatabase

        R = self.R
        tmp = tempfile.mkdtemp(prefix="nv-", dir=SHM)
        db = Path(tmp) / "tofu.db"
        hops, patch = self.hops_of(case)
        target = hops[-1]
        kind = {"get": "get", "getq": "get", "chain": "get", "upload": "upload", "delete": "delete"}[case["op"]]
        query = "?q=secret%20query&token=T" if case["op"] == "getq" else ""
        mode = case["mode"]

        def steps_for(i, reply):
            tail = [["close"]] if reply[:1] == b"2" else [["read_eof", 2.0], ["close"]]
            if mode == "never" and i == len(hops) - 1:
                return [["sleep", 0.4], ["drain"], ["close"]]
            pre = [["sleep", 0.08]] if mode == "lazy" else []
            return pre + [["read_request", 3.0], ["send", reply]] + tail

        async def run():
            asyncio.get_running_loop().set_exception_handler(lambda loop, ctx: None)
            tdb = TOFUDatabase(db)
            sit = case["situation"]
            if sit == "pinned":
                tdb.trust(HOSTS[target[0]], R.ports[target[1]], R.w["certs"].x509(CERTS[case["cert"]]))
            elif sit == "changed-after-ok":
                pass        # pinned below, by a real first connection of the same client object
            elif self.prepinned_other(case):
                # changed (and half of the unreadable) situations: the host is pinned to ANOTHER certificate
                tdb.trust(HOSTS[target[0]], R.ports[target[1]], R.w["certs"].x509(CERTS[(case["cert"] + 1) % 3]))
            client = GeminiClient(timeout=5.0, trust_on_first_use=case["tofu"], tofu_db_path=db if case["tofu"] else None)
            if sit == "changed-after-ok":
                other = (case["cert"] + 1) % 3
                first, _ = await R.call(client, "get", [[target[0], target[1], other, ""]])
                R.take_logs()
                if case["tofu"]:
                    assert first[0] == "ok", first
                else:
                    tdb.trust(HOSTS[target[0]], R.ports[target[1]], R.w["certs"].x509(CERTS[other]))
            if case["op"] == "chain" and patch:
                # the loader failure must hit the redirect target only: patch when the second connection is made
                return await self.chain_with_patch(client, hops, patch, steps_for)
            one = [list(h) for h in hops]
            if len(one) == 1:
                one[0][3] = patch
            return await R.call(client, kind, one, content=content_of(case), token=case["token"], query=query, steps_for=steps_for)

        try:
            res, url = R.run(run())
            logs = R.take_logs()
        finally:
            shutil.rmtree(tmp, ignore_errors=True)
        peers = []
        for j, e in enumerate(logs):
            if j < len(hops) - 1:
                want = (R.url(hops[j][0], hops[j][1], f"/hop{j}") + "\r\n").encode()
            else:
                u = R.url(target[0], target[1], f"/hop{len(hops) - 1}" + (query if len(hops) == 1 else ""))
                want = self.request_bytes(case, u, kind)
            rx = e["rx"]
            peers.append({"len": len(rx), "equal": rx == want, "prefix": want.startswith(rx), "want_len": len(want),
                          "head": rx[:96].decode("latin-1"), "hs": e["hs"], "cert": e["cert"]})
        return {"result": res, "peers": peers}

    async def chain_with_patch(self, client, hops, patch, steps_for):
        """redirect chain whose LAST hop's certificate cannot be loaded: switch the loader patch on when the
        first hop has been answered (the patch is process-wide)"""
        R = self.R
        T = R.T
        import nauyaca.client.session as S

        orig = S.GeminiClient._get_single
        calls = {"n": 0}
        stack = []

        async def wrapped(self_, url):
            calls["n"] += 1
            if calls["n"] == len(hops):
                cm = T.broken_cert_loader(patch)
                cm.__enter__()
                stack.append(cm)
            return await orig(self_, url)

        S.GeminiClient._get_single = wrapped
        try:
            return await R.call(client, "get", [list(h[:3]) + [""] for h in hops], steps_for=steps_for)
        finally:
            S.GeminiClient._get_single = orig
            for cm in stack:
                cm.__exit__(None, None, None)

    # -- the model -------------------------------------------------------------------
    def model(self, case):
        hops, patch = self.hops_of(case)
        t = hops[-1]
        sit = case["situation"]
        store = "-"
        if sit == "pinned":
            store = f"{t[0]}.{t[1]}={CERT_FP[case['cert']]}"
        elif self.prepinned_other(case):
            store = f"{t[0]}.{t[1]}={(case['cert'] + 1) % 3}"
        pres = "x" if (t[2] == 3 or patch) else str(CERT_FP[t[2]])
        hop_s = f"{t[0]}.{t[1]}.{pres}"
        if case["op"] == "chain":
            a = hops[0]
            op = f"r:{a[0]}.{a[1]}.{a[2]}/{hop_s}"
        elif case["op"] in ("upload", "delete"):
            op = f"u:{hop_s}"
        else:
            op = f"g:{hop_s}"
        return f"tofu {'on' if case['tofu'] else 'off'} {store} {op}"

    def expect(self, case, out):
        # reuse C03's parser on a one-step history
        hops, _ = self.hops_of(case)
        fake_op = ["chain", hops] if case["op"] == "chain" else ["get"] + hops[0]
        st = expected_steps({"ops": [fake_op]}, out)[0]
        kind = st["result"][0]
        return {"verified": kind == "ok", "kind": kind if kind != "ok" else "accepted", "sent": st["conns"]}

    def project(self, obs):
        r = obs["result"]
        kind = r[0] if r[0] in ("changed", "refused") else "accepted"
        return {"verified": kind == "accepted", "kind": kind, "sent": [p["len"] > 0 for p in obs["peers"]]}

    def same(self, expected, obs):
        return expected == self.project(obs)

    # -- the property statement, directly ------------------------------------------------
    def oracle(self, case, obs):
        peers, res = obs["peers"], obs["result"]
        if not peers:
            return None
        last = peers[-1]
        n_hops = 2 if case["op"] == "chain" else 1
        if should_fail(case):
            if len(peers) == n_hops and last["len"] > 0:
                return ("bytes-before-verification",
                        f"{case['situation']} certificate, {case['op']} ({case['mode']} peer): verification cannot pass, yet the peer received {last['len']} application bytes beginning {last['head'][:70]!r}")
            if res[0] == "ok":
                return ("unverified-peer-answered", f"{case['situation']} certificate: the call returned a response {res}")
        else:
            # verification passes: whatever arrives must be the request, intact (a peer that never reads may see a prefix)
            for j, p in enumerate(peers):
                if case["mode"] == "never" and j == len(peers) - 1:
                    if not p["prefix"]:
                        return ("request-garbled", f"hop {j}: the bytes received are not a prefix of the request: {p['head'][:70]!r}")
                elif not p["equal"] and res[0] == "ok":
                    return ("request-garbled", f"hop {j}: the call succeeded but the peer received {p['len']} bytes instead of the {p['want_len']}-byte request: {p['head'][:70]!r}")
        # a redirect hop: the first peer must only ever see its own request line
        if n_hops == 2 and peers and not peers[0]["equal"] and peers[0]["len"] > 0 and not peers[0]["prefix"]:
            return ("request-garbled", f"hop 0 received something that is not its request: {peers[0]['head'][:70]!r}")
        return None

    def key(self, case, obs):
        return f"{'on' if case['tofu'] else 'off'} {case['situation']} {case['op']} {case['mode']} -> {obs['result'][0]} rx={[min(p['len'], 1) for p in obs['peers']]}"


FAMILIES = [Scenarios()]
