import NauyacaVerif.Srv.Conn
import NauyacaVerif.Srv.RenderProof
namespace Srv

/-- what may be written for one response -/
def WFWrites : List Out → Prop
  | [.exact h] => WFHeader h
  | [.exact h, .exact b] => WFHeader h ∧ b ≠ [] ∧ 20 ≤ statusOf h ∧ statusOf h ≤ 29
  | [.statusOnly n] => 10 ≤ n ∧ n ≤ 69
  | _ => False

def waiting (p : Phase) : Prop := p = .awaitLine ∨ p = .awaitTitan

structure Inv (cfg : Cfg) (s : St) : Prop where
  shape : (s.sent = false ∧ s.out = []) ∨ (s.sent = true ∧ ∃ ws, s.out = ws ++ [.close] ∧ WFWrites ws)
  sentDone : s.sent = true → s.phase = .done
  timerIff : s.timer = true ↔ (waiting s.phase ∧ s.lost = false ∧ s.sent = false)
  once : s.hcalls + s.ucalls ≤ 1
  calledPhase : s.hcalls + s.ucalls = 1 → s.phase = .hPend ∨ s.phase = .uPend ∨ s.phase = .done
  gated : cfg.mw = true → s.hcalls + s.ucalls ≤ s.allowed
  mwOnce : s.mwcalls ≤ 1 ∧ s.allowed ≤ s.mwcalls
  mwPhase : (s.phase = .mwG ∨ s.phase = .mwT) → s.mwcalls = 1 ∧ s.allowed = 0 ∧ s.hcalls + s.ucalls = 0
  waitingNone : waiting s.phase → s.hcalls + s.ucalls = 0 ∧ s.mwcalls = 0

theorem inv_init (cfg : Cfg) : Inv cfg {} := by
  constructor <;> simp [waiting]

/-- sending a well-formed response preserves everything, provided the call counters are already consistent -/
theorem respondWith_inv {cfg : Cfg} {s : St} {ws : List Out} (hw : WFWrites ws)
    (shape : (s.sent = false ∧ s.out = []) ∨ (s.sent = true ∧ ∃ ws, s.out = ws ++ [.close] ∧ WFWrites ws))
    (sentDone : s.sent = true → s.phase = .done)
    (tlost : s.lost = true → s.timer = false)
    (tsent : s.sent = true → s.timer = false)
    (once : s.hcalls + s.ucalls ≤ 1)
    (gated : cfg.mw = true → s.hcalls + s.ucalls ≤ s.allowed)
    (mwOnce : s.mwcalls ≤ 1 ∧ s.allowed ≤ s.mwcalls) :
    Inv cfg (respondWith s ws) := by
  unfold respondWith
  by_cases hl : s.lost = true
  · simp only [hl, true_or, ↓reduceIte]
    have ht := tlost hl
    constructor <;> simp_all [waiting]
  · by_cases hs : s.sent = true
    · simp only [hs, or_true, ↓reduceIte]
      have hp := sentDone hs
      rcases shape with ⟨h1, _⟩ | ⟨_, h2⟩
      · simp_all
      · have := tsent hs
        constructor <;> simp_all [waiting]
    · simp only [hl, hs, or_self, ↓reduceIte]
      rcases shape with ⟨_, h2⟩ | ⟨h1, _⟩
      · constructor <;> simp_all [waiting]
      · simp_all
end Srv

namespace Srv

theorem writes_wf (r : Resp) :
    WFWrites (if (render r).2.isEmpty then [.exact (render r).1] else [.exact (render r).1, .exact (render r).2]) := by
  have h := render_wf r
  split
  · exact h.1
  · rename_i hb
    have hne : (render r).2 ≠ [] := by simpa using hb
    exact ⟨h.1, hne, h.2 hne⟩

/-- the bundle of facts every "about to respond" state satisfies -/
structure Pre (cfg : Cfg) (s : St) : Prop where
  shape : (s.sent = false ∧ s.out = []) ∨ (s.sent = true ∧ ∃ ws, s.out = ws ++ [.close] ∧ WFWrites ws)
  sentDone : s.sent = true → s.phase = .done
  tlost : s.lost = true → s.timer = false
  tsent : s.sent = true → s.timer = false
  once : s.hcalls + s.ucalls ≤ 1
  gated : cfg.mw = true → s.hcalls + s.ucalls ≤ s.allowed
  mwOnce : s.mwcalls ≤ 1 ∧ s.allowed ≤ s.mwcalls

theorem Inv.pre {cfg : Cfg} {s : St} (h : Inv cfg s) : Pre cfg s where
  shape := h.shape
  sentDone := h.sentDone
  tlost := by
    intro hl
    cases ht : s.timer with
    | false => rfl
    | true => have := h.timerIff.mp ht; simp_all
  tsent := by
    intro hl
    cases ht : s.timer with
    | false => rfl
    | true => have := h.timerIff.mp ht; simp_all
  once := h.once
  gated := h.gated
  mwOnce := h.mwOnce

theorem respond_inv {cfg : Cfg} {s : St} (p : Pre cfg s) (r : Resp) : Inv cfg (respond s r) := by
  unfold respond
  exact respondWith_inv (writes_wf r) p.shape p.sentDone p.tlost p.tsent p.once p.gated p.mwOnce

theorem respondFixed_inv {cfg : Cfg} {s : St} (p : Pre cfg s) (st : Int) (m : String) :
    Inv cfg (respondFixed s st m) := respond_inv p _

theorem respondDyn_inv {cfg : Cfg} {s : St} (p : Pre cfg s) (n : Nat) (h : 10 ≤ n ∧ n ≤ 69) :
    Inv cfg (respondDyn s n) := by
  unfold respondDyn
  exact respondWith_inv (by simpa [WFWrites] using h) p.shape p.sentDone p.tlost p.tsent p.once p.gated p.mwOnce

end Srv

namespace Srv

/-- `route`: called with no handler call so far, an `allow` in hand when middleware exists, not sent -/
theorem route_inv {cfg : Cfg} {s : St} (p : Pre cfg s) (h0 : s.hcalls + s.ucalls = 0)
    (ha : cfg.mw = true → 1 ≤ s.allowed) (hs : s.sent = false) (ht : s.timer = false) :
    Inv cfg (route cfg s) := by
  unfold route
  have p' : Pre cfg { s with hcalls := s.hcalls + 1 } :=
    { shape := p.shape, sentDone := p.sentDone, tlost := p.tlost, tsent := p.tsent,
      once := by simp; omega, gated := by intro h; have := ha h; simp; omega, mwOnce := p.mwOnce }
  cases hh : cfg.handler with
  | sync r => exact respond_inv p' r
  | syncRaise => exact respondDyn_inv p' 40 (by omega)
  | async =>
    simp only
    have hsh := p.shape
    have hm := p.mwOnce
    constructor <;> simp_all [waiting] <;> omega

theorem startUpload_inv {cfg : Cfg} {s : St} (p : Pre cfg s) (h0 : s.hcalls + s.ucalls = 0)
    (ha : cfg.mw = true → 1 ≤ s.allowed) (hs : s.sent = false) (ht : s.timer = false) :
    Inv cfg (startUpload s) := by
  unfold startUpload
  have hsh := p.shape
  have hm := p.mwOnce
  constructor <;> simp_all [waiting] <;> omega

end Srv

namespace Srv

theorem dispatchG_inv {cfg : Cfg} {s : St} (p : Pre cfg s) (h0 : s.hcalls + s.ucalls = 0)
    (hm0 : s.mwcalls = 0) (hs : s.sent = false) (ht : s.timer = false) : Inv cfg (dispatchG cfg s) := by
  unfold dispatchG
  by_cases hm : cfg.mw = true
  · simp only [hm, ↓reduceIte]
    have hsh := p.shape
    have hmo := p.mwOnce
    constructor <;> simp_all [waiting] <;> omega
  · simp only [hm]
    exact route_inv p h0 (by simp [hm]) hs ht

theorem dispatchT_inv {cfg : Cfg} {s : St} (p : Pre cfg s) (h0 : s.hcalls + s.ucalls = 0)
    (hm0 : s.mwcalls = 0) (hs : s.sent = false) : Inv cfg (dispatchT cfg s) := by
  unfold dispatchT
  have hsh := p.shape
  have hmo := p.mwOnce
  by_cases hm : cfg.mw = true
  · simp only [hm, ↓reduceIte]
    constructor <;> simp_all [waiting] <;> omega
  · simp only [hm]
    refine startUpload_inv ?_ (by simpa using h0) (by simp [hm]) hs rfl
    exact { shape := p.shape, sentDone := p.sentDone, tlost := by simp, tsent := by simp,
            once := p.once, gated := p.gated, mwOnce := p.mwOnce }

theorem Pre.setBuf {cfg : Cfg} {s : St} (p : Pre cfg s) (b : Bytes) : Pre cfg { s with buf := b } :=
  { shape := p.shape, sentDone := p.sentDone, tlost := p.tlost, tsent := p.tsent, once := p.once,
    gated := p.gated, mwOnce := p.mwOnce }

theorem Inv.setBuf {cfg : Cfg} {s : St} (h : Inv cfg s) (b : Bytes) : Inv cfg { s with buf := b } :=
  { shape := h.shape, sentDone := h.sentDone, timerIff := h.timerIff, once := h.once,
    calledPhase := h.calledPhase, gated := h.gated, mwOnce := h.mwOnce, mwPhase := h.mwPhase,
    waitingNone := h.waitingNone }

theorem Pre.setReq {cfg : Cfg} {s : St} (p : Pre cfg s) (r : Option Bytes) : Pre cfg { s with req := r } :=
  { shape := p.shape, sentDone := p.sentDone, tlost := p.tlost, tsent := p.tsent, once := p.once,
    gated := p.gated, mwOnce := p.mwOnce }

theorem Pre.setNow {cfg : Cfg} {s : St} (p : Pre cfg s) (n : Nat) : Pre cfg { s with now := n } :=
  { shape := p.shape, sentDone := p.sentDone, tlost := p.tlost, tsent := p.tsent, once := p.once,
    gated := p.gated, mwOnce := p.mwOnce }

theorem Inv.setReq {cfg : Cfg} {s : St} (h : Inv cfg s) (r : Option Bytes) : Inv cfg { s with req := r } :=
  { shape := h.shape, sentDone := h.sentDone, timerIff := h.timerIff, once := h.once,
    calledPhase := h.calledPhase, gated := h.gated, mwOnce := h.mwOnce, mwPhase := h.mwPhase,
    waitingNone := h.waitingNone }

theorem Inv.setNow {cfg : Cfg} {s : St} (h : Inv cfg s) (n : Nat) : Inv cfg { s with now := n } :=
  { shape := h.shape, sentDone := h.sentDone, timerIff := h.timerIff, once := h.once,
    calledPhase := h.calledPhase, gated := h.gated, mwOnce := h.mwOnce, mwPhase := h.mwPhase,
    waitingNone := h.waitingNone }

theorem Inv.notSent {cfg : Cfg} {s : St} (h : Inv cfg s) (hp : s.phase ≠ .done) : s.sent = false := by
  cases hs : s.sent with
  | false => rfl
  | true => exact absurd (h.sentDone hs) hp

theorem onLine_inv {cfg : Cfg} {s : St} (h : Inv cfg s) (hph : s.phase = .awaitLine)
    (line rest : Bytes) : Inv cfg (onLine cfg s line rest) := by
  have hw : waiting s.phase := Or.inl hph
  have hn := h.waitingNone hw
  have hs : s.sent = false := h.notSent (by simp [hph])
  have p := ((h.pre).setBuf rest).setReq (some line)
  unfold onLine
  simp only
  split
  · exact respondFixed_inv p _ _
  · split
    · split
      · exact respondFixed_inv p _ _
      · split
        · exact respondDyn_inv p 59 (by omega)
        · rename_i n _
          split
          · refine dispatchT_inv ?_ (by simpa using hn.1) (by simpa using hn.2) (by simpa using hs)
            exact { shape := p.shape, sentDone := p.sentDone, tlost := p.tlost, tsent := p.tsent,
                    once := p.once, gated := p.gated, mwOnce := p.mwOnce }
          · -- keep waiting for the Titan content
            have hsh := h.shape
            have hti := h.timerIff
            have hmo := h.mwOnce
            constructor <;> simp_all [waiting]
    · have p2 : Pre cfg { s with buf := rest, req := some line, timer := false } :=
        { shape := p.shape, sentDone := p.sentDone, tlost := by simp, tsent := by simp, once := p.once,
          gated := p.gated, mwOnce := p.mwOnce }
      split
      · exact dispatchG_inv p2 (by simpa using hn.1) (by simpa using hn.2) (by simpa using hs) rfl
      · exact respondDyn_inv p2 59 (by omega)

/-- C01 / C04 / C07 / C15 backbone: every event preserves the invariant -/
theorem step_inv (cfg : Cfg) (s : St) (ev : Ev) (h : Inv cfg s) : Inv cfg (step cfg s ev) := by
  cases ev with
  | data c =>
    simp only [step]
    split
    · exact h
    · split
      · rename_i hph
        split
        · exact h
        · unfold lineStep
          split
          · split
            · exact respondFixed_inv ((h.pre).setBuf _) _ _
            · exact h.setBuf _
          · split
            · exact respondFixed_inv ((h.pre).setBuf _) _ _
            · exact onLine_inv (h.setBuf _) (by simpa using hph) _ _
      · rename_i hph
        have hw : waiting s.phase := Or.inr hph
        have hn := h.waitingNone hw
        have hs : s.sent = false := h.notSent (by simp [hph])
        unfold titanStep
        split
        · exact dispatchT_inv ((h.pre).setBuf _) (by simpa using hn.1) (by simpa using hn.2) (by simpa using hs)
        · exact h.setBuf _
      · exact h
  | timeout =>
    simp only [step]
    split
    · exact respondFixed_inv h.pre _ _
    · exact h
  | tick dt =>
    simp only [step]
    split
    · exact respondFixed_inv (h.pre.setNow _) _ _
    · exact h.setNow _
  | lost =>
    simp only [step]
    have hsh := h.shape
    have hmo := h.mwOnce
    have hcp := h.calledPhase
    have hmp := h.mwPhase
    have hwn := h.waitingNone
    have hg := h.gated
    have ho := h.once
    have hsd := h.sentDone
    constructor <;> simp_all [waiting]
  | mwAllow =>
    simp only [step]
    split
    · rename_i hph
      have hm := h.mwPhase (Or.inl hph)
      have hs : s.sent = false := h.notSent (by simp [hph])
      have ht : s.timer = false := by
        cases htt : s.timer with
        | false => rfl
        | true => have := (h.timerIff.mp htt).1; simp [waiting, hph] at this
      refine route_inv ?_ (by simpa using hm.2.2) (by intro _; simp) (by simpa using hs) (by simpa using ht)
      have p := h.pre
      exact { shape := p.shape, sentDone := p.sentDone, tlost := p.tlost, tsent := p.tsent, once := p.once,
              gated := by intro _; simp; omega, mwOnce := by simp; omega }
    · rename_i hph
      have hm := h.mwPhase (Or.inr hph)
      have hs : s.sent = false := h.notSent (by simp [hph])
      have ht : s.timer = false := by
        cases htt : s.timer with
        | false => rfl
        | true => have := (h.timerIff.mp htt).1; simp [waiting, hph] at this
      refine startUpload_inv ?_ (by simpa using hm.2.2) (by intro _; simp) (by simpa using hs) (by simpa using ht)
      have p := h.pre
      exact { shape := p.shape, sentDone := p.sentDone, tlost := p.tlost, tsent := p.tsent, once := p.once,
              gated := by intro _; simp; omega, mwOnce := by simp; omega }
    · exact h
  | mwDeny l =>
    simp only [step]
    split
    · exact respond_inv h.pre _
    · exact respond_inv h.pre _
    · exact h
  | mwRaise =>
    simp only [step]
    split
    · exact respondFixed_inv h.pre _ _
    · exact respondFixed_inv h.pre _ _
    · exact h
  | hDone r => simp only [step]; split; exact respond_inv h.pre _; exact h
  | hRaise => simp only [step]; split; exact respondDyn_inv h.pre 40 (by omega); exact h
  | uDone r => simp only [step]; split; exact respond_inv h.pre _; exact h
  | uRaise => simp only [step]; split; exact respondDyn_inv h.pre 40 (by omega); exact h

theorem run_inv (cfg : Cfg) (evs : List Ev) : Inv cfg (run cfg evs) := by
  unfold run
  have : ∀ s, Inv cfg s → Inv cfg (evs.foldl (step cfg) s) := by
    induction evs with
    | nil => intro s h; simpa using h
    | cons e es ih => intro s h; exact ih _ (step_inv cfg s e h)
  exact this _ (inv_init cfg)

end Srv
