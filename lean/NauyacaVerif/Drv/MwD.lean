import NauyacaVerif.Drv.Common
import NauyacaVerif.Mw.Bucket
import NauyacaVerif.Mw.Acl
namespace NauyacaVerif.Drv.MwD
open NauyacaVerif.Drv Mw

/-! Line protocol of the middleware area (C09, C10).

```
acl    <allow> <deny> <default:0|1> <addr>…            → ok raise | ok <a|d per addr> <deny line cps>
aclcfg <enabled:0|1> <allow> <deny> <default> <addr>…  → ok nostart | ok nochain <a…> | ok chain <a|d…> <deny line cps>
bucket <cap:rat> <rate:rat> <age:rat> <retry:int> <ev>… → ok <0|1 per request> <refusal line cps>
  list  ::= - (absent) | [] | [entry,entry,…]
  entry ::= att | att|att|att          (ip_network(e), ip_network(e/32), ip_network(e/128))
  att   ::= x | 4/<base>/<plen> | 6/<base>/<plen>
  addr  ::= u (text did not parse) | 4/<n> | 6/<n>
  ev    ::= <ip:nat>@<rat> | c@<rat>
```
Text parsing stays in Python (`ipaddress`); the model receives numbers. -/

def parseFam : String → Option Fam
  | "4" => some .v4
  | "6" => some .v6
  | _ => none

def isNat (s : String) : Bool := !s.isEmpty && s.all Char.isDigit

/-- outer `none` = malformed; inner `none` = `x` (that attempt raised) -/
def parseAtt (s : String) : Option (Option Net) :=
  if s == "x" then some none
  else match s.splitOn "/" with
    | [f, b, l] =>
      match parseFam f with
      | none => none
      | some fam => if isNat b && isNat l then some (some ⟨fam, b.toNat!, l.toNat!⟩) else none
    | _ => none

def parseEntry (s : String) : Option Entry :=
  match (s.splitOn "|").map parseAtt with
  | [some a] => some ⟨a, none, none⟩
  | [some a, some b, some c] => some ⟨a, b, c⟩
  | _ => none

def allSome {α : Type} : List (Option α) → Option (List α)
  | [] => some []
  | none :: _ => none
  | some x :: r => match allSome r with | none => none | some xs => some (x :: xs)

/-- outer `none` = malformed; inner `none` = list absent -/
def parseList (s : String) : Option (Option (List Entry)) :=
  if s == "-" then some none
  else if s == "[]" then some (some [])
  else if s.startsWith "[" && s.endsWith "]" then
    match allSome (((String.ofList ((s.toList.drop 1).dropLast)).splitOn ",").map parseEntry) with
    | none => none
    | some es => some (some es)
  else none

def parseAddr (s : String) : Option (Option Addr) :=
  if s == "u" then some none
  else match s.splitOn "/" with
    | [f, n] =>
      match parseFam f with
      | none => none
      | some fam => if isNat n then some (some ⟨fam, n.toNat!⟩) else none
    | _ => none

def parseBool : String → Option Bool
  | "0" => some false
  | "1" => some true
  | _ => none

def decisions (acl : Option Acl) (addrs : List (Option Addr)) : String :=
  String.ofList (addrs.map (fun a => match runningProcess acl a with | none => 'a' | some _ => 'd'))

def isInt (s : String) : Bool := if s.startsWith "-" then isNat (String.ofList (s.toList.drop 1)) else isNat s

def isRat (s : String) : Bool :=
  match s.splitOn "/" with
  | [a] => isInt a
  | [a, b] => isInt a && isNat b && b.toNat! != 0
  | _ => false

def parseEv (e : String) : Option LEv :=
  match e.splitOn "@" with
  | ["c", t] => if isRat t then some (LEv.cleanup (parseRat t)) else none
  | [ip, t] => if isNat ip && isRat t then some (LEv.req ip.toNat! (parseRat t)) else none
  | _ => none

def handle : List String → Option String
  | "acl" :: allow :: deny :: dflt :: addrs =>
    match parseList allow, parseList deny, parseBool dflt, allSome (addrs.map parseAddr) with
    | some al, some dn, some d, some as =>
      match mkAcl al dn d with
      | none => some "ok raise"
      | some acl => some ("ok " ++ decisions (some acl) as ++ " " ++ showCpsNat denyLine)
    | _, _, _, _ => some "bad-op"
  | "aclcfg" :: en :: allow :: deny :: dflt :: addrs =>
    match parseBool en, parseList allow, parseList deny, parseBool dflt, allSome (addrs.map parseAddr) with
    | some e, some al, some dn, some d, some as =>
      match start ⟨e, al, dn, d⟩ with
      | .failed => some "ok nostart"
      | .running none => some ("ok nochain " ++ decisions none as)
      | .running (some acl) => some ("ok chain " ++ decisions (some acl) as ++ " " ++ showCpsNat denyLine)
    | _, _, _, _, _ => some "bad-op"
  | "bucket" :: cap :: rate :: age :: retry :: evs =>
    match (if isRat cap && isRat rate && isRat age && isInt retry then allSome (evs.map parseEv) else none) with
    | none => some "bad-op"
    | some es =>
      let c : LCfg := { cap := parseRat cap, rate := parseRat rate, age := parseRat age }
      some ("ok " ++ String.ofList ((runL c [] es).map (fun b => if b then '1' else '0')) ++ " "
        ++ showCpsNat (rateLimitLine (parseInt retry)))
  | _ => none
end NauyacaVerif.Drv.MwD
