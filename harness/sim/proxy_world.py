"""A whole reverse-proxy deployment in one process, on a virtual clock (C17 `seq`, C18 `wired`).

    downstream clients -> real GeminiServerProtocol -> real Router from ServerConfig (TOML) ->
    real ProxyHandler(s) with their real GeminiClient(s) -> scripted network (this file)

Only the network is simulated: `loop.create_connection` is replaced by `Net`, whose connections behave like
asyncio transports (close() is followed by connection_lost(None) on the next loop iteration, nothing is
delivered to a closed connection, a failing data_received() is a fatal error, EOF goes through eof_received()).
Time is the loop's clock: `VLoop` jumps to the next timer whenever nothing is ready, so a 45 s location
timeout costs nothing and every timer (asyncio.wait_for of the client, the server's request timer, the
upstream's script) fires in its true order.

Nothing here imports nauyaca at module import time (`core.setup_import_path()` decides which tree is loaded).
"""
from __future__ import annotations

import asyncio
import os
import re
import tempfile
from typing import Any


class VLoop(asyncio.SelectorEventLoop):
    """Event loop whose clock is virtual: when no callback is ready it jumps to the next timer."""

    def __init__(self):
        super().__init__()
        self.vt = 0.0
        self.set_exception_handler(lambda l, c: None)

    def time(self):
        return self.vt

    def _run_once(self):
        if not self._ready and self._scheduled:
            whens = [h.when() for h in self._scheduled if not h.cancelled()]
            if whens and min(whens) > self.vt:
                self.vt = min(whens)
        super()._run_once()


# ----------------------------------------------------------------------------------------------
# upstream plans (a server named refused* refuses connections, one named mute* never completes them)
#   {"ev": [[t, "h", hex] | [t, "n", byte, count], …],      bytes the upstream sends t seconds after the request
#    "end": ["close" | "reset" | "hold", t]}
# ----------------------------------------------------------------------------------------------
def ev_bytes(e) -> bytes:
    return bytes.fromhex(e[2]) if e[1] == "h" else bytes([e[2]]) * e[3]


def plan_stream(plan) -> tuple[list[tuple[float, bytes]], str, float]:
    """[(time, bytes)], how the script ends, when"""
    evs = sorted(((float(e[0]), ev_bytes(e)) for e in plan.get("ev", [])), key=lambda x: x[0])
    kind, te = plan.get("end", ["close", 0.0])
    return [(t, b) for t, b in evs if kind == "hold" or t <= te], kind, float(te)


class _Conn(asyncio.Transport):
    """The proxy's end of one upstream connection."""

    def __init__(self, net: "Net", rec: dict[str, Any], proto):
        super().__init__()
        self.net, self.rec, self.proto = net, rec, proto
        self.closing = False
        self.lost = False
        self.started = False
        self.buf = b""

    # -- called by the client (the code under test) ------------------------------------------------
    def write(self, data: bytes) -> None:
        if self.closing:
            self.rec["dropped"] = self.rec.get("dropped", 0) + len(data)
            return
        self.buf += bytes(data)
        self.rec["written"] = self.buf
        if not self.started and b"\r\n" in self.buf:
            self.started = True
            self.net._serve(self)

    def close(self) -> None:
        if not self.closing:
            self.closing = True
            self.rec["closed_by_proxy_at"] = self.net.loop.time()
            self.net.loop.call_soon(self._lose, None)

    abort = close

    def is_closing(self) -> bool:
        return self.closing

    def get_extra_info(self, name, default=None):
        return default

    def set_write_buffer_limits(self, high=None, low=None) -> None:
        pass

    def get_write_buffer_size(self) -> int:
        return 0

    # -- called by the scripted upstream ------------------------------------------------------------
    def _lose(self, exc) -> None:
        if not self.lost:
            self.lost = True
            self.closing = True
            self.proto.connection_lost(exc)

    def feed(self, data: bytes) -> None:
        if self.closing or self.lost:
            self.rec["undelivered"] = self.rec.get("undelivered", 0) + len(data)   # the upstream writes into a closed connection
            return
        try:
            self.proto.data_received(data)
        except Exception as e:  # noqa: BLE001  asyncio: "Fatal error: protocol.data_received() call failed."
            self.closing = True
            self._lose(e)

    def end(self, kind: str) -> None:
        if self.lost or self.closing:   # the proxy has hung up already: whatever the peer does now is not seen
            return
        if kind == "reset":
            self.closing = True
            self._lose(ConnectionResetError(104, "Connection reset by peer"))
        elif kind == "close":
            keep = False
            try:
                keep = bool(self.proto.eof_received())
            except Exception as e:  # noqa: BLE001
                self.closing = True
                self._lose(e)
                return
            if not keep:
                self.closing = True
                self._lose(None)


class Net:
    """Replaces `loop.create_connection`.  `answer(host, port, line) -> plan` scripts every server of the world."""

    def __init__(self, loop: asyncio.AbstractEventLoop, answer):
        self.loop = loop
        self.answer = answer
        self.records: list[dict[str, Any]] = []
        loop.create_connection = self._create_connection  # type: ignore[method-assign]

    async def _create_connection(self, protocol_factory, host=None, port=None, *, ssl=None, server_hostname=None, **kw):
        rec: dict[str, Any] = {"host": host, "port": port, "at": self.loop.time(), "written": b""}
        self.records.append(rec)
        pre = self.answer(host, port, None)   # how this server accepts connections
        if pre == "refuse":
            raise ConnectionRefusedError(111, f"Connect call failed ({host!r}, {port})")
        if pre == "never":
            await asyncio.Event().wait()     # until the caller gives up
        proto = protocol_factory()
        conn = _Conn(self, rec, proto)
        proto.connection_made(conn)
        return conn, proto

    def _serve(self, conn: _Conn) -> None:
        line = conn.buf.split(b"\r\n", 1)[0]
        plan = self.answer(conn.rec["host"], conn.rec["port"], line)
        conn.rec["plan"] = plan.get("name", "")
        evs, kind, te = plan_stream(plan)
        # one timer per instant, the actions of an instant in script order (timers of equal time have no order)
        steps: dict[float, list] = {}
        for t, b in evs:
            steps.setdefault(t, []).append((conn.feed, b))
        if kind != "hold":
            steps.setdefault(te, []).append((conn.end, kind))

        def run(actions):
            for f, a in actions:
                f(a)

        for t in sorted(steps):
            self.loop.call_later(t, run, steps[t])


# ----------------------------------------------------------------------------------------------
# downstream side
# ----------------------------------------------------------------------------------------------
class DownTransport(asyncio.Transport):
    """A downstream client's connection as the server protocol sees it (writes are accepted at once)."""

    def __init__(self, loop, proto, peer=("192.0.2.7", 40000)):
        super().__init__()
        self.loop, self.proto, self.peer = loop, proto, peer
        self.writes: list[bytes] = []
        self.dropped: list[bytes] = []
        self.closed = False
        self.closed_at: float | None = None
        self.left = False
        self.lost = False
        self.on_close = None

    def write(self, data: bytes) -> None:
        (self.dropped if self.closed else self.writes).append(bytes(data))

    def close(self) -> None:
        if not self.closed:
            self.closed = True
            self.closed_at = self.loop.time()
            self.loop.call_soon(self._lose)
            if self.on_close:
                self.on_close()

    abort = close

    def _lose(self) -> None:
        if not self.lost:
            self.lost = True
            self.proto.connection_lost(None)

    def leave(self) -> None:
        """the client hangs up before it was answered"""
        if not self.closed:
            self.closed = True
            self.left = True
            self._lose()
            if self.on_close:
                self.on_close()

    def is_closing(self) -> bool:
        return self.closed

    def set_write_buffer_limits(self, high=None, low=None) -> None:
        pass

    def get_write_buffer_size(self) -> int:
        return 0

    def get_extra_info(self, name, default=None):
        return self.peer if name == "peername" else default


def toml_str(s: str) -> str:
    return '"' + "".join(c if c.isascii() and c.isprintable() and c not in '"\\' else "\\u%04x" % ord(c) for c in s) + '"'


def build_router(locs, docroot: str):
    """The location router of a server configured by a TOML file, as `nauyaca serve --config` builds it.
    locs: [{"prefix", "upstream", "strip": bool, "timeout": float | None (not written: the default applies)}]"""
    from pathlib import Path

    from nauyaca.server.config import ServerConfig

    lines = ["[server]", f"document_root = {toml_str(docroot)}", ""]
    for l in locs:
        lines.append("[[locations]]")
        lines.append(f"prefix = {toml_str(l['prefix'])}")
        if l.get("type", "proxy") == "static":
            lines.append('handler = "static"')
            lines.append(f"document_root = {toml_str(docroot)}")
        else:
            lines.append('handler = "proxy"')
            lines.append(f"upstream = {toml_str(l['upstream'])}")
            if l.get("strip") is not None:
                lines.append(f"strip_prefix = {'true' if l['strip'] else 'false'}")
            if l.get("timeout") is not None:
                lines.append(f"timeout = {float(l['timeout'])!r}")
        lines.append("")
    fd, path = tempfile.mkstemp(prefix="nv-proxy-", suffix=".toml")
    try:
        with os.fdopen(fd, "w") as f:
            f.write("\n".join(lines))
        cfg = ServerConfig.from_toml(Path(path))
    finally:
        os.unlink(path)
    return cfg.get_location_router()


_TOKEN = re.compile(rb"[?&]r([0-9]+)$")


def run_world(locs, reqs, docroot: str, tail: float = 3.0) -> dict[str, Any]:
    """Run one deployment from start to end on a fresh virtual-clock loop.

    reqs: [{"at": seconds, "lead": seconds between connect and request, "line": str (ends in ?r<i>),
            "plan": upstream plan for this request, "leave": seconds after the request | None, "wait": seconds}]
    returns {"results": [{"down": bytes, "nwrites", "dropped", "closed", "left", "answered_at" (relative to the request)}],
             "conns": [{"host","port","line","at","plan"}]}
    """
    from nauyaca.protocol.response import GeminiResponse
    from nauyaca.server.protocol import GeminiServerProtocol

    loop = VLoop()
    router = build_router(locs, docroot)
    router.set_default_handler(lambda request: GeminiResponse(status=51, meta="Not found"))
    ups = set()
    for l in locs:
        if l.get("type", "proxy") == "proxy":
            ups.add(_hostport(l["upstream"]))

    def answer(host, port, line):
        mine = (str(host).lower(), port) in ups
        if line is None:   # how this server accepts connections is told by its name
            h = str(host).lower()
            return "refuse" if h.startswith("refused") else "never" if h.startswith("mute") else "ok"
        if not mine:
            return {"name": "decoy", "ev": [[0.0, "h", (b"20 text/plain\r\nDECOY " + line).hex()]], "end": ["close", 0.0]}
        m = _TOKEN.search(line)
        if not m or int(m.group(1)) >= len(reqs):
            return {"name": "unknown", "ev": [[0.0, "h", b"51 no such page\r\n".hex()]], "end": ["close", 0.0]}
        return dict(reqs[int(m.group(1))]["plan"], name=f"r{int(m.group(1))}")

    net = Net(loop, answer)
    downs: list[DownTransport | None] = [None] * len(reqs)
    t_req: list[float | None] = [None] * len(reqs)
    all_done = asyncio.Event()

    def check_done():
        if all(d is not None and d.closed for d in downs):
            all_done.set()

    def connect(i):
        proto = GeminiServerProtocol(router.route, None)
        tr = DownTransport(loop, proto, peer=("192.0.2.%d" % (7 + i), 40000 + i))
        tr.on_close = check_done
        downs[i] = tr
        proto.connection_made(tr)
        loop.call_later(reqs[i].get("lead", 0.0), request, i, proto, tr)

    def request(i, proto, tr):
        t_req[i] = loop.time()
        if tr.closed:
            return
        proto.data_received((reqs[i]["line"] + "\r\n").encode("utf-8"))
        if reqs[i].get("leave") is not None:
            loop.call_later(reqs[i]["leave"], tr.leave)

    async def main():
        for i, r in enumerate(reqs):
            loop.call_later(r["at"], connect, i)
        horizon = max(r["at"] + r.get("lead", 0.0) + r["wait"] for r in reqs)
        try:
            await asyncio.wait_for(all_done.wait(), horizon)
        except (asyncio.TimeoutError, TimeoutError):
            pass
        # what happens after the answers (late upstream bytes, fetches still running for clients that left)
        await asyncio.sleep(tail)

    asyncio.set_event_loop(loop)
    try:
        loop.run_until_complete(main())
        results = []
        for i, tr in enumerate(downs):
            if tr is None:
                results.append({"down": b"", "nwrites": 0, "dropped": 0, "closed": False, "left": False, "answered_at": None})
                continue
            results.append({"down": b"".join(tr.writes), "nwrites": len(tr.writes), "dropped": len(tr.dropped), "closed": tr.closed, "left": tr.left,
                            "answered_at": None if tr.closed_at is None or t_req[i] is None else round(tr.closed_at - t_req[i], 6)})
        conns = [{"host": r["host"], "port": r["port"], "line": bytes(r["written"]), "at": round(r["at"], 6), "plan": r.get("plan", "")} for r in net.records]
        return {"results": results, "conns": conns}
    finally:
        try:
            pending = [t for t in asyncio.all_tasks(loop) if not t.done()]
            for t in pending:
                t.cancel()
            if pending:
                loop.run_until_complete(asyncio.gather(*pending, return_exceptions=True))
        except Exception:  # noqa: BLE001
            pass
        asyncio.set_event_loop(None)
        loop.close()


def _hostport(url: str):
    import urllib.parse as up

    s = up.urlsplit(url)
    return (s.hostname or "").lower(), (s.port if s.port is not None else 1965)


# ----------------------------------------------------------------------------------------------
# real sockets: a scripted loopback TLS upstream whose script depends on the request it receives
# ----------------------------------------------------------------------------------------------
def keyed_upstream():
    """`url_upstream.Upstream` whose connections follow `scripts[i]` when the request line ends in `?r<i>`
    (several requests with different upstream behaviours can then be in flight at once)."""
    import socket
    import ssl
    import struct

    from . import url_upstream as U

    class KeyedUpstream(U.Upstream):
        scripts: list = []

        async def _handle(self, reader, writer):
            task = asyncio.current_task()
            if task is not None:
                self.tasks.add(task)
                task.add_done_callback(self.tasks.discard)
            self.connections += 1
            entry: dict[str, Any] = {"line": "", "peer": "loopback"}
            self.log.append(entry)
            try:
                try:
                    data = await asyncio.wait_for(reader.readuntil(b"\r\n"), timeout=1.0)
                except asyncio.IncompleteReadError as e:
                    data = e.partial
                except (asyncio.LimitOverrunError, asyncio.TimeoutError, TimeoutError):
                    data = b""
                entry["line"] = data.hex()
                m = _TOKEN.search(data.rstrip(b"\r\n"))
                actions = self.scripts[int(m.group(1))] if m and int(m.group(1)) < len(self.scripts) else [["send", b"51 no such page\r\n".hex()], ["close"]]
                for op, *arg in actions:
                    if op == "send":
                        writer.write(bytes.fromhex(arg[0]))
                        await writer.drain()
                    elif op == "sendn":
                        writer.write(bytes([arg[0]]) * arg[1])
                        await writer.drain()
                    elif op == "sleep":
                        await asyncio.sleep(arg[0])
                    elif op == "close":
                        writer.close()
                        return
                    elif op == "reset":
                        sock = writer.transport.get_extra_info("socket")
                        if sock is not None:
                            try:
                                sock.setsockopt(socket.SOL_SOCKET, socket.SO_LINGER, struct.pack("ii", 1, 0))
                            except OSError:
                                pass
                        writer.transport.abort()
                        return
                    elif op == "hold":
                        self.held.append(writer)
                        return
                writer.close()
            except (ConnectionError, ssl.SSLError, OSError):
                entry["error"] = "io"       # the proxy hung up on this connection
            except asyncio.CancelledError:
                writer.transport.abort()

    return KeyedUpstream()
