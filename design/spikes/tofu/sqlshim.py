import sqlite3 as real, os, sys, tempfile, pathlib, types, subprocess, json
import nauyaca.protocol
from nauyaca.security import tofu

class Inject(Exception): pass

class Shim(types.ModuleType):
    """stands in for `sqlite3` inside nauyaca.security.tofu: counts statement/commit boundaries,
    can raise or hard-exit at the k-th one, and records the script"""
    def __init__(self):
        super().__init__("sqlite3_shim"); self.Row=real.Row; self.IntegrityError=real.IntegrityError
        self.k=None; self.mode="raise"; self.n=0; self.script=[]
    def boundary(self, what):
        self.script.append(what)
        if self.k is not None and self.n==self.k:
            if self.mode=="exit": os._exit(9)
            self.n+=1; raise real.OperationalError("injected fault at boundary %d (%s)"%(self.k,what))
        self.n+=1
    def connect(self, path):
        shim=self; conn=real.connect(path)
        class Cur:
            def __init__(s): s._c=conn.cursor()
            def execute(s, sql, params=()):
                shim.boundary(" ".join(sql.split())[:40]); return s._c.execute(sql, params)
            def fetchone(s): return s._c.fetchone()
            def fetchall(s): return s._c.fetchall()
            @property
            def rowcount(s): return s._c.rowcount
        class Conn:
            def cursor(s): return Cur()
            def commit(s): shim.boundary("COMMIT"); conn.commit()
            def close(s): conn.close()
            def __setattr__(s, k, v): setattr(conn, k, v)
        return Conn()

def rows(db): return sorted((h["hostname"],h["port"],h["fingerprint"],h["first_seen"]) for h in db.list_hosts())

def scenario(d, op):
    """returns (before, after_ok, script) and for each boundary k the store after an injected exception"""
    shim=Shim(); tofu.sqlite3=shim
    def fresh():
        p=pathlib.Path(d)/"t.db"
        if p.exists(): p.unlink()
        shim.k=None
        db=tofu.TOFUDatabase(p)
        with db._connection() as c:
            cur=c.cursor()
            for i,h in enumerate(["a","b","c"]):
                cur.execute("INSERT INTO known_hosts VALUES (?,?,?,?,?)",(h,1965,"sha256:"+("%x"%i)*64,"f%d"%i,"l"))
            c.commit()
        return db
    db=fresh(); before=rows(db); shim.n=0; shim.script=[]; op(db); after=rows(db); script=list(shim.script)
    results=[]
    for k in range(len(script)):
        db=fresh(); shim.n=0; shim.script=[]; shim.k=k
        try: op(db); outcome="no-exc"
        except Exception as e: outcome=type(e).__name__
        shim.k=None
        got=rows(db)
        results.append((k, script[k], outcome, "before" if got==before else "after" if got==after else "OTHER:%r"%(got,)))
    return before, after, script, results

def main():
    d=tempfile.mkdtemp()
    good=pathlib.Path(d)/"good.toml"
    good.write_text('[hosts."x:1965"]\nhostname="x"\nport=1965\nfingerprint="sha256:%s"\nfirst_seen="fx"\nlast_seen="lx"\n[hosts."a:1965"]\nhostname="a"\nport=1965\nfingerprint="sha256:%s"\nfirst_seen="fa"\nlast_seen="la"\n'%("1"*64,"9"*64))
    ops={
      "revoke": lambda db: db.revoke("a",1965),
      "clear": lambda db: db.clear(),
      "import-merge": lambda db: db.import_toml(good, merge=True, on_conflict=lambda *a: True),
      "import-replace": lambda db: db.import_toml(good, merge=False),
    }
    for name,op in ops.items():
        before,after,script,res=scenario(d,op)
        bad=[r for r in res if r[3].startswith("OTHER")]
        print(name,"| script:",script,"| boundaries",len(script),"| non-atomic outcomes:",bad if bad else "none")
main()
