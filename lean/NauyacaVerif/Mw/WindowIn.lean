import NauyacaVerif.Mw.WindowProof
import Mathlib.Tactic.Ring
namespace Mw

/-! # C10, one bucket: admitted arrivals inside an arbitrary time window `[x, y]` -/

/-- the bucket invariant `0 ≤ tokens ≤ capacity` -/
def Bucket.Inv (c : LCfg) (b : Bucket) : Prop := 0 ≤ b.tokens ∧ b.tokens ≤ c.cap

theorem level_nonneg (c : LCfg) (hr : 0 ≤ c.rate) (b : Bucket) (t : Rat) (hi : b.Inv c) (ht : b.last ≤ t) :
    0 ≤ b.level c t := by
  unfold Bucket.level
  have hel : 0 ≤ (t - b.last) * c.rate := mul_nonneg (by linarith) hr
  exact le_min (by linarith [hi.1, hi.2]) (by linarith [hi.1])

theorem consume_last (c : LCfg) (b : Bucket) (t : Rat) : (consume c b t).1.last = t := by
  unfold consume; simp only; split <;> rfl

theorem consume_tokens (c : LCfg) (b : Bucket) (t : Rat) :
    (consume c b t).1.tokens = (if b.level c t ≥ 1 then b.level c t - 1 else b.level c t) := by
  unfold consume; simp only; split <;> rfl

theorem consume_ok (c : LCfg) (b : Bucket) (t : Rat) : (consume c b t).2 = decide (b.level c t ≥ 1) := by
  unfold consume; simp only; split <;> simp_all

/-- `consume` keeps `0 ≤ tokens ≤ capacity` (time not running backwards, refill rate not negative) -/
theorem consume_inv (c : LCfg) (hr : 0 ≤ c.rate) (b : Bucket) (t : Rat) (hi : b.Inv c) (ht : b.last ≤ t) :
    (consume c b t).1.Inv c := by
  have h0 := level_nonneg c hr b t hi ht
  have h1 := level_le_cap c b t
  unfold Bucket.Inv
  rw [consume_tokens]
  split
  · constructor <;> linarith
  · exact ⟨h0, h1⟩

/-- (arrival time, admitted?) for every arrival when one bucket sees the arrival times `ts` in order -/
def bucketObs (c : LCfg) : Bucket → List Rat → List (Rat × Bool)
  | _, [] => []
  | b, t :: ts => (t, (consume c b t).2) :: bucketObs c (consume c b t).1 ts

def admitUpto (y : Rat) (p : Rat × Bool) : Bool := p.2 && decide (p.1 ≤ y)
def admitIn (x y : Rat) (p : Rat × Bool) : Bool := p.2 && (decide (x ≤ p.1) && decide (p.1 ≤ y))

theorem admitIn_imp_upto (x y : Rat) (p : Rat × Bool) (h : admitIn x y p = true) : admitUpto y p = true := by
  unfold admitIn at h; unfold admitUpto
  simp only [Bool.and_eq_true, decide_eq_true_eq] at h ⊢
  exact ⟨h.1, h.2.2⟩

theorem count_zero_after (c : LCfg) (b : Bucket) (t0 y : Rat) (ts : List Rat) (hs : Sorted t0 ts) (hy : y < t0) :
    (bucketObs c b ts).countP (admitUpto y) = 0 := by
  induction ts generalizing b t0 with
  | nil => rfl
  | cons t ts ih =>
    obtain ⟨h1, h2⟩ := hs
    simp only [bucketObs, List.countP_cons]
    have hf : admitUpto y (t, (consume c b t).2) = false := by
      unfold admitUpto
      have : ¬ t ≤ y := by linarith
      simp [this]
    simp only [ih _ t h2 (by linarith), hf, Bool.false_eq_true, ↓reduceIte]

/-- admitted arrivals up to time `y`: at most the tokens in hand plus what refills until `y` -/
theorem upto_bound (c : LCfg) (hr : 0 ≤ c.rate) (b : Bucket) (ts : List Rat) (y : Rat)
    (hs : Sorted b.last ts) (hi : b.Inv c) (hy : b.last ≤ y) :
    (((bucketObs c b ts).countP (admitUpto y) : Nat) : Rat) ≤ b.tokens + (y - b.last) * c.rate := by
  induction ts generalizing b with
  | nil =>
    simp only [bucketObs, List.countP_nil, Nat.cast_zero]
    have : 0 ≤ (y - b.last) * c.rate := mul_nonneg (by linarith) hr
    linarith [hi.1]
  | cons t ts ih =>
    obtain ⟨h1, h2⟩ := hs
    simp only [bucketObs, List.countP_cons]
    have hinv := consume_inv c hr b t hi h1
    have hlast := consume_last c b t
    have htok := consume_tokens c b t
    have hok := consume_ok c b t
    have hlv : b.level c t ≤ b.tokens + (t - b.last) * c.rate := min_le_right _ _
    by_cases hty : t ≤ y
    · have hih := ih (consume c b t).1 (by rw [hlast]; exact h2) hinv (by rw [hlast]; exact hty)
      rw [hlast, htok] at hih
      have hsplit : (y - b.last) * c.rate = (t - b.last) * c.rate + (y - t) * c.rate := by ring
      by_cases hge : b.level c t ≥ 1
      · have ha : admitUpto y (t, (consume c b t).2) = true := by
          unfold admitUpto; simp [hok, hge, hty]
        simp only [ha, ↓reduceIte]
        simp only [hge, ↓reduceIte] at hih
        push_cast
        linarith
      · have ha : admitUpto y (t, (consume c b t).2) = false := by
          unfold admitUpto; simp [hok, hge]
        simp only [ha]
        simp only [hge, ↓reduceIte] at hih
        have h0 : 0 ≤ (t - b.last) * c.rate := mul_nonneg (by linarith) hr
        simp only [Bool.false_eq_true, ↓reduceIte, Nat.add_zero]
        have hlv0 := level_nonneg c hr b t hi h1
        -- level ≤ tokens + refill
        linarith
    · have hz := count_zero_after c (consume c b t).1 t y ts h2 (by linarith)
      have ha : admitUpto y (t, (consume c b t).2) = false := by
        unfold admitUpto; simp [hty]
      simp only [hz, ha, Bool.false_eq_true, ↓reduceIte, Nat.add_zero, Nat.cast_zero]
      have : 0 ≤ (y - b.last) * c.rate := mul_nonneg (by linarith) hr
      linarith [hi.1]

/-- C10 core, window form: over any time-ordered run of one bucket, the number of arrivals admitted
    at times within `[x, y]` is at most `capacity + refill_rate · (y − x)` -/
theorem window_in (c : LCfg) (hr : 0 ≤ c.rate) (b : Bucket) (ts : List Rat) (x y : Rat) (hxy : x ≤ y)
    (hs : Sorted b.last ts) (hi : b.Inv c) :
    (((bucketObs c b ts).countP (admitIn x y) : Nat) : Rat) ≤ c.cap + (y - x) * c.rate := by
  have hwin : 0 ≤ (y - x) * c.rate := mul_nonneg (by linarith) hr
  have hcap : 0 ≤ c.cap := le_trans hi.1 hi.2
  induction ts generalizing b with
  | nil =>
    simp only [bucketObs, List.countP_nil, Nat.cast_zero]
    linarith
  | cons t ts ih =>
    obtain ⟨h1, h2⟩ := hs
    simp only [bucketObs, List.countP_cons]
    have hinv := consume_inv c hr b t hi h1
    have hlast := consume_last c b t
    have htok := consume_tokens c b t
    have hok := consume_ok c b t
    have hcapl := level_le_cap c b t
    by_cases hxt : x ≤ t
    · by_cases hty : t ≤ y
      · -- inside the window: bound the rest by what the bucket holds now plus the refill until `y`
        have hmono : (bucketObs c (consume c b t).1 ts).countP (admitIn x y) ≤
            (bucketObs c (consume c b t).1 ts).countP (admitUpto y) :=
          List.countP_mono_left (fun p _ hp => admitIn_imp_upto x y p hp)
        have hup := upto_bound c hr (consume c b t).1 ts y (by rw [hlast]; exact h2) hinv (by rw [hlast]; exact hty)
        rw [hlast, htok] at hup
        have hmonoQ : (((bucketObs c (consume c b t).1 ts).countP (admitIn x y) : Nat) : Rat) ≤
            (((bucketObs c (consume c b t).1 ts).countP (admitUpto y) : Nat) : Rat) := by exact_mod_cast hmono
        have hyt : (y - t) * c.rate ≤ (y - x) * c.rate := mul_le_mul_of_nonneg_right (by linarith) hr
        by_cases hge : b.level c t ≥ 1
        · have ha : admitIn x y (t, (consume c b t).2) = true := by
            unfold admitIn; simp [hok, hge, hty, hxt]
          simp only [ha, ↓reduceIte]
          simp only [hge, ↓reduceIte] at hup
          push_cast
          linarith
        · have ha : admitIn x y (t, (consume c b t).2) = false := by
            unfold admitIn; simp [hok, hge]
          simp only [ha, Bool.false_eq_true, ↓reduceIte, Nat.add_zero]
          simp only [hge, ↓reduceIte] at hup
          linarith
      · have hmono : (bucketObs c (consume c b t).1 ts).countP (admitIn x y) ≤
            (bucketObs c (consume c b t).1 ts).countP (admitUpto y) :=
          List.countP_mono_left (fun p _ hp => admitIn_imp_upto x y p hp)
        have hz := count_zero_after c (consume c b t).1 t y ts h2 (by linarith)
        have hz' : (bucketObs c (consume c b t).1 ts).countP (admitIn x y) = 0 := by omega
        have ha : admitIn x y (t, (consume c b t).2) = false := by
          unfold admitIn; simp [hty]
        simp only [hz', ha, Bool.false_eq_true, ↓reduceIte, Nat.add_zero, Nat.cast_zero]
        linarith
    · -- before the window: not counted
      have ha : admitIn x y (t, (consume c b t).2) = false := by
        unfold admitIn; simp [hxt]
      simp only [ha, Bool.false_eq_true, ↓reduceIte, Nat.add_zero]
      exact ih (consume c b t).1 (by rw [hlast]; exact h2) hinv

/-- the invariant holds along every run of one bucket -/
def bucketAfter (c : LCfg) : Bucket → List Rat → Bucket
  | b, [] => b
  | b, t :: ts => bucketAfter c (consume c b t).1 ts

theorem bucket_inv_run (c : LCfg) (hr : 0 ≤ c.rate) (b : Bucket) (ts : List Rat)
    (hs : Sorted b.last ts) (hi : b.Inv c) : (bucketAfter c b ts).Inv c := by
  induction ts generalizing b with
  | nil => exact hi
  | cons t ts ih =>
    obtain ⟨h1, h2⟩ := hs
    simp only [bucketAfter]
    exact ih _ (by rw [consume_last]; exact h2) (consume_inv c hr b t hi h1)
end Mw
