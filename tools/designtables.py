#!/venv/bin/python
"""Regenerate the machine-made tables of DESIGN.md (between <!-- BEGIN:x --> / <!-- END:x --> markers):
properties as built, seeded changes and which check catches them, fixes and findings."""
import glob, importlib, json, os, re, sys
from pathlib import Path
V = Path(__file__).resolve().parent.parent
sys.path.insert(0, str(V))
from harness import core
core.setup_import_path()

def props_table():
    out = ["| id | theorems audited | correspondence families (quick / thorough cases) | extraction items |", "|---|---|---|---|"]
    for f in sorted((V / "harness/props").glob("c[0-9][0-9].py")):
        m = importlib.import_module(f"harness.props.{f.stem}")
        th = ", ".join("`" + t.split(".")[-1] + "`" for t in m.THEOREMS)
        fams = "; ".join(f"{x.name} ({x.quick_n} / {x.thorough_n})" for x in m.FAMILIES)
        ex = ", ".join(list(getattr(m, "EXTRACT", [])) + [f"{k}={v!r}" for k, v in getattr(m, "EXTRACT_EXPECT", {}).items()])
        out.append(f"| {m.ID} | {len(m.THEOREMS)}: {th} | {fams} | {ex} |")
    return "\n".join(out)

def seeded_table():
    out = ["| seeded change | property | what it needs to manifest | confirmed (demo clean/patched, suite) | check result | caught by |", "|---|---|---|---|---|---|"]
    for d in sorted(glob.glob(str(V / "seeded/*/"))):
        name = os.path.basename(d.rstrip("/"))
        mp = Path(d) / "meta.json"
        if not mp.exists():
            continue
        j = json.loads(mp.read_text())
        if name.startswith("fixrevert-") or name.startswith("benign-"):
            continue
        need = " ".join((j.get("needs_to_manifest") or "").split())
        m = re.search(r"Need(?:s|ed)[^:]*:(.*)", need)
        need = (m.group(1) if m else need)[:260]
        c = j["confirmed"]; k = j["check"]
        res = "VIOLATION" + (" (no-failing-input-found)" if k.get("no_failing_input_found") else "") if k.get("detected") else "**missed**"
        by = f"{k.get('replay_family') or ''} / {k.get('replay_signature') or ''}" if k.get("replay_signature") else ("; ".join(x[:80] for x in k.get("how", [])[:1]))
        out.append(f"| {name} | {j['property']} | {need} | {c['demo_clean_rc']}/{c['demo_patched_rc']}, {c['test_suite_with_patch'][:11]} | {res} | {by} |")
    return "\n".join(out)

def reverts_table():
    out = ["| fix commit | property | subject | revert detected by |", "|---|---|---|---|"]
    for d in sorted(glob.glob(str(V / "seeded/fixrevert-*/"))):
        mp = Path(d) / "meta.json"
        if not mp.exists():
            continue
        j = json.loads(mp.read_text())
        out.append(f"| {j.get('commit')} | {j.get('breaks')} | {j.get('subject', '')[:90]} | {j.get('detected_by') or ''} |")
    return "\n".join(out)

def benign_table():
    out = ["| refactoring | what it restructures | checks run (quick) | outcome |", "|---|---|---|---|"]
    for d in sorted(glob.glob(str(V / "seeded/benign-*/"))):
        mp = Path(d) / "meta.json"
        if not mp.exists():
            continue
        j = json.loads(mp.read_text())
        rd = Path(d) / "README.txt"
        what = " ".join(rd.read_text().split())[:200] if rd.exists() else ""
        cs = j.get("checks", {})
        quiet = [p for p, v in cs.items() if v["class"] == "quiet"]
        tie = [p for p, v in cs.items() if v["class"] == "tie-broken"]
        fa = [p for p, v in cs.items() if v["class"] not in ("quiet", "tie-broken")]
        res = (f"quiet: {' '.join(quiet)}" if quiet else "") + (f"; tie broken (no-failing-input-found): {' '.join(tie)}" if tie else "") + (f"; **FALSE ALARM**: {' '.join(fa)}" if fa else "")
        out.append(f"| {os.path.basename(d.rstrip('/'))} | {what} | {' '.join(cs)} | {res.lstrip('; ')} |")
    return "\n".join(out)

def findings():
    j = json.loads((V / "known_findings.json").read_text())
    out = ["Known findings (recorded, not repaired):", ""]
    for f in j["findings"]:
        out.append(f"* **{f['property']} / {f['signature']}** — {f['what']}  Why not fixed: {f['why_not_fixed']}")
    out += ["", "Fixed defects (each a `fix:` commit in /repo; the entry suppresses nothing):", ""]
    for f in j["fixed"]:
        out.append("* " + f)
    return "\n".join(out)

doc = (V / "DESIGN.md").read_text()
for key, fn in (("props", props_table), ("seeded", seeded_table), ("reverts", reverts_table), ("benign", benign_table), ("findings", findings)):
    b, e = f"<!-- BEGIN:{key} -->", f"<!-- END:{key} -->"
    if b in doc and e in doc:
        doc = doc[: doc.index(b) + len(b)] + "\n" + fn() + "\n" + doc[doc.index(e):]
(V / "DESIGN.md").write_text(doc)
print("DESIGN.md tables regenerated")
