import asyncio, random, subprocess, sys, heapq
import nauyaca.protocol
import structlog
structlog.configure(wrapper_class=structlog.make_filtering_bound_logger(50))
from nauyaca.server import protocol as sp
from nauyaca.server.protocol import GeminiServerProtocol
from nauyaca.protocol.response import GeminiResponse

class VLoop(asyncio.SelectorEventLoop):
    def __init__(self): super().__init__(); self._vt=0.0
    def time(self): return self._vt
    def advance(self, dt): self._vt += dt

class FT:
    def __init__(s): s.acts=[]; s.closed=False; s.dropped=[]
    def write(s,d):
        if s.closed: s.dropped.append(bytes(d))
        else: s.acts.append(('w',bytes(d)))
    def close(s):
        if not s.closed: s.closed=True; s.acts.append(('close',))
    def is_closing(s): return s.closed
    def get_extra_info(s,n,d=None): return ('1.2.3.4',5) if n=='peername' else d

def enc_cps(s): return "-" if not s else ",".join("%x"%ord(c) for c in s)
def enc_resp(r):
    st,meta,body=r
    b = "n" if body is None else ("s:"+enc_cps(body) if isinstance(body,str) else "b:"+(body.hex() or "-"))
    return f"{st}/{enc_cps(meta)}/{b}"

METAS=["text/gemini","", "a\r\nb","x"*1030,"é"*600,"m\udcffz","ok\n","€"*341+"ab","€"*342]
BODIES=[None,"","hello","x\udc80y",b"",b"\x00\xffbin","é€😀"]
def gen_resp(rnd):
    st=rnd.choice([20,20,20,21,29,10,30,31,40,51,59,60,69,9,70,99,0,-5,100,19,30])
    return (st, rnd.choice(METAS), rnd.choice(BODIES))

LINES=[b"gemini://h/",b"gemini://h/a?b",b"gemini://[::1]/",b"http://h/",b"gemini:///x",b"gemini://u@h/",b"gemini://h/#f",b"\xff\xfe",b"",b"gemini://h/"+b"a"*1011,b"gemini://h/"+b"a"*1012,b"gemini://h/"+b"a"*2000,
       b"titan://h/f;size=3",b"titan://h/f;size=0",b"titan://h/f;size=10;mime=text/plain;token=t",b"titan://h/f",b"titan://h/f;size=x",b"titan://h/f;size=-1",b"titan://h/f;size= 4 ",b"titan://h/f;size=1;size=2",b"titan://u@h/f;size=1",b"titan://h/f;mime=a",b"TITAN://h/f;size=1",b"titan://h/f;size=1_0",b"titan://h/f;size=+2"]
def gen_stream(rnd):
    line=rnd.choice(LINES)
    r=rnd.random()
    tail=b"" if r<0.3 else bytes(rnd.randrange(256) for _ in range(rnd.randint(0,14)))
    s=line+(b"\r\n" if rnd.random()<0.9 else rnd.choice([b"",b"\r",b"\n"]))+tail
    if rnd.random()<0.1: s=bytes(rnd.choice([13,10,65,0x67]) for _ in range(rnd.randint(0,30)))
    # cut
    cuts=sorted(rnd.sample(range(1,len(s)), min(len(s)-1, rnd.randint(0,3)))) if len(s)>1 else []
    out=[];p=0
    for c in cuts+[len(s)]: out.append(s[p:c]); p=c
    return [x for x in out if x] or [b""]

def gen_case(rnd):
    mw=rnd.random()<0.5; up=rnd.random()<0.6
    hk=rnd.choice(['s','s','r','a','a'])
    handler = ('s',gen_resp(rnd)) if hk=='s' else (hk,)
    evs=[('d',c) for c in gen_stream(rnd)]
    extra=[]
    for _ in range(rnd.randint(0,5)):
        k=rnd.choice(['t','l','ma','ma','mr','mn','md','ha','ha','hr','ua','ua','ur','d'])
        if k=='md': extra.append(('md',rnd.choice(["53 Access denied\r\n","44 Slow down\r\n","garbage","20 ok\r\n","6 x","60","61 a b c\r\n","53 a\nb\r\n",""])))
        elif k in('ha','ua'): extra.append((k,gen_resp(rnd)))
        elif k=='d': extra.append(('d',bytes(rnd.randrange(256) for _ in range(rnd.randint(1,5)))))
        else: extra.append((k,))
    # interleave extras at random positions
    for e in extra: evs.insert(rnd.randint(0,len(evs)),e)
    return mw,up,handler,evs

def enc_case(c):
    mw,up,handler,evs=c
    hs = 's:'+enc_resp(handler[1]) if handler[0]=='s' else handler[0]
    parts=[]
    for e in evs:
        if e[0]=='d': parts.append('d:'+(e[1].hex() or '-'))
        elif e[0]=='md': parts.append('md:'+enc_cps(e[1]))
        elif e[0] in('ha','ua'): parts.append(e[0]+':'+enc_resp(e[1]))
        else: parts.append(e[0])
    return f"conn {int(mw)} {int(up)} {hs} "+" ".join(parts)

async def drain():
    for _ in range(6): await asyncio.sleep(0)

async def run_impl(loop, c):
    mw,up,handler,evs=c
    log={'h':0,'u':0,'m':0,'content':b''}
    gates={}
    def mkresp(r): return GeminiResponse(status=r[0],meta=r[1],body=r[2])
    def h(req):
        log['h']+=1
        if handler[0]=='s': return mkresp(handler[1])
        if handler[0]=='r': raise RuntimeError("boom\nline2")
        async def co():
            g=loop.create_future(); gates['h']=g; return await g
        return co()
    class Up:
        async def handle_upload(self, req):
            log['u']+=1; log['content']=bytes(req.content)
            g=loop.create_future(); gates['u']=g; return await g
    class MW:
        async def process_request(self,u,ip,fp=None):
            log['m']+=1
            g=loop.create_future(); gates['m']=g; return await g
    p=GeminiServerProtocol(h, MW() if mw else None, Up() if up else None)
    t=FT(); p.connection_made(t)
    for e in evs:
        k=e[0]
        if k=='d':
            if not t.closed and p.transport is not None: p.data_received(e[1])
        elif k=='t':
            loop.advance(sp.REQUEST_TIMEOUT+1); await asyncio.sleep(0)
        elif k=='l':
            if p.transport is not None: p.connection_lost(None)
        elif k in('ma','mr','mn','md'):
            g=gates.pop('m',None)
            if g and not g.done():
                if k=='ma': g.set_result((True,None))
                elif k=='mr': g.set_exception(ValueError("mw\nfail"))
                elif k=='mn': g.set_result((False,None))
                else: g.set_result((False,e[1]))
        elif k in('ha','hr'):
            g=gates.pop('h',None)
            if g and not g.done():
                if k=='ha': g.set_result(mkresp(e[1]))
                else: g.set_exception(RuntimeError("h\rfail"))
        elif k in('ua','ur'):
            g=gates.pop('u',None)
            if g and not g.done():
                if k=='ua': g.set_result(mkresp(e[1]))
                else: g.set_exception(OSError("disk\nfull"))
        await drain()
    return t, log, p

def canon_impl(t, log, p, model_line):
    # model tokens tell us which writes are status-only
    toks=model_line.split(" | ")[0].split()[1:] if model_line.startswith("ok") else []
    outs=[]
    wi=0
    for a in t.acts:
        if a[0]=='close': outs.append('close')
        else:
            tok = toks[len(outs)] if len(outs)<len(toks) else ''
            if tok.startswith('~'): outs.append('~'+a[1][:2].decode('latin1') if a[1][2:3]==b' ' and a[1].endswith(b"\r\n") and b"\n" not in a[1][:-2] and b"\r" not in a[1][:-2] and len(a[1])<=1029 else 'MALFORMED')
            else: outs.append('w:'+(a[1].hex() or '-'))
    return "ok "+" ".join(outs)+f" | h={log['h']} u={log['u']} m={log['m']} content={log['content'].hex() or '-'} timer={'true' if p.timeout_handle is not None else 'false'}"

def main():
    seed=int(sys.argv[1]); n=int(sys.argv[2])
    rnd=random.Random(seed)
    cases=[gen_case(rnd) for _ in range(n)]
    inp="\n".join(enc_case(c) for c in cases)+"\n"
    mo=subprocess.run(["/tmp/spike3/Srv/.lake/build/bin/drv"],input=inp,capture_output=True,text=True).stdout.splitlines()
    loop=VLoop(); asyncio.set_event_loop(loop)
    bad=0; stats={}
    async def go():
        nonlocal bad
        for c,m in zip(cases,mo):
            t,log,p=await run_impl(loop,c)
            got=canon_impl(t,log,p,m)
            key=m.split(" | ")[0][:12]
            stats[key]=stats.get(key,0)+1
            if t.dropped: got+=" DROPPED"
            if got!=m:
                bad+=1
                if bad<=8: print("DIFF",enc_case(c)[:300],"\n impl :",got[:300],"\n model:",m[:300])
    loop.run_until_complete(go())
    print("cases",n,"diffs",bad); print(sorted(stats.items(),key=lambda x:-x[1])[:14])
main()
