"""C17  The reverse proxy only talks to its upstream and maps URLs faithfully

Correspondence: the real location router (`ServerConfig.get_location_router`) and the real
`ProxyHandler` with its real `GeminiClient`, against `Url.route` / `Url.proxyUrl` / `Url.parseUrl`
in the Lean model (driver op `pcase`).
 * family `map`  — in-process, no sockets: `loop.create_connection` is replaced by a recorder that
   notes which (host, port) the proxy's client asks for and the bytes it writes, and plays a canned
   response through the real client protocol;
 * family `live` — real TLS on loopback: a scripted upstream and decoy servers log every connection
   and request line;
 * family `conc` — several requests in flight at once through one router;
 * family `overlap` — the same over real loopback TLS (echoing upstream + decoys), a fresh deployment per case;
 * family `seq`  — sequences of requests through one long-lived deployment whose upstream also answers with redirects
   (30/31 to other servers, to other paths of itself), the same URLs being asked again later.
 * family `flaky` — sequences through one deployment whose upstream FAILS (refused, reset, closed before the header, half a header,
   silent) and recovers: every connection made and every request line written for a request is judged, also those of a second try.
"""
from __future__ import annotations

import asyncio
import json
import logging
import os
import random
import shutil
import tempfile
import urllib.parse as up

from .. import core
from ..core import Family, cps, uncps
from . import c19 as G

ID = "C17"
READY = True
LEAN_TARGETS = ["NauyacaVerif.Props.C17", "NauyacaVerif.Props.Tr.UpstreamUrl"]
THEOREMS = [f"NauyacaVerif.C17.{t}" for t in (
    "proxy_host_fixed", "router_first_match", "router_default", "prefix_route_matches", "proxy_url", "proxy_url_raw", "proxy_map",
    "proxy_map_slash", "proxy_roundtrip", "defaultPort_tie")] + ['NauyacaVerif.Translated.upstreamUrl_eq']
TRANSLATED = ['upstreamUrl']
EXTRACT = ["defaultPort", "maxRequest"]
ASSUMPTIONS = [
    "source-shape facts of server/proxy.py (the f-string that builds upstream_url, `path = request.path`, `?{request.query}`) are read with ast on every run into Gen/ProxyGen.lean; the theorems *_tie pin them",
    "proxy_host_fixed / proxy_roundtrip assume an upstream whose authority is un-bracketed ASCII and whose base path has no '?'/'#' (UpstreamOK); bracketed upstreams are covered by the correspondence run only",
    "REGEX routes are not modelled (get_location_router registers PREFIX routes only)",
    "family map replaces loop.create_connection (recorder + canned response through the real GeminiClientProtocol); family live uses real TLS sockets on loopback with decoy servers",
    "the direct oracle computes host/port/path/query with urllib.parse.urlsplit, independently of nauyaca.utils.url",
    "family seq runs a sequence of requests through one fresh deployment per case (the recorder answers the connection of step k with the status/meta the case names for step k, "
    "2x bodies echo the request line; connections to any other host:port are answered by a decoy page): the model treats every request independently (driver op pcasen), which is the claim being checked",
    "family flaky: the network is proxy_world.Net on a virtual clock; the k-th connection attempt made while a step runs meets the k-th fate the case lists (refused / never up / reset / closed / half a header / no header / silent / answered); "
    "a proxy may open any number of connections after failed ones - each is judged (host:port, request line) - but none after one that was answered completely",
    "family overlap: several requests in flight through one fresh router/ProxyHandler over real loopback TLS sockets; the upstream answers each connection after 1-25 ms with an echo of the request line it read; the upstream is 127.0.0.1 or localhost on a port chosen at run time",
    "family conc runs several requests concurrently through one handler (asyncio.gather; the recorder brings each connection up after 0-15 ms - the protocol factory is called only then, as in asyncio's create_connection - and answers it after 1-30 ms with an echo of the request line): the model treats every request independently (driver op pcasen), which is exactly the claim being checked; identical URLs asked by m clients may be fetched between 1 and m times",
]
LEVEL_TEXT = "proof"
LEVEL_NOTE = ("URL construction, prefix stripping, routing order and the upstream round trip are proved over the models for every path/query/configuration "
              "with an un-bracketed ASCII upstream authority; bracketed-IPv6 upstream authorities and the socket layer are covered by correspondence only")
TECHNIQUE = "Lean 4 proofs (proxy_host_fixed, router_first_match, proxy_map, proxy_roundtrip) + differential testing of the real Router/ProxyHandler/GeminiClient chain, in-process and against live loopback upstream + decoys"

logging.disable(logging.CRITICAL)

PREFIXES = ["/", "/api", "/api/", "/apikey", "/a", "/a/b", "/a/b/", "api", "api/", "/%61pi", "/api;v=1", "//", "/a//", "/API", "/é", "/x y", "/a.b", "/~u/"]
UPSTREAMS = ["gemini://up.example", "gemini://up.example/", "gemini://up.example:7070", "gemini://UP.Example:1965/", "gemini://up.example/base",
             "gemini://up.example/base/", "gemini://up.example/base//", "gemini://10.0.0.9:70/a/b/", "gemini://[::1]:7070/v6", "gemini://[fe80::2%25lo]/",
             "gemini://up.example//", "gemini://up.example:0", "gemini://up.example/b;p", "gemini://up.example/%2F/", "gemini://@up.example/x",
             "gemini://up.example:99999", "gemini://up.example/" + "b" * 40]
CLIENT_HOSTS = ["front.example", "front.example:1966", "up.example", "decoy.example:7070", "[::2]", "127.0.0.1:9", "FRONT.example:1965", "u@front.example", "@front.example"]


def loc_prefix(p: str) -> str:
    return p if p.startswith("/") else "/" + p


def gen_locs(rng):
    n = rng.choice([1, 1, 2, 2, 3, 4])
    locs = []
    for _ in range(n):
        pre = rng.choice(PREFIXES)
        if rng.random() < 0.75:
            locs.append({"type": "proxy", "prefix": pre, "upstream": rng.choice(UPSTREAMS), "strip": rng.random() < 0.6})
        else:
            locs.append({"type": "static", "prefix": pre})
    return locs


def path_near(rng, locs):
    """request paths built around the configured prefixes: boundary and near-miss spellings"""
    pre = loc_prefix(rng.choice(locs)["prefix"])
    tails = ["", "x", "/", "/x", "key", "//x", "%2Fx", ";p", "../", "./x", "/..", "/@decoy.example:7070/", ":80", "/a?b", "x/y;z=1", "/%2e%2e/", "é", " ", "\\"]
    k = rng.random()
    if k < 0.55:
        return pre + rng.choice(tails)
    if k < 0.7:
        return pre.rstrip("/") + rng.choice(tails)
    if k < 0.8:
        return pre[:-1] if len(pre) > 1 else pre
    if k < 0.9:
        return pre.upper() if rng.random() < 0.5 else pre + pre
    return up.quote(pre, safe="") if rng.random() < 0.5 else pre.replace("/", "//")


def gen_line(rng, locs):
    host = rng.choice(CLIENT_HOSTS)
    k = rng.random()
    if k < 0.72:
        path = path_near(rng, locs)
    elif k < 0.8:
        path = path_near(rng, locs) + "/" + "p" * rng.choice([900, 960, 985, 990, 1000])
    elif k < 0.92:
        path = G.gen_path(rng)
    else:
        path = rng.choice(["", "/", "//", "/@", "/:", "//decoy.example:7070/x", "/x@decoy.example", "/;", "/%", "/a/../b", "/%2F..%2F", ";p"])
    q = rng.choice(["", "", "?", "?q", "?a=b&c=d", "?a?b", "?/x", "?@decoy.example", "?%3F", "?é", "?#"]) if rng.random() < 0.8 else G.gen_query(rng)
    u = rng.choice(["gemini", "gemini", "gemini", "GEMINI"]) + "://" + host + path + q
    if rng.random() < 0.08:
        u = G.mutate(rng, u)
    return u


# -- specification, written from the property text (independent of nauyaca's url utilities) ------------
def spec_split(line: str):
    """(path, query) the server will see for an accepted request line"""
    s = up.urlsplit(line)
    return (s.path or "/"), s.query


def spec_location(locs, path):
    for i, l in enumerate(locs):
        if path.startswith(loc_prefix(l["prefix"])):
            return i
    return None


def spec_mapped(prefix: str, strip: bool, path: str) -> str:
    if not strip or not path.startswith(prefix):
        return path
    rem = path[len(prefix):]
    on_boundary = prefix.endswith("/") or rem == "" or rem.startswith("/")
    if not on_boundary:
        return path
    return rem if rem.startswith("/") else "/" + rem


def spec_url(loc, path, query) -> str:
    base = loc["upstream"]
    while base.endswith("/"):
        base = base[:-1]
    return base + spec_mapped(loc_prefix(loc["prefix"]), loc["strip"], path) + ("?" + query if query else "")


def spec_hostport(url: str):
    s = up.urlsplit(url)
    return s.hostname, (s.port if s.port is not None else 1965)


class _Base(Family):
    realtime = True     # runs on the wall clock (sockets, threads): a failure is re-run once before it counts (core.run_family)
    def _router(self, locs, fresh=False):
        """router (+ log of the routes it chose) for a configuration; `fresh`: a new deployment, nothing remembered from earlier cases"""
        from nauyaca.protocol.response import GeminiResponse
        from nauyaca.server.config import ServerConfig
        from nauyaca.server.location import LocationConfig

        key = json.dumps(locs, sort_keys=True)
        hit = None if fresh else self._routers.get(key)
        if hit is not None:
            return hit
        lcs = []
        for l in locs:
            if l["type"] == "static":
                lcs.append(LocationConfig.from_dict({"prefix": l["prefix"], "handler": "static", "document_root": self._docroot}))
            else:
                lcs.append(LocationConfig.from_dict({"prefix": l["prefix"], "handler": "proxy", "upstream": l["upstream"], "strip_prefix": l["strip"], "timeout": 2.0}))
        router = ServerConfig(document_root=self._docroot, locations=lcs).get_location_router()
        router.set_default_handler(lambda request: GeminiResponse(status=51, meta="default"))
        chosen: list = []
        for i, r in enumerate(router.routes):
            def wrap(h, i=i):
                def call(request):
                    chosen.append(i)
                    return h(request)
                return call
            r.handler = wrap(r.handler)
        if fresh:
            return router, chosen
        if len(self._routers) > 400:
            self._routers.clear()
        self._routers[key] = (router, chosen)
        return router, chosen

    def _init_common(self):
        from ..sim import url_upstream as U

        self._routers: dict = {}
        # one empty directory shared by all runs and worker processes (pool workers do not run atexit handlers: a directory
        # per process would be left behind); it is never written to and never removed
        self._docroot = os.path.join(tempfile.gettempdir(), "nv-c17-docroot")
        os.makedirs(self._docroot, exist_ok=True)
        self.loop = U.quiet_loop()

    def model(self, case):
        line = case["line"]
        locs = case["locs"]
        if not G.model_applicable(line):
            return None
        ip1, nf1 = G.oracle_bits(line)
        # bits for the URL the proxy will build, according to the specification
        ip2, nf2 = 1, 1
        try:
            path, query = spec_split(line)
            i = spec_location(locs, path)
            if i is not None and locs[i]["type"] == "proxy":
                url = spec_url(locs[i], path, query)
                if not G.model_applicable(url):
                    return None
                ip2, nf2 = G.oracle_bits(url)
        except ValueError:
            pass
        ls = ";".join(f"s:{cps(l['prefix'])}" if l["type"] == "static" else f"x:{cps(l['prefix'])}:{1 if l['strip'] else 0}:{cps(l['upstream'])}" for l in locs)
        return f"pcase {cps(line)} {ip1} {nf1} {ip2} {nf2} {ls or '-'}"

    def expect(self, case, out):
        assert out.startswith("ok "), out
        w = out[3:].split(" ")
        if w[0] == "rejected":
            return {"req": "rejected"}
        if w[0] == "default":
            return {"req": "ok", "route": "default"}
        i = int(w[0])
        if w[1] == "static":
            return {"req": "ok", "route": i, "kind": "static"}
        if w[2] == "invalid":
            return {"req": "ok", "route": i, "kind": "proxy", "conns": [], "sent": [], "status": 43}
        return {"req": "ok", "route": i, "kind": "proxy", "conns": [[uncps(w[2]), int(w[3])]], "sent": [uncps(w[4]) + "\r\n"]}

    def same(self, expected, obs):
        for k, v in expected.items():
            if obs.get(k) != v:
                return False
        return True

    def oracle(self, case, obs):
        if obs["req"] != "ok":
            return None
        line, locs = case["line"], case["locs"]
        try:
            path, query = spec_split(line)
        except ValueError:
            return None
        i = spec_location(locs, path)
        want_route = "default" if i is None else i
        if obs["route"] != want_route:
            return ("route-order", f"path {path!r} must be served by location {want_route} (first matching prefix), was served by {obs['route']}")
        if i is None or locs[i]["type"] != "proxy":
            if obs.get("conns"):
                return ("connect-without-proxy", f"a non-proxy location made connections {obs['conns']}")
            return None
        loc = locs[i]
        want_url = spec_url(loc, path, query)
        try:
            uh, uport = spec_hostport(loc["upstream"])
        except ValueError:
            return None
        for c in obs["conns"]:
            if [c[0], c[1]] != [uh, uport]:
                return ("foreign-host", f"request {line!r} made the proxy contact {c} instead of its upstream {[uh, uport]}")
        if len(obs["conns"]) > 1:
            return ("many-connections", f"{len(obs['conns'])} upstream connections for one request")
        if not obs["conns"]:
            # nothing was fetched: legitimate only when the built URL is not a valid request (too long, bad configured port, …)
            try:
                wh, wp = spec_hostport(want_url)
                valid = wh == uh and wp == uport and uh and len(want_url.encode()) + 2 <= 1024 and want_url.isascii()
            except ValueError:
                valid = False
            if valid:
                return ("not-forwarded", f"request {line!r} was not forwarded (status {obs.get('status')}) although the upstream URL {want_url!r} is valid")
            return None
        sent = obs["sent"][0]
        if not sent.endswith("\r\n") or "\r\n" in sent[:-2]:
            return ("request-line-framing", f"upstream request {sent!r} is not one line")
        s = up.urlsplit(sent[:-2])
        base = loc["upstream"].rstrip("/")
        want_path = up.urlsplit(base).path + spec_mapped(loc_prefix(loc["prefix"]), loc["strip"], path)
        if s.path != want_path:
            return ("path-mapping", f"request {line!r} via location {loc}: upstream path {s.path!r}, expected {want_path!r}")
        if s.query != query:
            return ("query-mapping", f"request {line!r}: upstream query {s.query!r}, expected {query!r}")
        if (s.hostname, s.port if s.port is not None else 1965) != (uh, uport):
            return ("request-line-host", f"upstream request line {sent!r} names another server than {loc['upstream']!r}")
        if case.get("canonical_upstream") and sent[:-2] != want_url:
            return ("url-text", f"upstream request {sent[:-2]!r} differs from base + mapped path + query = {want_url!r}")
        return None

    def key(self, case, obs):
        if obs["req"] != "ok":
            return "rejected"
        if obs["route"] == "default":
            return "default"
        loc = case["locs"][obs["route"]]
        if loc["type"] == "static":
            return f"static:n={len(case['locs'])}"
        path, _ = spec_split(case["line"])
        pre = loc_prefix(loc["prefix"])
        rem = path[len(pre):]
        cls = ("nostrip" if not loc["strip"] else "stripped" if pre.endswith("/") or rem == "" or rem.startswith("/") else "kept-inside-segment")
        if len(path) > 800:
            cls += ":long"
        over = sum(1 for l in case["locs"] if path.startswith(loc_prefix(l["prefix"])))
        return f"proxy:{cls}:overlap={min(over, 3)}:q={'y' if '?' in case['line'] else 'n'}:{'43' if obs.get('status') == 43 else 'fwd'}"


class Map(_Base):
    name = "map"
    quick_n = 12000
    thorough_n = 250000

    def setup(self):
        from ..sim import url_upstream as U

        if getattr(self, "_ready", False):
            return
        self._init_common()
        self.inter = U.Interposer(self.loop)
        self._ready = True

    def gen(self, rng: random.Random, n: int):
        fixed = [
            ({"type": "proxy", "prefix": "/api", "upstream": "gemini://up.example", "strip": True}, ["/apikey", "/api", "/api/", "/api/x", "/api/x?q", "/apix?", "/api;p", "/api//x", "/API/x", "/ap"]),
            ({"type": "proxy", "prefix": "/api/", "upstream": "gemini://up.example:7070/base/", "strip": True}, ["/api/", "/api/x;p?a?b", "/api", "/api/@decoy.example:7070/", "/api//decoy.example/", "/api/%2F..%2Fx"]),
            ({"type": "proxy", "prefix": "/", "upstream": "gemini://up.example/", "strip": False}, ["", "/", "//decoy.example:7070/x", "/@decoy.example", "/:7070", "/a b", "/?", "?q"]),
            ({"type": "proxy", "prefix": "", "upstream": "gemini://[::1]:7070/v6", "strip": True}, ["/x", "/"]),
        ]
        det = [{"locs": [loc], "line": "gemini://front.example" + p} for loc, paths in fixed for p in paths]
        det.append({"locs": [{"type": "static", "prefix": "/api/"}, {"type": "proxy", "prefix": "/api", "upstream": "gemini://up.example", "strip": True}, {"type": "static", "prefix": "/"}],
                    "line": "gemini://front.example/api/x"})
        det.append({"locs": [{"type": "proxy", "prefix": "/api", "upstream": "gemini://up.example", "strip": True}, {"type": "static", "prefix": "/api/"}], "line": "gemini://front.example/api/x"})
        cnt = 0
        for c in self.share(det):  # every process runs its part of the fixed list (harness/README "Sharding pitfall")
            cnt += 1
            yield c
        locs = None
        for k in range(max(0, n - cnt)):
            if locs is None or k % 6 == 0:
                locs = gen_locs(rng)
            yield {"locs": locs, "line": gen_line(rng, locs)}

    def impl(self, case):
        from nauyaca.protocol.request import GeminiRequest

        router, chosen = self._router(case["locs"])
        try:
            req = GeminiRequest.from_line(case["line"])
        except ValueError:
            return {"req": "rejected"}
        chosen.clear()
        self.inter.records.clear()
        try:
            res = router.route(req)
            if asyncio.iscoroutine(res):
                res = self.loop.run_until_complete(res)
            status = res.status
        except Exception as e:  # noqa: BLE001  (a handler that raises is answered with 40 by the server layer; C01)
            status = "raised:" + type(e).__name__
        route = chosen[0] if chosen else "default"
        obs = {"req": "ok", "route": route, "status": status}
        if route != "default":
            obs["kind"] = case["locs"][route]["type"]
        obs["conns"] = [[r["host"], r["port"]] for r in self.inter.records]
        obs["sent"] = [r.get("written", b"").decode("utf-8", "surrogateescape") for r in self.inter.records]
        return obs

    def expect(self, case, out):
        e = super().expect(case, out)
        if e.get("kind") == "proxy" and e.get("conns"):
            e["status"] = 20
        return e


class Live(_Base):
    name = "live"
    quick_n = 150
    thorough_n = 2500
    parallel = False

    def setup(self):
        from ..sim import url_upstream as U

        if getattr(self, "_ready", False):
            return
        self._init_common()
        self.up = self.loop.run_until_complete(U.Upstream().start())
        self.decoys = [self.loop.run_until_complete(U.Upstream().start()) for _ in range(2)]
        ok = {"actions": [["send", b"20 text/plain\r\nok".hex()], ["close"]]}
        self.okscript = ok
        self._ready = True

    def gen(self, rng: random.Random, n: int):
        # ports are only known at run time: `$U` / `$D0` / `$D1` are substituted in impl
        ups = ["gemini://127.0.0.1:$U", "gemini://127.0.0.1:$U/", "gemini://127.0.0.1:$U/base", "gemini://127.0.0.1:$U/base/"]
        hosts = ["127.0.0.1:$D0", "127.0.0.1:$D1", "localhost:$D0", "front.example", "127.0.0.1:$U"]
        evil = ["/@127.0.0.1:$D0/", "//127.0.0.1:$D0/x", "/x@127.0.0.1:$D1", "/:$D0", "/%40127.0.0.1:$D0", "/\\127.0.0.1:$D0", "/;@127.0.0.1:$D0", "/../@127.0.0.1:$D0/", "/x?@127.0.0.1:$D0", "/x?//127.0.0.1:$D1/"]
        for k in range(n):
            pre = rng.choice(["/", "/api", "/api/", "/a/b/"])
            locs = [{"type": "proxy", "prefix": pre, "upstream": rng.choice(ups), "strip": rng.random() < 0.6}]
            if rng.random() < 0.4:
                locs.insert(rng.choice([0, 1]), {"type": "static", "prefix": rng.choice(["/", "/api/", "/s/"])})
            r = rng.random()
            if r < 0.4:
                path = loc_prefix(pre).rstrip("/") + rng.choice(evil)
            elif r < 0.7:
                path = path_near(rng, locs)
            else:
                path = G.gen_path(rng)
            q = rng.choice(["", "?q", "?a?b", "?@127.0.0.1:$D0", ""])
            yield {"locs": locs, "line": "gemini://" + rng.choice(hosts) + path + q, "canonical_upstream": True}

    def _subst(self, s: str) -> str:
        return s.replace("$U", str(self.up.port)).replace("$D0", str(self.decoys[0].port)).replace("$D1", str(self.decoys[1].port))

    def _concrete(self, case):
        locs = [dict(l, upstream=self._subst(l["upstream"])) if l["type"] == "proxy" else l for l in case["locs"]]
        return {"locs": locs, "line": self._subst(case["line"]), "canonical_upstream": True}

    def impl(self, case):
        from nauyaca.protocol.request import GeminiRequest

        c = self._concrete(case)
        router, chosen = self._router(c["locs"])
        try:
            req = GeminiRequest.from_line(c["line"])
        except ValueError:
            return {"req": "rejected"}
        chosen.clear()
        for s in [self.up] + self.decoys:
            s.reset(self.okscript)
        async def run():
            try:
                res = router.route(req)
                if asyncio.iscoroutine(res):
                    res = await res
                status = res.status
            except Exception as e:  # noqa: BLE001
                status = "raised:" + type(e).__name__
            for s in [self.up] + self.decoys:
                await s.quiesce()
            return status

        status = self.loop.run_until_complete(run())
        route = chosen[0] if chosen else "default"
        obs = {"req": "ok", "route": route, "status": status}
        if route != "default":
            obs["kind"] = c["locs"][route]["type"]
        obs["conns"] = [["127.0.0.1", self.up.port]] * self.up.connections + [["decoy", i] for i, d in enumerate(self.decoys) for _ in range(d.connections)]
        obs["sent"] = [bytes.fromhex(e["line"]).decode("utf-8", "surrogateescape") for e in self.up.log]
        obs["ports"] = {"U": self.up.port, "D0": self.decoys[0].port, "D1": self.decoys[1].port}
        return obs

    def model(self, case):
        return super().model(self._concrete(case))

    def expect(self, case, out):
        e = super().expect(self._concrete(case), out)
        if e.get("kind") == "proxy" and e.get("conns"):
            e["status"] = 20
        return e

    def oracle(self, case, obs):
        if obs.get("req") == "ok":
            for c in obs.get("conns", []):
                if c[0] == "decoy":
                    return ("foreign-host", f"request {self._subst(case['line'])!r} made the proxy connect to decoy server {c[1]}")
        return super().oracle(self._concrete(case), obs)

    def key(self, case, obs):
        return super().key(self._concrete(case), obs)


class Concurrent(_Base):
    """Several requests in flight through ONE router / ProxyHandler at the same time.  The upstream (recorder)
    answers each connection after a delay with an echo of the request line it received, so every client can
    tell whether it got the answer to its own URL."""
    name = "conc"
    quick_n = 1600
    thorough_n = 30000

    def setup(self):
        from ..sim import url_upstream as U

        if getattr(self, "_ready", False):
            return
        self._init_common()
        self._delays = [0.01]
        self._connect = [0.0]

        def index(rec):
            return next(i for i, r in enumerate(self.inter.records) if r is rec)

        def responder(rec):
            return self._delays[index(rec) % len(self._delays)], b"20 text/plain\r\n" + rec.get("written", b"")

        def connector(rec):
            # the k-th connection attempt of the case takes connect[k] ms to come up (0: up at the next loop iteration)
            return self._connect[index(rec) % len(self._connect)]

        self.inter = U.Interposer(self.loop, responder=responder, connector=connector)
        self._ready = True

    def gen(self, rng: random.Random, n: int):
        api = {"type": "proxy", "prefix": "/api", "upstream": "gemini://up.example", "strip": True}
        base = {"type": "proxy", "prefix": "/", "upstream": "gemini://up.example:7070/base", "strip": False}
        det = [
            {"locs": [api], "reqs": [["gemini://front.example/api/search?cats", 0], ["gemini://front.example/api/search?dogs", 2]], "delays": [20]},
            {"locs": [api], "reqs": [["gemini://front.example/api/search?a", 0], ["gemini://front.example/api/search", 0], ["gemini://front.example/api/search?", 1]], "delays": [15, 5]},
            {"locs": [api], "reqs": [["gemini://front.example/api/x?1", 0], ["gemini://front.example/api/x?1", 0], ["gemini://front.example/api/x?2", 0]], "delays": [10]},
            {"locs": [api, base], "reqs": [["gemini://front.example/api/x?q", 0], ["gemini://front.example/x?q", 0], ["gemini://front.example/apix?q", 0]], "delays": [10, 3]},
            {"locs": [base], "reqs": [["gemini://front.example/p?%s" % i, i] for i in range(6)], "delays": [30, 1, 12]},
            {"locs": [api], "reqs": [["gemini://front.example/api/a?x", 0], ["gemini://front.example/api/a?y", 40]], "delays": [5]},   # not overlapping
            # connections that take time to come up ("connect": ms per connection attempt, in the order the attempts are made):
            # a second request arrives while the first is still connecting; the later one is up first; all connect together
            {"locs": [api], "reqs": [["gemini://front.example/api/search?cats", 0], ["gemini://front.example/api/search?dogs", 2]], "delays": [5], "connect": [8]},
            {"locs": [api], "reqs": [["gemini://front.example/api/inbox?alice", 0], ["gemini://front.example/api/inbox?bob", 1]], "delays": [3], "connect": [12, 1]},
            {"locs": [base], "reqs": [["gemini://front.example/p/%s?t=%s" % (i, i), 0] for i in range(4)], "delays": [2, 9], "connect": [0]},
            {"locs": [api, base], "reqs": [["gemini://front.example/api/x?q", 0], ["gemini://front.example/x?q", 1], ["gemini://front.example/api/x", 3]], "delays": [4], "connect": [6, 2, 0]},
        ]
        cnt = 0
        for c in self.share(det):
            cnt += 1
            yield c
        ups = ["gemini://up.example", "gemini://up.example:7070", "gemini://up.example/base", "gemini://10.0.0.9:70/a/b"]
        pool = []
        for _ in range(10):   # a few configurations, many request groups each (building a handler is the expensive part)
            locs = []
            for _ in range(rng.choice([1, 1, 2, 3])):
                if rng.random() < 0.85:
                    locs.append({"type": "proxy", "prefix": rng.choice(["/", "/api", "/api/", "/a/b/", "/apikey"]), "upstream": rng.choice(ups), "strip": rng.random() < 0.6})
                else:
                    locs.append({"type": "static", "prefix": rng.choice(["/", "/s/", "/api/"])})
            pool.append(locs)
        for _ in range(max(0, n - cnt)):
            locs = rng.choice(pool)
            k = rng.choice([2, 2, 3, 4, 6])
            paths = [path_near(rng, locs) for _ in range(2)]
            paths = [p for p in paths if p.isascii() and " " not in p and "\\" not in p and "?" not in p] or ["/api/x"]
            reqs = []
            for i in range(k):
                r = rng.random()
                path = paths[0] if r < 0.75 else rng.choice(paths)
                q = rng.choice(["", "?", "?q", "?q=%d" % i, "?%d" % i, "?a?b", "?" + "z" * rng.randrange(1, 30)])
                if i and rng.random() < 0.15:
                    reqs.append([reqs[rng.randrange(len(reqs))][0], rng.choice([0, 0, 1, 3])])   # the very same URL again
                else:
                    reqs.append(["gemini://" + rng.choice(["front.example", "front.example:1966", "decoy.example:7070"]) + path + q, rng.choice([0, 0, 0, 1, 2, 5, 14])])
            yield {"locs": locs, "reqs": reqs, "delays": [rng.choice([1, 3, 6, 10]) for _ in range(rng.choice([1, 2, 3]))],
                   "connect": [rng.choice([0, 0, 0, 1, 2, 4, 8, 15]) for _ in range(rng.choice([1, 1, 2, 3]))]}

    def impl(self, case):
        from nauyaca.protocol.request import GeminiRequest

        router, chosen = self._router(case["locs"])
        self.inter.records.clear()
        self._delays = [d / 1000 for d in case["delays"]]
        self._connect = [d / 1000 for d in case.get("connect", [0])]
        results = self.loop.run_until_complete(self._in_flight(router, chosen, case["reqs"]))
        return {"results": results, "conns": [[r["host"], r["port"]] for r in self.inter.records],
                "sent": [r.get("written", b"").decode("utf-8", "surrogateescape") for r in self.inter.records]}

    @staticmethod
    async def _in_flight(router, chosen, reqs):
        """all requests of the case through one router, each started at its own time (ms), all awaited together"""
        from nauyaca.protocol.request import GeminiRequest

        async def one(line, start_ms):
            if start_ms:
                await asyncio.sleep(start_ms / 1000)
            try:
                req = GeminiRequest.from_line(line)
            except ValueError:
                return ["rejected"]
            try:
                before = len(chosen)
                res = router.route(req)   # appends to `chosen` synchronously when a registered route is called
                route = chosen[-1] if len(chosen) > before else "default"
                if asyncio.iscoroutine(res):
                    res = await res
            except Exception as e:  # noqa: BLE001
                return ["raised", type(e).__name__]
            body = res.body if isinstance(res.body, (bytes, bytearray)) else (res.body or "").encode("utf-8", "replace") if isinstance(res.body, str) else b""
            return ["ok", route, res.status, bytes(body).decode("utf-8", "replace")]

        chosen.clear()
        return await asyncio.gather(*[one(l, s) for l, s in reqs])

    def model(self, case):
        locs = case["locs"]
        ls = ";".join(f"s:{cps(l['prefix'])}" if l["type"] == "static" else f"x:{cps(l['prefix'])}:{1 if l['strip'] else 0}:{cps(l['upstream'])}" for l in locs)
        return f"pcasen 1 1 1 1 {ls or '-'} " + ";".join(cps(l) for l, _ in case["reqs"])

    def expect(self, case, out):
        exp = []
        for part in out.split(" ; "):
            e = _Base.expect(self, case, part)
            exp.append(e)
        return exp

    def same(self, expected, obs):
        want_sent = []
        for e, r in zip(expected, obs["results"]):
            if e["req"] == "rejected":
                if r[0] != "rejected":
                    return False
                continue
            if r[0] != "ok" or r[1] != e["route"]:
                return False
            if e.get("kind") == "proxy":
                if e.get("sent"):
                    want_sent.append(e["sent"][0])
                    if r[2] != 20 or r[3] != e["sent"][0]:
                        return False
                elif r[2] != 43:
                    return False
        return sorted(want_sent) == sorted(obs["sent"])

    def oracle(self, case, obs):
        locs = case["locs"]
        wanted: dict = {}
        for (line, _), r in zip(case["reqs"], obs["results"]):
            if r[0] != "ok":
                continue
            path, query = spec_split(line)
            i = spec_location(locs, path)
            want_route = "default" if i is None else i
            if r[1] != want_route:
                return ("route-order", f"path {path!r} must be served by location {want_route}, was served by {r[1]} (with {len(case['reqs'])} requests in flight)")
            if i is None or locs[i]["type"] != "proxy":
                continue
            url = spec_url(locs[i], path, query)
            if len(url) + 2 > 1024:
                continue
            wanted[url] = wanted.get(url, 0) + 1
            if r[2] == 20 and r[3] != url + "\r\n":
                return ("cross-talk", f"client asked {line!r} (upstream URL {url!r}) but received the answer to {r[3]!r}; requests in flight: {[l for l, _ in case['reqs']]}")
            if r[2] != 20:
                return ("not-forwarded", f"request {line!r} was answered {r[2]} with {len(case['reqs'])} requests in flight")
            uh, uport = spec_hostport(locs[i]["upstream"])
            for c in obs["conns"]:
                if [c[0], c[1]] not in [list(spec_hostport(l["upstream"])) for l in locs if l["type"] == "proxy"]:
                    return ("foreign-host", f"the proxy contacted {c}")
        sent = [s[:-2] if s.endswith("\r\n") else s for s in obs["sent"]]
        for url, m in wanted.items():
            k = sent.count(url)
            if k == 0:
                return ("url-not-requested", f"upstream URL {url!r} was never requested upstream; upstream saw {sent}")
            if k > m:
                return ("extra-upstream-request", f"upstream URL {url!r} was requested {k} times for {m} client request(s)")
        for sline in sent:
            if sline not in wanted:
                return ("extra-upstream-request", f"upstream saw {sline!r}, which no client asked for; wanted {sorted(wanted)}")
        return None

    def key(self, case, obs):
        n = len(case["reqs"])
        urls = [l for l, _ in case["reqs"]]
        paths = {spec_split(l)[0] for l in urls}
        dup = len(set(urls)) < n
        overlap = max(s for _, s in case["reqs"]) <= max(case["delays"])
        fwd = sum(1 for r in obs["results"] if r[0] == "ok" and r[2] == 20)
        cmax = max(case.get("connect", [0]))
        overlap = overlap or max(s for _, s in case["reqs"]) <= max(case["delays"]) + cmax
        return (f"n={n}:paths={min(len(paths), 3)}:dup={'y' if dup else 'n'}:overlap={'y' if overlap else 'n'}:"
                f"connect={'next-iteration' if cmax == 0 else '<=4ms' if cmax <= 4 else '>4ms'}:fwd={min(fwd, 4)}")


class Overlap(Concurrent):
    """Real TLS on loopback: several requests in flight at once through ONE fresh deployment (router -> ProxyHandler ->
    its GeminiClient -> real sockets).  The upstream echoes the request line it received after a scripted pause; decoy
    servers count connections.  Every client must get the answer to its own mapped URL, the upstream must have been
    asked exactly the mapped URLs, nobody else may be contacted.  (`$U`, `$D0`, `$D1` = ports known at run time.)"""
    name = "overlap"
    quick_n = 32
    thorough_n = 500
    parallel = False

    def setup(self):
        from ..sim import url_upstream as U

        if getattr(self, "_ready", False):
            return
        self._init_common()
        fam = self

        class EchoUpstream(U.Upstream):
            async def _handle(self, reader, writer):
                task = asyncio.current_task()
                if task is not None:
                    self.tasks.add(task)
                    task.add_done_callback(self.tasks.discard)
                k = self.connections
                self.connections += 1
                entry = {"line": "", "peer": "loopback"}
                self.log.append(entry)
                try:
                    try:
                        data = await asyncio.wait_for(reader.readuntil(b"\r\n"), timeout=1.5)
                    except asyncio.IncompleteReadError as e:
                        data = e.partial
                    except (asyncio.LimitOverrunError, asyncio.TimeoutError, TimeoutError):
                        data = b""
                    entry["line"] = data.hex()
                    await asyncio.sleep(fam._delays[k % len(fam._delays)])
                    writer.write(b"20 text/plain\r\n" + data)
                    await writer.drain()
                    writer.close()
                except (ConnectionError, OSError):
                    entry["error"] = "io"
                except asyncio.CancelledError:
                    writer.transport.abort()

        self._delays = [0.01]
        self.up = self.loop.run_until_complete(EchoUpstream().start())
        self.decoys = [self.loop.run_until_complete(U.Upstream().start()) for _ in range(2)]
        self.okscript = {"actions": [["send", b"20 text/plain\r\nDECOY".hex()], ["close"]]}
        self._ready = True

    def gen(self, rng: random.Random, n: int):
        root = {"type": "proxy", "prefix": "/", "upstream": "gemini://127.0.0.1:$U", "strip": False}
        api = {"type": "proxy", "prefix": "/api", "upstream": "gemini://127.0.0.1:$U/base/", "strip": True}
        F = "gemini://front.example"
        det = [
            {"locs": [root], "reqs": [[F + "/alice/inbox?token=A", 0], [F + "/bob/inbox?token=B", 0], [F + "/public/index.gmi", 0], [F + "/carol;v=1/x", 0]], "delays": [5]},
            {"locs": [api], "reqs": [[F + "/api/search?cats", 0], [F + "/api/search?dogs", 1]], "delays": [20, 2]},
            {"locs": [api, root], "reqs": [[F + "/api/x?q", 0], [F + "/x?q", 0], [F + "/apix?q", 2], ["gemini://127.0.0.1:$D0/api/x", 2]], "delays": [3, 12]},
            {"locs": [root], "reqs": [[F + "/p?%s" % i, 3 * i] for i in range(5)], "delays": [25, 1, 8]},
            {"locs": [api], "reqs": [[F + "/api/a?x", 0], [F + "/api/a?y", 120]], "delays": [5]},      # one after the other
        ]
        cnt = 0
        for c in self.share(det):
            cnt += 1
            yield c
        ups = ["gemini://127.0.0.1:$U", "gemini://127.0.0.1:$U/", "gemini://127.0.0.1:$U/base", "gemini://localhost:$U/base/"]
        hosts = ["front.example", "front.example:1966", "127.0.0.1:$D0", "localhost:$D1", "127.0.0.1:$U"]
        for _ in range(max(0, n - cnt)):
            locs = [{"type": "proxy", "prefix": rng.choice(["/", "/api", "/api/", "/a/b/"]), "upstream": rng.choice(ups), "strip": rng.random() < 0.6}]
            if rng.random() < 0.3:
                locs.append({"type": "proxy", "prefix": "/", "upstream": rng.choice(ups), "strip": rng.random() < 0.5})
            paths = [path_near(rng, locs) for _ in range(2)]
            paths = [p for p in paths if p.isascii() and " " not in p and "\\" not in p and "?" not in p] or ["/api/x"]
            reqs = []
            for i in range(rng.choice([2, 2, 3, 4, 6])):
                path = paths[0] if rng.random() < 0.7 else rng.choice(paths)
                q = rng.choice(["", "?q", "?q=%d" % i, "?%d" % i, "?a?b", "?@127.0.0.1:$D0", "?" + "z" * rng.randrange(1, 30)])
                if i and rng.random() < 0.12:
                    reqs.append([reqs[rng.randrange(len(reqs))][0], rng.choice([0, 1, 3])])
                else:
                    reqs.append(["gemini://" + rng.choice(hosts) + path + q, rng.choice([0, 0, 0, 1, 2, 5, 14, 40])])
            yield {"locs": locs, "reqs": reqs, "delays": [rng.choice([1, 3, 6, 10, 25]) for _ in range(rng.choice([1, 2, 3]))]}

    def _subst(self, s: str) -> str:
        return s.replace("$U", str(self.up.port)).replace("$D0", str(self.decoys[0].port)).replace("$D1", str(self.decoys[1].port))

    def _concrete(self, case):
        locs = [dict(l, upstream=self._subst(l["upstream"])) if l["type"] == "proxy" else l for l in case["locs"]]
        return {"locs": locs, "reqs": [[self._subst(l), s] for l, s in case["reqs"]], "delays": case["delays"]}

    def impl(self, case):
        c = self._concrete(case)
        router, chosen = self._router(c["locs"], fresh=True)      # a fresh deployment (handler + its client) per case
        self._delays = [d / 1000 for d in c["delays"]]
        self.up.reset()
        for d in self.decoys:
            d.reset(self.okscript)

        async def go():
            rs = await self._in_flight(router, chosen, c["reqs"])
            for s in [self.up] + self.decoys:
                await s.quiesce()
            return rs

        results = self.loop.run_until_complete(go())
        conns = [["127.0.0.1", self.up.port]] * self.up.connections + [["decoy-server", i] for i, d in enumerate(self.decoys) for _ in range(d.connections)]
        return {"results": results, "conns": conns, "sent": [bytes.fromhex(e["line"]).decode("utf-8", "surrogateescape") for e in self.up.log],
                "ports": {"U": self.up.port, "D0": self.decoys[0].port, "D1": self.decoys[1].port}}

    def model(self, case):
        return super().model(self._concrete(case))

    def expect(self, case, out):
        return super().expect(self._concrete(case), out)

    def oracle(self, case, obs):
        c = self._concrete(case)
        for x in obs["conns"]:
            if x[0] == "decoy-server":
                return ("foreign-host", f"with requests {[l for l, _ in c['reqs']]} in flight the proxy connected to decoy server {x[1]}")
        # the upstream is reached through loopback whatever name the configuration uses for it
        obs = dict(obs, conns=[])
        return super().oracle(c, obs)

    def key(self, case, obs):
        return "tls:" + super().key(self._concrete(case), obs)


class Sequence(_Base):
    """A SEQUENCE of requests, one after the other, through one long-lived deployment (one router, hence one ProxyHandler
    and one upstream client per location, as in a running server).  The upstream answers what the case says for each
    step - pages, inputs, errors and redirects (30/31) to other servers, to other paths of the upstream, relative ones -
    and the same URLs come back later in the sequence.  Whatever was answered before, every request must again be
    forwarded to the configured upstream host:port only, as exactly the mapped URL."""
    name = "seq"
    quick_n = 640
    thorough_n = 16000

    REDIRECTS = ["gemini://decoy.example:7070/moved", "gemini://decoy.example:7070$P", "gemini://decoy.example/", "gemini://up.example/elsewhere", "gemini://up.example:7070/base/new?z",
                 "gemini://up.example$P/", "gemini://front.example/loop", "/relative", "other", "gemini://10.0.0.9:70/a/b/c", "titan://decoy.example:7070/up"]

    def setup(self):
        from ..sim import url_upstream as U

        if getattr(self, "_ready", False):
            return
        self._init_common()
        self._ups: set = set()
        self._answer = (20, "text/plain")

        def responder(rec):
            line = rec.get("written", b"")
            if (str(rec["host"]).lower(), rec["port"]) not in self._ups:
                return 0.0, b"20 text/plain\r\nDECOY " + line      # some other server of the world
            st, meta = self._answer
            return 0.0, f"{st} {meta}\r\n".encode("utf-8") + (line if 20 <= st <= 29 else b"")

        self.inter = U.Interposer(self.loop, responder=responder)
        self._ready = True

    def gen(self, rng: random.Random, n: int):
        api = {"type": "proxy", "prefix": "/api", "upstream": "gemini://up.example", "strip": True}
        base = {"type": "proxy", "prefix": "/", "upstream": "gemini://up.example:7070/base", "strip": False}
        F = "gemini://front.example"
        det = [
            {"locs": [api], "steps": [[F + "/api/old?x", 31, "gemini://decoy.example:7070/new"], [F + "/api/old?x", 20, "text/plain"], [F + "/api/old", 20, "text/plain"]]},
            {"locs": [api], "steps": [[F + "/api/old", 30, "gemini://decoy.example:7070/new"], [F + "/api/old", 30, "gemini://decoy.example:7070/new"], ["gemini://other.example:1966/api/old", 20, "text/gemini"]]},
            {"locs": [base], "steps": [[F + "/doc", 31, "gemini://up.example:7070/base/doc/"], [F + "/doc", 31, "gemini://up.example:7070/base/doc/"], [F + "/doc/", 20, "text/gemini"], [F + "/doc", 20, "text/gemini"]]},
            {"locs": [api, base], "steps": [[F + "/api/a?1", 31, "gemini://up.example/b?1"], [F + "/api/b?1", 31, "gemini://up.example/a?1"], [F + "/api/a?1", 51, "gone"], [F + "/b?1", 31, "gemini://decoy.example/"], [F + "/b?1", 20, "text/plain"]]},
            {"locs": [base], "steps": [[F + "/in", 10, "Your name"], [F + "/in?Ann", 31, "gemini://decoy.example:7070/hello?Ann"], [F + "/in", 10, "Your name"], [F + "/in?Ann", 20, "text/plain"], [F + "/in?Bob", 20, "text/plain"]]},
            {"locs": [api], "steps": [[F + "/api/x", 44, "5"], [F + "/api/x", 62, "certificate not valid"], [F + "/api/x", 31, "/relative"], [F + "/api/x", 20, "text/plain"]]},
        ]
        cnt = 0
        for c in self.share(det):
            cnt += 1
            yield c
        ups = ["gemini://up.example", "gemini://up.example:7070", "gemini://up.example/base", "gemini://10.0.0.9:70/a/b"]
        for _ in range(max(0, n - cnt)):
            locs = []
            for _ in range(rng.choice([1, 1, 2, 3])):
                if rng.random() < 0.85:
                    locs.append({"type": "proxy", "prefix": rng.choice(["/", "/api", "/api/", "/a/b/", "/apikey"]), "upstream": rng.choice(ups), "strip": rng.random() < 0.6})
                else:
                    locs.append({"type": "static", "prefix": rng.choice(["/", "/s/", "/api/"])})
            paths = [path_near(rng, locs) for _ in range(3)]
            paths = [p for p in paths if p.isascii() and " " not in p and "\\" not in p and "?" not in p] or ["/api/x"]
            urls = [p + rng.choice(["", "", "?", "?q", "?a=b&c=d", "?a?b", "?" + "z" * rng.randrange(1, 30)]) for p in paths for _ in range(2)][:rng.choice([1, 2, 3, 4])]
            sticky: dict = {}
            steps = []
            for k in range(rng.choice([2, 3, 4, 6, 8])):
                u = urls[0] if rng.random() < 0.55 else rng.choice(urls)
                if u not in sticky or rng.random() < 0.15:
                    r = rng.random()
                    if r < 0.4:
                        sticky[u] = [rng.choice([20, 20, 21]), rng.choice(["text/plain", "text/gemini; charset=utf-8", "application/octet-stream"])]
                    elif r < 0.85:
                        tgt = rng.choice(self.REDIRECTS).replace("$P", u.split("?")[0])
                        sticky[u] = [rng.choice([31, 31, 31, 30, 30, 39]), tgt]
                    else:
                        sticky[u] = rng.choice([[10, "Enter"], [11, "Secret"], [44, "10"], [51, "Not found"], [52, "Gone"], [60, "certificate needed"]])
                host = rng.choice(["front.example", "front.example", "front.example:1966", "decoy.example:7070", "up.example"])
                steps.append(["gemini://" + host + u] + list(sticky[u]))
            yield {"locs": locs, "steps": steps}

    def impl(self, case):
        from nauyaca.protocol.request import GeminiRequest

        router, chosen = self._router(case["locs"], fresh=True)
        self._ups = set()
        for l in case["locs"]:
            if l["type"] == "proxy":
                try:
                    h, p = spec_hostport(l["upstream"])
                    self._ups.add(((h or "").lower(), p))
                except ValueError:
                    pass
        out = []
        for line, st, meta in case["steps"]:
            try:
                req = GeminiRequest.from_line(line)
            except ValueError:
                out.append({"req": "rejected"})
                continue
            chosen.clear()
            self.inter.records.clear()
            self._answer = (st, meta)
            try:
                res = router.route(req)
                if asyncio.iscoroutine(res):
                    res = self.loop.run_until_complete(res)
                status, rmeta = res.status, res.meta
            except Exception as e:  # noqa: BLE001
                status, rmeta = "raised:" + type(e).__name__, ""
            route = chosen[0] if chosen else "default"
            o = {"req": "ok", "route": route, "status": status, "meta": rmeta}
            if route != "default":
                o["kind"] = case["locs"][route]["type"]
            o["conns"] = [[r["host"], r["port"]] for r in self.inter.records]
            o["sent"] = [r.get("written", b"").decode("utf-8", "surrogateescape") for r in self.inter.records]
            out.append(o)
        return {"steps": out}

    def model(self, case):
        locs = case["locs"]
        ls = ";".join(f"s:{cps(l['prefix'])}" if l["type"] == "static" else f"x:{cps(l['prefix'])}:{1 if l['strip'] else 0}:{cps(l['upstream'])}" for l in locs)
        return f"pcasen 1 1 1 1 {ls or '-'} " + ";".join(cps(s[0]) for s in case["steps"])

    def expect(self, case, out):
        return [_Base.expect(self, case, part) for part in out.split(" ; ")]

    def same(self, expected, obs):
        if len(expected) != len(obs["steps"]):
            return False
        return all(_Base.same(self, e, o) for e, o in zip(expected, obs["steps"]))

    def oracle(self, case, obs):
        hist = []
        for k, ((line, st, meta), o) in enumerate(zip(case["steps"], obs["steps"])):
            v = _Base.oracle(self, {"locs": case["locs"], "line": line}, o)
            if v is not None:
                before = "; ".join(hist) or "nothing"
                return (v[0], f"step {k + 1} of a sequence through one deployment (before it: {before}): {v[1]}")
            if o["req"] == "ok" and o.get("kind") == "proxy" and o.get("conns") and (o["status"], o["meta"]) != (st, meta):
                return ("answer-of-another-request", f"step {k + 1}: request {line!r} was answered {o['status']} {o['meta']!r}, the upstream answered {st} {meta!r} to it (before it: {'; '.join(hist) or 'nothing'})")
            hist.append(f"{line!r} -> upstream answered {st} {meta!r}")
        return None

    def key(self, case, obs):
        steps = case["steps"]
        seen31, repeat = set(), False
        for line, st, meta in steps:
            pq = line.split("//", 1)[1].partition("/")[2]
            if pq in seen31:
                repeat = True
            if st == 31:
                seen31.add(pq)
        foreign = any(30 <= st <= 39 and "decoy" in meta for _, st, meta in steps)
        fwd = sum(1 for o in obs["steps"] if o.get("conns"))
        return f"steps={len(steps)}:redirects={min(3, sum(1 for _, st, _ in steps if 30 <= st <= 39))}:asked-again-after-31={'y' if repeat else 'n'}:foreign-target={'y' if foreign else 'n'}:fwd={min(fwd, 4)}"


def path_repeat(rng, locs):
    """request paths in which a configured prefix occurs AGAIN right after itself (on and off a segment boundary): the
    mapping must be applied exactly once - a path that still begins with the prefix after stripping is forwarded as it is"""
    pre = loc_prefix(rng.choice(locs)["prefix"])
    bare = pre.rstrip("/")
    k = rng.choice([2, 2, 2, 3, 4])
    tail = rng.choice(["", "x", "/", "/x", "users", "/users/7", "key", "//x", ";p", "/a.gmi", "x/y;z=1", "/%2e%2e/"])
    r = rng.random()
    if r < 0.4:
        return pre * k + tail
    if r < 0.6:
        return (bare * k or "/" * k) + tail
    if r < 0.75:
        return pre + pre.lstrip("/") * (k - 1) + tail
    if r < 0.9:
        return bare + "/" + (bare.lstrip("/") + "/") * (k - 1) + tail.lstrip("/")
    return pre + "/" + pre.lstrip("/") + tail


class Flaky(_Base):
    """An upstream that is NOT well: connections to it are refused, never come up, are reset or closed before a header,
    carry half a header or a header that is none, stay silent until the location's timeout - and, on a later attempt or a
    later request, it may be well again.  Whatever the proxy makes of that (give up with 43, try again, try again later),
    EVERY connection it opens for a request goes to the configured upstream host:port and EVERY request line it writes is
    base + mapped path + query of that request, the mapping applied exactly once - also for paths in which the location
    prefix occurs again right after itself.  A sequence of requests runs through one fresh deployment (router from the real
    ServerConfig, real ProxyHandler and GeminiClient) on a virtual clock (`proxy_world.VLoop` / `Net`); the k-th connection
    attempt of a step meets the k-th fate the case names for it (the last one for all further attempts)."""
    name = "flaky"
    realtime = False    # virtual clock, no sockets: deterministic
    quick_n = 320
    thorough_n = 8000

    CONNECT = ("refuse", "never")                             # the connection never comes up
    COMPLETE = {"ok": (20, "text/plain"), "slow-ok": (20, "text/plain"), "notfound": (51, "Not found"),
                "redirect": (31, "gemini://decoy.example:7070/moved")}
    FAILING = ["refuse", "refuse", "reset", "reset", "close", "close", "partial", "garbage", "reset-mid", "silent", "never"]
    FATES = FAILING + list(COMPLETE)

    @classmethod
    def plan(cls, fate: str, line: bytes) -> dict:
        h = lambda b: b.hex()  # noqa: E731
        if fate in cls.COMPLETE:
            st, meta = cls.COMPLETE[fate]
            t = 0.4 if fate == "slow-ok" else 0.0
            return {"name": fate, "ev": [[t, "h", h(f"{st} {meta}\r\n".encode() + (line + b"\r\n" if st == 20 else b""))]], "end": ["close", t]}
        if fate == "reset":
            return {"name": fate, "ev": [], "end": ["reset", 0.0]}
        if fate == "close":
            return {"name": fate, "ev": [], "end": ["close", 0.0]}
        if fate == "partial":
            return {"name": fate, "ev": [[0.0, "h", h(b"20 text/pl")]], "end": ["close", 0.001]}
        if fate == "garbage":
            return {"name": fate, "ev": [[0.0, "h", h(b"HTTP/1.1 400 Bad Request\r\n\r\n")]], "end": ["close", 0.0]}
        if fate == "reset-mid":
            return {"name": fate, "ev": [[0.0, "h", h(b"20 text/plain\r\nhalf a pa")]], "end": ["reset", 0.002]}
        return {"name": fate, "ev": [], "end": ["hold", 0.0]}      # silent

    def setup(self):
        from ..sim import proxy_world as W

        if getattr(self, "_ready", False):
            return
        self._init_common()
        self.loop.close()
        self.loop = W.VLoop()
        self._ups: set = set()
        self._fates: list = ["ok"]
        self._attempt = 0

        def answer(host, port, line):
            mine = (str(host).lower(), port) in self._ups
            if line is None:       # a connection attempt (its record is the newest one)
                rec = self.net.records[-1]
                if not mine:
                    rec["fate"] = "other-server"
                    return "ok"
                fate = self._fates[min(self._attempt, len(self._fates) - 1)]
                self._attempt += 1
                rec["fate"] = fate
                return "refuse" if fate == "refuse" else "never" if fate == "never" else "ok"
            if not mine:
                return {"name": "decoy", "ev": [[0.0, "h", (b"20 text/plain\r\nDECOY " + line).hex()]], "end": ["close", 0.0]}
            # the connection this request line was written on: the oldest one that is up and was not served yet
            rec = next((r for r in self.net.records if "plan" not in r and r.get("fate") not in self.CONNECT + ("other-server",)
                        and bytes(r["written"]).split(b"\r\n", 1)[0] == line), None)
            return self.plan(rec["fate"] if rec else "close", line)

        self.net = W.Net(self.loop, answer)
        self._ready = True

    def gen(self, rng: random.Random, n: int):
        F = "gemini://front.example"
        apis = {"type": "proxy", "prefix": "/api/", "upstream": "gemini://up.example", "strip": True}
        api = {"type": "proxy", "prefix": "/api", "upstream": "gemini://up.example", "strip": True}
        v1 = {"type": "proxy", "prefix": "/v1", "upstream": "gemini://up.example:7070/base", "strip": True}
        root = {"type": "proxy", "prefix": "/", "upstream": "gemini://up.example:7070", "strip": True}
        keep = {"type": "proxy", "prefix": "/api", "upstream": "gemini://10.0.0.9:70/a/b", "strip": False}
        det = [
            {"locs": [apis], "steps": [[F + "/api/users?id=1", ["ok"]], [F + "/api/api/users?id=1", ["ok"]], [F + "/api/users?id=1", ["close", "ok"]], [F + "/api/api/users?id=1", ["close", "ok"]]]},
            {"locs": [v1], "steps": [[F + "/v1/v1/v1", ["refuse", "ok"]], [F + "/v1/v1/v1", ["reset", "reset", "ok"]], [F + "/v1v1/v1", ["close", "ok"]]]},
            {"locs": [root], "steps": [[F + "///x//y?q", ["refuse"]], [F + "//", ["reset", "ok"]], [F + "////", ["close", "close", "close"]]]},
            {"locs": [keep, root], "steps": [[F + "/api/api/x", ["close", "ok"]], [F + "/apiapi", ["refuse", "notfound"]], [F + "/x/x", ["partial", "ok"]]]},
            {"locs": [api], "steps": [[F + "/api/api/api/x?a?b", ["silent", "ok"]], [F + "/api/api", ["never", "ok"]], [F + "/api/api/", ["garbage", "ok"]], [F + "/api//api", ["reset-mid", "ok"]]]},
            {"locs": [apis, {"type": "static", "prefix": "/"}], "steps": [[F + "/api/api/api/", ["reset", "redirect"]], [F + "/api/api/api/", ["slow-ok"]], ["gemini://up.example/api/api/;p", ["partial", "slow-ok"]]]},
        ]
        cnt = 0
        for c in self.share(det):
            cnt += 1
            yield c
        ups = ["gemini://up.example", "gemini://up.example:7070", "gemini://up.example/base", "gemini://10.0.0.9:70/a/b"]
        for _ in range(max(0, n - cnt)):
            locs = []
            for _ in range(rng.choice([1, 1, 2, 3])):
                if rng.random() < 0.85:
                    locs.append({"type": "proxy", "prefix": rng.choice(["/", "/api", "/api/", "/a/b/", "/a/b", "/apikey", "/v1"]), "upstream": rng.choice(ups), "strip": rng.random() < 0.75})
                else:
                    locs.append({"type": "static", "prefix": rng.choice(["/", "/s/", "/api/"])})
            paths = [path_repeat(rng, locs) if rng.random() < 0.65 else path_near(rng, locs) for _ in range(3)]
            paths = [p for p in paths if p.isascii() and " " not in p and "\\" not in p and "?" not in p] or ["/api/api/x"]
            steps = []
            for _ in range(rng.choice([1, 2, 3, 4])):
                u = rng.choice(paths) + rng.choice(["", "", "?", "?q", "?a=b&c=d", "?a?b", "?" + "z" * rng.randrange(1, 30)])
                r = rng.random()
                if r < 0.2:
                    fates = [rng.choice(list(self.COMPLETE))]
                elif r < 0.75:
                    fates = [rng.choice(self.FAILING) for _ in range(rng.choice([1, 1, 2]))] + [rng.choice(["ok", "ok", "slow-ok", "notfound", "redirect"])]
                else:
                    fates = [rng.choice(self.FAILING) for _ in range(rng.choice([1, 2, 3]))]
                steps.append(["gemini://" + rng.choice(["front.example", "front.example", "front.example:1966", "decoy.example:7070", "up.example"]) + u, fates])
            yield {"locs": locs, "steps": steps}

    def impl(self, case):
        from nauyaca.protocol.request import GeminiRequest

        router, chosen = self._router(case["locs"], fresh=True)
        self._ups = set()
        for l in case["locs"]:
            if l["type"] == "proxy":
                try:
                    h, p = spec_hostport(l["upstream"])
                    self._ups.add(((h or "").lower(), p))
                except ValueError:
                    pass
        out = []
        for line, fates in case["steps"]:
            try:
                req = GeminiRequest.from_line(line)
            except ValueError:
                out.append({"req": "rejected"})
                continue
            chosen.clear()
            self.net.records.clear()
            self._fates, self._attempt = list(fates) or ["ok"], 0
            t0 = self.loop.time()
            body = ""
            try:
                res = router.route(req)
                if asyncio.iscoroutine(res):
                    res = self.loop.run_until_complete(res)
                status, rmeta = res.status, res.meta
                b = res.body
                body = b if isinstance(b, str) else bytes(b).decode("utf-8", "replace") if isinstance(b, (bytes, bytearray)) else ""
            except Exception as e:  # noqa: BLE001
                status, rmeta = "raised:" + type(e).__name__, ""
            took = round(self.loop.time() - t0, 3)
            self.loop.run_until_complete(asyncio.sleep(1.0))     # virtual: whatever is still scheduled for this step happens now
            route = chosen[0] if chosen else "default"
            o = {"req": "ok", "route": route, "status": status, "meta": rmeta, "body": body, "took": took}
            if route != "default":
                o["kind"] = case["locs"][route]["type"]
            o["conns"] = [[r["host"], r["port"]] for r in self.net.records]
            o["sent"] = [bytes(r.get("written", b"")).decode("utf-8", "surrogateescape") for r in self.net.records]
            o["fates"] = [r.get("fate", "?") for r in self.net.records]
            out.append(o)
        return {"steps": out}

    def model(self, case):
        locs = case["locs"]
        ls = ";".join(f"s:{cps(l['prefix'])}" if l["type"] == "static" else f"x:{cps(l['prefix'])}:{1 if l['strip'] else 0}:{cps(l['upstream'])}" for l in locs)
        return f"pcasen 1 1 1 1 {ls or '-'} " + ";".join(cps(s[0]) for s in case["steps"])

    def expect(self, case, out):
        return [_Base.expect(self, case, part) for part in out.split(" ; ")]

    def same(self, expected, obs):
        """the model knows one connection per request, to the upstream, carrying the mapped URL (nothing is written on a
        connection that never came up); what the proxy answers when the upstream fails is C18's matter"""
        if len(expected) != len(obs["steps"]):
            return False
        for e, o in zip(expected, obs["steps"]):
            for k in ("req", "route", "kind"):
                if k in e and o.get(k) != e[k]:
                    return False
            if "conns" not in e:
                continue
            if o.get("conns") != e["conns"]:
                return False
            if e["conns"] and o["sent"][0] != e["sent"][0] and not (o["sent"][0] == "" and o["fates"][0] in self.CONNECT):
                return False
        return True

    def judge_step(self, locs, line, o):
        if o["req"] != "ok":
            return None
        try:
            path, query = spec_split(line)
        except ValueError:
            return None
        i = spec_location(locs, path)
        want_route = "default" if i is None else i
        if o["route"] != want_route:
            return ("route-order", f"path {path!r} must be served by location {want_route} (first matching prefix), was served by {o['route']}")
        if i is None or locs[i]["type"] != "proxy":
            if o.get("conns"):
                return ("connect-without-proxy", f"a non-proxy location made connections {o['conns']}")
            return None
        loc = locs[i]
        want_url = spec_url(loc, path, query)
        uh, uport = spec_hostport(loc["upstream"])
        n = len(o["conns"])
        told = lambda k: (f"connection {k + 1} of {n} made for request {line!r} via location {loc}"  # noqa: E731
                          + (f" (the upstream had {', '.join(o['fates'][:k])} for the earlier one(s))" if k else ""))
        for k, c in enumerate(o["conns"]):
            if [c[0], c[1]] != [uh, uport]:
                return ("foreign-host", f"{told(k)} went to {c} instead of the upstream {[uh, uport]}")
        if not o["conns"]:
            if len(want_url.encode()) + 2 <= 1024:
                return ("not-forwarded", f"request {line!r} was not forwarded (status {o.get('status')}) although the upstream URL {want_url!r} is valid")
            return None
        base = loc["upstream"].rstrip("/")
        want_path = up.urlsplit(base).path + spec_mapped(loc_prefix(loc["prefix"]), loc["strip"], path)
        for k, sent in enumerate(o["sent"]):
            if sent == "" and o["fates"][k] in self.CONNECT:
                continue        # never came up: nothing could be written
            if not sent.endswith("\r\n") or "\r\n" in sent[:-2]:
                return ("request-line-framing", f"{told(k)}: upstream request {sent!r} is not one line")
            s = up.urlsplit(sent[:-2])
            if s.path != want_path:
                return ("path-mapping", f"{told(k)}: upstream was asked {sent[:-2]!r}: path {s.path!r}, expected {want_path!r} (prefix taken off exactly once) - {want_url!r}")
            if s.query != query:
                return ("query-mapping", f"{told(k)}: upstream was asked {sent[:-2]!r}: query {s.query!r}, expected {query!r}")
            if (s.hostname, s.port if s.port is not None else 1965) != (uh, uport):
                return ("request-line-host", f"{told(k)}: upstream request line {sent!r} names another server than {loc['upstream']!r}")
            if sent[:-2] != want_url:
                return ("url-text", f"{told(k)}: upstream request {sent[:-2]!r} differs from base + mapped path + query = {want_url!r}")
        for k in range(n - 1):
            if o["fates"][k] in self.COMPLETE:
                return ("many-connections", f"{told(k + 1)} although connection {k + 1} had been answered completely ({o['fates'][k]})")
        last = o["fates"][-1]
        if last in self.COMPLETE:
            st, meta = self.COMPLETE[last]
            if (o["status"], o["meta"]) != (st, meta):
                return ("answer-of-another-request", f"request {line!r}: the upstream answered {st} {meta!r} on {told(n - 1)}, the client was answered {o['status']} {o['meta']!r}")
            if st == 20 and o["body"] != want_url + "\r\n":
                return ("answer-of-another-request", f"request {line!r} (upstream URL {want_url!r}) was answered with the page of {o['body']!r}")
        return None

    def oracle(self, case, obs):
        hist = []
        for k, ((line, fates), o) in enumerate(zip(case["steps"], obs["steps"])):
            v = self.judge_step(case["locs"], line, o)
            if v is not None:
                return (v[0], f"step {k + 1} of a sequence through one deployment with a failing upstream (upstream's fate per connection attempt: {fates}; before it: {'; '.join(hist) or 'nothing'}): {v[1]}")
            hist.append(f"{line!r} with {fates} -> {o.get('status')}")
        return None

    def key(self, case, obs):
        kinds, rep, tries = set(), False, 1
        for (line, fates), o in zip(case["steps"], obs["steps"]):
            if o["req"] != "ok" or o.get("kind") != "proxy":
                continue
            loc = case["locs"][o["route"]]
            path, _ = spec_split(line)
            pre = loc_prefix(loc["prefix"])
            once = spec_mapped(pre, loc["strip"], path)
            if loc["strip"] and once != path and spec_mapped(pre, True, once) != once:
                rep = True
            tries = max(tries, len(o.get("conns", [])))
            f = fates[0]
            if kinds and f in self.COMPLETE:
                continue
            kinds.add("never-up" if f in self.CONNECT else "lost-before-header" if f in ("reset", "close") else "bad-header" if f in ("partial", "garbage") else
                      "silent" if f == "silent" else "lost-in-body" if f == "reset-mid" else "well")
        if not kinds:
            return "no proxy step"
        if len(kinds) > 1:
            kinds.discard("well")
        if len(kinds) > 1:
            kinds = {"several kinds of failure"}
        return f"first-attempt={'+'.join(sorted(kinds))}:prefix-again-after-strip={'y' if rep else 'n'}:connections-per-request<={min(tries, 3)}"

    def shrink(self, case, bad):
        """drop steps, then shorten the lists of fates"""
        cur = case
        changed, budget = True, 60
        while changed and budget > 0:
            changed = False
            cands = [dict(cur, steps=cur["steps"][:i] + cur["steps"][i + 1:]) for i in range(len(cur["steps"])) if len(cur["steps"]) > 1]
            cands += [dict(cur, steps=cur["steps"][:i] + [[s[0], s[1][:j] + s[1][j + 1:]]] + cur["steps"][i + 1:])
                      for i, s in enumerate(cur["steps"]) for j in range(len(s[1])) if len(s[1]) > 1]
            for cand in cands:
                budget -= 1
                if budget <= 0:
                    break
                try:
                    if bad(cand):
                        cur, changed = cand, True
                        break
                except Exception:  # noqa: BLE001
                    pass
        return cur


FAMILIES = [Map(), Live(), Concurrent(), Overlap(), Sequence(), Flaky()]


def extract_extra():
    from ..sim import url_gen

    url_gen.write_proxy_gen()


import atexit


def _cleanup():
    for f in FAMILIES:
        d = getattr(f, "_docroot", None)
        if d and not d.endswith("-docroot"):
            shutil.rmtree(d, ignore_errors=True)


atexit.register(_cleanup)
