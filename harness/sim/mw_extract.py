"""Extraction items of the middleware area that are not in harness/extract.py (C09, C10).

Writes lean/NauyacaVerif/Gen/MwParams.lean from the CURRENT source of
`nauyaca/server/middleware.py`; Props/C09.lean and Props/C10.lean tie the models' fixed strings and
source-shape assumptions to these definitions, so a change in the code breaks `lake build`.
An item that cannot be found is not emitted (the theorem that needs it then fails to build).
"""
from __future__ import annotations

import ast
from typing import Any

from .. import core
from ..extract import _func, _strs, lean_str, parse_source


def extract() -> dict[str, Any]:
    src = core.REPO / "src" / "nauyaca" / "server" / "middleware.py"
    out: dict[str, Any] = {}
    try:
        t = parse_source(src)
    except Exception:  # noqa: BLE001
        return out
    # --- AccessControl
    acl = next((n for n in ast.walk(t) if isinstance(n, ast.ClassDef) and n.name == "AccessControl"), None)
    if acl is not None and _func(t, "AccessControl", "process_request") is not None:
        # every response line literal of the class (process_request or a private helper it delegates to)
        out["aclDenyLines"] = sorted({s for s in _strs(acl) if s.endswith("\r\n")})
    # the network lists are parsed in __init__ or in a private helper of the class it calls: look at the whole class
    init = acl if acl is not None and _func(t, "AccessControl", "__init__") is not None else None
    if init is not None:
        calls = [n for n in ast.walk(init) if isinstance(n, ast.Call) and getattr(n.func, "id", getattr(n.func, "attr", "")) == "ip_network"]
        # every ip_network call uses the default strict=True (no keyword, one positional argument)
        out["aclNetworkStrict"] = bool(calls) and all(len(c.args) == 1 and not c.keywords for c in calls)
        # the "/128" attempt must not sit in the body of a `try` (its ValueError has to propagate)
        guarded = False
        found = 0

        def visit(node, in_try_body: bool):
            nonlocal guarded, found
            if isinstance(node, ast.Call) and getattr(node.func, "id", getattr(node.func, "attr", "")) == "ip_network" \
                    and any(isinstance(a, ast.JoinedStr) and any(isinstance(v, ast.Constant) and "/128" in str(v.value) for v in a.values) for a in node.args):
                found += 1
                if in_try_body:
                    guarded = True
            if isinstance(node, ast.Try):
                for ch in node.body:
                    visit(ch, True)
                for h in node.handlers:
                    for ch in h.body:
                        visit(ch, in_try_body)
                for ch in node.orelse + node.finalbody:
                    visit(ch, in_try_body)
                return
            for ch in ast.iter_child_nodes(node):
                visit(ch, in_try_body)

        visit(init, False)
        if found:
            out["aclThirdAttemptGuarded"] = guarded
    # --- RateLimiter response line: f"44 Rate limit exceeded. Retry after {retry_after} seconds\r\n"
    f = next((c for c in ast.walk(t) if isinstance(c, ast.ClassDef) and c.name == "RateLimiter"), None) \
        if _func(t, "RateLimiter", "process_request") is not None else None
    if f is not None:
        # the response line built in process_request or in a private helper of the class: an f-string ending in CRLF
        js = [n for n in ast.walk(f) if isinstance(n, ast.JoinedStr) and n.values and isinstance(n.values[-1], ast.Constant)
              and str(n.values[-1].value).endswith("\r\n")]
        if len(js) == 1:
            vals = js[0].values
            if len(vals) == 3 and isinstance(vals[0], ast.Constant) and isinstance(vals[2], ast.Constant) and isinstance(vals[1], ast.FormattedValue) \
                    and vals[1].conversion == -1 and vals[1].format_spec is None:
                out["rateLimitPrefix"] = vals[0].value
                out["rateLimitSuffix"] = vals[2].value
                out["rateLimitHole"] = ast.unparse(vals[1].value)
    out.update(extract_chain_order())
    return out


def extract_chain_order() -> dict[str, Any]:
    """the order in which start_server appends components to the middleware chain: for every
    `middlewares.append(x)` the class whose constructor call was assigned to `x` (source order = run order: the
    appends sit in consecutive top-level `if` blocks of start_server, not in loops)"""
    src = core.REPO / "src" / "nauyaca" / "server" / "server.py"
    try:
        t = parse_source(src)
    except Exception:  # noqa: BLE001
        return {}
    def builds_chain(fn):
        return any(isinstance(c, ast.Call) and isinstance(c.func, ast.Attribute) and c.func.attr in ("append", "insert", "extend")
                   and isinstance(c.func.value, ast.Name) and c.func.value.id == "middlewares" for c in ast.walk(fn))

    # the function that builds the chain: start_server itself, or the one module-level helper it was moved into
    f = _func(t, None, "start_server")
    if f is None or not builds_chain(f):
        cands = [n for n in t.body if isinstance(n, (ast.FunctionDef, ast.AsyncFunctionDef)) and builds_chain(n)]
        f = cands[0] if len(cands) == 1 else None
    if f is None:
        return {}
    ctor: dict[str, str] = {}
    order: list[str] = []
    nested = False

    def visit(node, depth_loop):
        nonlocal nested
        for ch in ast.iter_child_nodes(node):
            if isinstance(ch, ast.Assign) and len(ch.targets) == 1 and isinstance(ch.targets[0], ast.Name) and isinstance(ch.value, ast.Call):
                fn = ch.value.func
                ctor[ch.targets[0].id] = getattr(fn, "id", getattr(fn, "attr", "?"))
            if isinstance(ch, ast.Call) and isinstance(ch.func, ast.Attribute) and ch.func.attr in ("append", "insert", "extend") \
                    and isinstance(ch.func.value, ast.Name) and ch.func.value.id == "middlewares":
                if ch.func.attr != "append" or depth_loop or len(ch.args) != 1:
                    nested = True
                a = ch.args[0] if ch.args else None
                if isinstance(a, ast.Name):
                    order.append(ctor.get(a.id, "?" + a.id))
                elif isinstance(a, ast.Call):
                    order.append(getattr(a.func, "id", getattr(a.func, "attr", "?")))
                else:
                    order.append("?")
            visit(ch, depth_loop or isinstance(ch, (ast.For, ast.While, ast.AsyncFor)))

    visit(f, False)
    if nested or not order:
        return {}
    return {"chainOrder": order}


def render(items: dict[str, Any]) -> str:
    lines = ["-- GENERATED by harness/sim/mw_extract.py from the current source tree on every C09/C10 run — do not edit",
             "namespace NauyacaVerif.Gen"]
    v = items.get("aclDenyLines")
    lines.append(core.lean_item("aclDenyLines", "List (List Nat)", None if v is None else "[" + ", ".join(lean_str(s) for s in v) + "]"))
    for k in ("aclNetworkStrict", "aclThirdAttemptGuarded"):
        v = items.get(k)
        lines.append(core.lean_item(k, "Bool", None if v is None else ("true" if v else "false")))
    for k in ("rateLimitPrefix", "rateLimitSuffix", "rateLimitHole"):
        v = items.get(k)
        lines.append(core.lean_item(k, "List Nat", None if v is None else lean_str(v)))
    v = items.get("chainOrder")
    lines.append(core.lean_item("chainOrder", "List (List Nat)", None if v is None else "[" + ", ".join(lean_str(x) for x in v) + "]"))
    lines.append("end NauyacaVerif.Gen")
    return "\n".join(lines) + "\n"


def regenerate() -> dict[str, Any]:
    items = extract()
    text = render(items)
    f = core.LEAN / "NauyacaVerif" / "Gen" / "MwParams.lean"
    f.parent.mkdir(exist_ok=True)
    if not f.exists() or f.read_text() != text:
        f.write_text(text)
    return items
