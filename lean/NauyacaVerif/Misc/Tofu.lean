namespace Misc

/-! ## C03 / C11: trust-on-first-use over arbitrary histories, and "nothing sent before verification" -/
abbrev Key := Nat × Nat          -- (host id, port)
abbrev Fp := Nat
abbrev Pins := List (Key × Fp)

def Pins.get (s : Pins) (k : Key) : Option Fp := (s.find? (·.1 == k)).map (·.2)
def Pins.set (s : Pins) (k : Key) (f : Fp) : Pins := (k, f) :: s.filter (·.1 != k)
def Pins.del (s : Pins) (k : Key) : Pins := s.filter (·.1 != k)

inductive Presented where
  | cert (fp : Fp)
  | unreadable                 -- handshake completed, but the certificate cannot be parsed
deriving Repr, DecidableEq

inductive Outcome where
  | accepted (response : Nat)
  | changed (old new : Fp)
  | refused
deriving Repr, DecidableEq

/-- what reaches the peer and in which order (repaired `_get_single` / `upload`) -/
inductive Act where
  | connect (k : Key) | verify (k : Key) | trust (k : Key) (f : Fp) | send (k : Key) (payload : Nat) | await
deriving Repr, DecidableEq

/-- one connection attempt with TOFU on: (pins', outcome, actions) -/
def connect (s : Pins) (k : Key) (p : Presented) (payload response : Nat) : Pins × Outcome × List Act :=
  match p with
  | .unreadable => (s, .refused, [.connect k])
  | .cert fp =>
    match s.get k with
    | none => (s.set k fp, .accepted response, [.connect k, .verify k, .trust k fp, .send k payload, .await])
    | some old =>
      if old = fp then (s, .accepted response, [.connect k, .verify k, .send k payload, .await])
      else (s, .changed old fp, [.connect k, .verify k])

inductive Op where
  | fetch (k : Key) (p : Presented) (payload response : Nat)
  | trust (k : Key) (f : Fp) | revoke (k : Key) | clear
deriving Repr

def stepOp (s : Pins) : Op → Pins × Option Outcome × List Act
  | .fetch k p payload r => let x := connect s k p payload r; (x.1, some x.2.1, x.2.2)
  | .trust k f => (s.set k f, none, [])
  | .revoke k => (s.del k, none, [])
  | .clear => ([], none, [])

theorem get_set_self (s : Pins) (k : Key) (f : Fp) : (s.set k f).get k = some f := by
  simp [Pins.set, Pins.get]

theorem get_filter_ne (s : Pins) (k k' : Key) (h : k ≠ k') : Pins.get (s.filter (·.1 != k)) k' = s.get k' := by
  induction s with
  | nil => rfl
  | cons p ps ih =>
    simp only [Pins.get] at ih ⊢
    by_cases h1 : p.1 = k
    · have : (p.1 != k) = false := by simp [h1]
      have h2 : (p.1 == k') = false := by rw [h1]; simpa [beq_eq_false_iff_ne] using h
      simp only [List.filter_cons, this, Bool.false_eq_true, ↓reduceIte, List.find?_cons, h2]
      exact ih
    · have : (p.1 != k) = true := by simp [h1]
      simp only [List.filter_cons, this, ↓reduceIte, List.find?_cons]
      cases hq : (p.1 == k')
      · simpa using ih
      · rfl

theorem get_set_other (s : Pins) (k k' : Key) (f : Fp) (h : k ≠ k') : (s.set k f).get k' = s.get k' := by
  have hne : (k == k') = false := by simpa [beq_eq_false_iff_ne] using h
  simp only [Pins.set, Pins.get, List.find?_cons, hne]
  exact get_filter_ne s k k' h

/-- C03: a connection is accepted exactly when the presented certificate is the pin, or there is no
    pin yet (and then it becomes the pin) -/
theorem connect_accept_iff (s : Pins) (k : Key) (p : Presented) (pl r : Nat) :
    (∃ x, (connect s k p pl r).2.1 = .accepted x) ↔
      ∃ fp, p = .cert fp ∧ (s.get k = some fp ∨ s.get k = none) := by
  unfold connect
  cases p with
  | unreadable => simp
  | cert fp =>
    cases hg : s.get k with
    | none => simp
    | some old =>
      simp only
      by_cases he : old = fp
      · subst he; simp
      · simp only [he, ↓reduceIte]
        constructor
        · rintro ⟨x, hx⟩; simp at hx
        · rintro ⟨f, hf, h | h⟩
          · injection hf with hf; subst hf; simp at h; exact absurd h he
          · simp at h

/-- C03: a changed or unreadable certificate fails, names both fingerprints, and leaves every pin alone -/
theorem connect_reject (s : Pins) (k : Key) (p : Presented) (pl r : Nat)
    (h : ∀ x, (connect s k p pl r).2.1 ≠ .accepted x) :
    (connect s k p pl r).1 = s ∧
    ((connect s k p pl r).2.1 = .refused ∨ ∃ old new, (connect s k p pl r).2.1 = .changed old new ∧
        s.get k = some old ∧ p = .cert new ∧ old ≠ new) := by
  unfold connect at h ⊢
  cases p with
  | unreadable => exact ⟨rfl, Or.inl rfl⟩
  | cert fp =>
    cases hg : s.get k with
    | none => simp [hg] at h
    | some old =>
      simp only [hg] at h ⊢
      by_cases he : old = fp
      · simp [he] at h
      · simp only [he, ↓reduceIte]
        exact ⟨trivial, Or.inr ⟨old, fp, rfl, rfl, rfl, he⟩⟩

/-- C03: pins of other host:port pairs are never influenced -/
theorem connect_frame (s : Pins) (k k' : Key) (p : Presented) (pl r : Nat) (h : k ≠ k') :
    (connect s k p pl r).1.get k' = s.get k' := by
  unfold connect
  cases p with
  | unreadable => rfl
  | cert fp =>
    cases hg : s.get k with
    | none => exact get_set_other s k k' fp h
    | some old => simp only; split <;> rfl

/-- scan an action list: is every `send` preceded by a `verify` of the same connection? -/
def sendsGuarded : Bool → List Act → Bool
  | _, [] => true
  | _, .verify _ :: rest => sendsGuarded true rest
  | v, .send _ _ :: rest => v && sendsGuarded v rest
  | v, _ :: rest => sendsGuarded v rest

def noSend : List Act → Bool
  | [] => true
  | .send _ _ :: _ => false
  | _ :: rest => noSend rest

/-- C11: nothing is sent on a connection before its certificate passed verification, and nothing at
    all when verification fails -/
theorem send_after_verify (s : Pins) (k : Key) (p : Presented) (pl r : Nat) :
    sendsGuarded false (connect s k p pl r).2.2 = true ∧
    ((∀ x, (connect s k p pl r).2.1 ≠ .accepted x) → noSend (connect s k p pl r).2.2 = true) := by
  unfold connect
  cases p with
  | unreadable => exact ⟨rfl, fun _ => rfl⟩
  | cert fp =>
    cases hg : s.get k with
    | none => exact ⟨rfl, fun h => absurd rfl (h r)⟩
    | some old =>
      simp only
      by_cases he : old = fp
      · simp only [he, ↓reduceIte]; exact ⟨rfl, fun h => absurd rfl (h r)⟩
      · simp only [he, ↓reduceIte]; exact ⟨rfl, fun _ => rfl⟩

/-- C03 over histories: along any history, an accepted connection to a pinned key presented the pin -/
def runOps (s : Pins) : List Op → List (Pins × Option Outcome)
  | [] => []
  | o :: os => (s, (stepOp s o).2.1) :: runOps (stepOp s o).1 os

theorem history_pinned (s : Pins) (ops : List Op) (i : Nat) (k : Key) (p : Presented) (pl r : Nat)
    (before : Pins) (x : Nat)
    (hop : ops[i]? = some (Op.fetch k p pl r))
    (hrun : (runOps s ops)[i]? = some (before, some (Outcome.accepted x)))
    (pin : Fp) (hpin : before.get k = some pin) : p = .cert pin := by
  induction ops generalizing s i with
  | nil => simp at hop
  | cons o os ih =>
    cases i with
    | zero =>
      simp only [List.getElem?_cons_zero, Option.some.injEq] at hop
      subst hop
      simp only [runOps, stepOp, List.getElem?_cons_zero, Option.some.injEq, Prod.mk.injEq] at hrun
      obtain ⟨rfl, hacc⟩ := hrun
      have := (connect_accept_iff s k p pl r).mp ⟨x, by simpa using hacc⟩
      obtain ⟨fp, rfl, h | h⟩ := this
      · rw [hpin] at h; injection h with h; rw [h]
      · rw [hpin] at h; simp at h
    | succ j =>
      simp only [List.getElem?_cons_succ] at hop
      simp only [runOps, List.getElem?_cons_succ] at hrun
      exact ih _ j hop hrun
end Misc
