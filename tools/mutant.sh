#!/bin/bash
# Run a check against a modified copy of the repository without touching /repo, /verif/lean or the
# committed evidence.
#   tools/mutant.sh <name> <patch.diff | git-rev> <check args...>
# <patch.diff>: applied on top of /repo's HEAD in a scratch worktree /tmp/nvm-<name>/repo
# <git-rev>   : the worktree is checked out at that revision instead (e.g. a pre-fix commit)
# <git-rev>+<patch.diff> : checked out at that revision, then the patch is applied
set -e
name=$1; what=$2; shift 2
base=/tmp/nvm-$name
if [ ! -d $base/repo ]; then
  mkdir -p $base
  if [[ "$what" == *+* && -f "${what#*+}" ]]; then
    git -C /repo worktree add -q --detach $base/repo "${what%%+*}"
    git -C $base/repo apply "$(readlink -f ${what#*+})"
  elif [ -f "$what" ]; then
    git -C /repo worktree add -q --detach $base/repo HEAD
    git -C $base/repo apply "$(readlink -f $what)"
  else
    git -C /repo worktree add -q --detach $base/repo "$what"
  fi
fi
if [ ! -d $base/lean ]; then cp -a /verif/lean $base/lean; fi
rsync -a --delete --exclude .lake --exclude .audit --exclude .lake.lock --exclude 'NauyacaVerif/Gen/*.lean' /verif/lean/ $base/lean/
cd /verif
NAUYACA_REPO=$base/repo NAUYACA_LEAN_DIR=$base/lean NAUYACA_OUT=$base/out ./check "$@"
rc=$?
echo "(mutant $name: rc=$rc; clean up with: git -C /repo worktree remove --force $base/repo; rm -rf $base)"
exit $rc
