import NauyacaVerif.Gen.Fn.AclProcessRequest
import NauyacaVerif.Props.Tr.IsAllowed
/-!
`AccessControl.process_request`, TRANSLATED (regenerated from the current source on every run) with the value of
`self._is_allowed(client_ip)` as a parameter, composed with the translated `_is_allowed`, is the model's `Mw.aclProcess`: a peer is
admitted exactly when `_is_allowed` says so, and a refused one is answered with the line "53 Access denied\r\n" and nothing else.
-/
namespace NauyacaVerif.Translated
open NauyacaVerif.Gen

theorem acl_process_eq (acl : Mw.Acl) (a : Option Mw.Addr) :
    Fn.aclProcessRequest (Fn.isAllowed acl.deny acl.allow acl.dflt a) = (Mw.isAllowed acl a, Mw.aclProcess acl a) := by
  rw [isAllowed_eq]
  unfold Fn.aclProcessRequest Mw.aclProcess
  cases Mw.isAllowed acl a <;> simp [Mw.denyLine]

/-- the decision and the line agree: a line is returned exactly for a refusal, and it is a 53 -/
theorem acl_process_line (b : Bool) :
    (Fn.aclProcessRequest b).1 = b ∧ ((Fn.aclProcessRequest b).2 = none ↔ b = true) ∧
      ∀ l, (Fn.aclProcessRequest b).2 = some l → l.take 3 = [53, 51, 32] := by
  cases b <;> simp [Fn.aclProcessRequest]

example : Fn.aclProcessRequest false = (false, some Mw.denyLine) := by decide
example : Fn.aclProcessRequest true = (true, none) := by decide
end NauyacaVerif.Translated
