import NauyacaVerif.Misc.TofuTxn

/-! Lemmas about M-Tofu transactions: scripts have at most one commit, at the very end. -/
namespace TofuTxn

def NoCommit (t : List Stmt) : Prop := ∀ st ∈ t, st ≠ Stmt.commit

@[simp] theorem effects_nil (w : Store) : effects w [] = w := rfl
@[simp] theorem effects_cons (w : Store) (st : Stmt) (t : List Stmt) : effects w (st :: t) = effects (effect w st) t := rfl
theorem effects_append (w : Store) (a b : List Stmt) : effects w (a ++ b) = effects (effects w a) b := by
  simp [effects, List.foldl_append]

theorem noCommit_nil : NoCommit [] := by intro st h; simp at h
theorem noCommit_cons {st : Stmt} {t : List Stmt} (h1 : st ≠ .commit) (h2 : NoCommit t) : NoCommit (st :: t) := by
  intro x hx
  simp at hx
  rcases hx with rfl | hx
  · exact h1
  · exact h2 x hx
theorem noCommit_append {a b : List Stmt} (h1 : NoCommit a) (h2 : NoCommit b) : NoCommit (a ++ b) := by
  intro x hx
  simp at hx
  rcases hx with hx | hx
  · exact h1 x hx
  · exact h2 x hx
theorem noCommit_take (t : List Stmt) (k : Nat) (h : NoCommit t) : NoCommit (t.take k) :=
  fun st hst => h st (List.mem_of_mem_take hst)

theorem foldl_exec_noCommit (t : List Stmt) (h : NoCommit t) (d w : Store) :
    t.foldl execStmt ⟨d, w⟩ = ⟨d, effects w t⟩ := by
  induction t generalizing w with
  | nil => rfl
  | cons st t ih =>
    have hst : st ≠ .commit := h st (by simp)
    have ht : NoCommit t := fun x hx => h x (by simp [hx])
    have e : execStmt ⟨d, w⟩ st = ⟨d, effect w st⟩ := by simp [execStmt, hst]
    rw [List.foldl_cons, e, effects_cons]
    exact ih ht _

/-- a connection closed without a commit changes nothing -/
theorem runTxn_noCommit (d : Store) (t : Txn) (h : NoCommit t) : runTxn d t = d := by
  unfold runTxn; rw [foldl_exec_noCommit t h]

theorem runTxn_commit (d : Store) (pre : List Stmt) (h : NoCommit pre) :
    runTxn d (pre ++ [.commit]) = effects d pre := by
  unfold runTxn
  rw [List.foldl_append, foldl_exec_noCommit pre h]
  simp [execStmt]

/-- the three shapes a script of the (repaired) code can have: nothing, one connection that never
    commits, one connection whose only commit is its last statement -/
inductive Shape : Script → Prop
  | empty : Shape []
  | aborted (pre : List Stmt) (h : NoCommit pre) : Shape [pre]
  | committed (pre : List Stmt) (h : NoCommit pre) : Shape [pre ++ [.commit]]

theorem shape_atomic (sc : Script) (hs : Shape sc) (k : Nat) (d : Store) :
    crashAt k sc d = d ∨ crashAt k sc d = run d sc := by
  cases hs with
  | empty => left; simp [crashAt, takeScript, run]
  | aborted pre h =>
    left
    simp only [crashAt, takeScript]
    split
    · simp [run, runTxn_noCommit d pre h]
    · simp [run, runTxn_noCommit d _ (noCommit_take pre k h)]
  | committed pre h =>
    simp only [crashAt, takeScript]
    split
    · right; rfl
    · left
      rename_i hk
      have hlen : k ≤ pre.length := by simp at hk; omega
      have e : (pre ++ [Stmt.commit]).take k = pre.take k := List.take_append_of_le_length hlen
      simp [run, e, runTxn_noCommit d _ (noCommit_take pre k h)]

theorem shape_aborted_run (pre : List Stmt) (h : NoCommit pre) (k : Nat) (d : Store) : crashAt k [pre] d = d := by
  simp only [crashAt, takeScript]
  split
  · simp [run, runTxn_noCommit d pre h]
  · simp [run, runTxn_noCommit d _ (noCommit_take pre k h)]


/-! ### the import loop -/

theorem entryStep_cases (cb : Option (Nat → Cb)) (now i : Nat) (e : Entry) (w : Store) :
    (∃ err st, entryStep cb now i e w = .fail err st ∧ NoCommit st ∧ mergeEntry cb now i e w = none) ∨
    (∃ st t, entryStep cb now i e w = .cont st t ∧ NoCommit st ∧ mergeEntry cb now i e w = some (effects w st)) := by
  have nc1 : ∀ a : Stmt, a ≠ .commit → NoCommit [a] := fun a ha => noCommit_cons ha noCommit_nil
  have nc2 : ∀ a b : Stmt, a ≠ .commit → b ≠ .commit → NoCommit [a, b] :=
    fun a b ha hb => noCommit_cons ha (noCommit_cons hb noCommit_nil)
  cases hc : checkEntry e
  case missing => left; exact ⟨.missing, [], by simp [entryStep, hc], noCommit_nil, by simp [mergeEntry, hc]⟩
  case badPort => left; exact ⟨.badPort, [], by simp [entryStep, hc], noCommit_nil, by simp [mergeEntry, hc]⟩
  case badFp => left; exact ⟨.badFp, [], by simp [entryStep, hc], noCommit_nil, by simp [mergeEntry, hc]⟩
  case ok =>
    cases hl : lookup w e.host e.port.toNat with
    | none =>
      right
      exact ⟨[.select e.host e.port.toNat, .insert ⟨e.host, e.port.toNat, e.fp, e.first, now⟩], .added,
        by simp [entryStep, hc, hl], nc2 _ _ (by simp) (by simp), by simp [mergeEntry, hc, hl, effect]⟩
    | some r =>
      by_cases hfp : r.fp = e.fp
      · right
        exact ⟨[.select e.host e.port.toNat], .skipped, by simp [entryStep, hc, hl, hfp], nc1 _ (by simp),
          by simp [mergeEntry, hc, hl, hfp, effect]⟩
      · cases cb with
        | none =>
          right
          exact ⟨[.select e.host e.port.toNat], .skipped, by simp [entryStep, hc, hl, hfp], nc1 _ (by simp),
            by simp [mergeEntry, hc, hl, hfp, effect]⟩
        | some f =>
          cases hf : f i
          · right
            exact ⟨[.select e.host e.port.toNat, .updateFp e.host e.port.toNat e.fp now], .updated,
              by simp [entryStep, hc, hl, hfp, hf], nc2 _ _ (by simp) (by simp),
              by simp [mergeEntry, hc, hl, hfp, hf, effect]⟩
          · right
            exact ⟨[.select e.host e.port.toNat], .skipped, by simp [entryStep, hc, hl, hfp, hf], nc1 _ (by simp),
              by simp [mergeEntry, hc, hl, hfp, hf, effect]⟩
          · left
            exact ⟨.callback, [.select e.host e.port.toNat], by simp [entryStep, hc, hl, hfp, hf], nc1 _ (by simp),
              by simp [mergeEntry, hc, hl, hfp, hf]⟩

theorem importLoop_spec (cb : Option (Nat → Cb)) (now : Nat) (es : List Entry) :
    ∀ i w, NoCommit (importLoop cb now i es w).stmts ∧
      ((importLoop cb now i es w).err = none ∧
          importFold cb now i es w = some (effects w (importLoop cb now i es w).stmts) ∨
       (∃ x, (importLoop cb now i es w).err = some x) ∧ importFold cb now i es w = none) := by
  induction es with
  | nil => intro i w; simp [importLoop, importFold]; exact noCommit_nil
  | cons e es ih =>
    intro i w
    rcases entryStep_cases cb now i e w with ⟨err, st, h1, h2, h3⟩ | ⟨st, t, h1, h2, h3⟩
    · simp only [importLoop, importFold, h1, h3]
      exact ⟨h2, by simp⟩
    · obtain ⟨ihn, ihr⟩ := ih (i + 1) (effects w st)
      simp only [importLoop, importFold, h1, h3, LoopOut.prepend]
      refine ⟨noCommit_append h2 ihn, ?_⟩
      rcases ihr with ⟨e1, e2⟩ | ⟨e1, e2⟩
      · left; exact ⟨e1, by rw [effects_append]; exact e2⟩
      · right; exact ⟨e1, e2⟩


/-! ### every operation's script has one of the three shapes and computes the specification -/

theorem nc1 (a : Stmt) (ha : a ≠ .commit) : NoCommit [a] := noCommit_cons ha noCommit_nil
theorem nc2 (a b : Stmt) (ha : a ≠ .commit) (hb : b ≠ .commit) : NoCommit [a, b] :=
  noCommit_cons ha (noCommit_cons hb noCommit_nil)

theorem importPre_noCommit (merge : Bool) : NoCommit (importPre merge) := by
  cases merge
  · exact nc1 _ (by simp)
  · exact noCommit_nil

theorem importPre_effects (merge : Bool) (s : Store) : effects s (importPre merge) = importBase merge s := by
  cases merge <;> simp [importPre, importBase, effect]

theorem script_shape (op : Op) (s : Store) : Shape (script op s) := by
  cases op with
  | init => exact Shape.committed [.create] (nc1 _ (by simp))
  | trust h p fp now =>
    simp only [script, trustScript]
    split
    · exact Shape.committed [.select h p, .insert ⟨h, p, fp, now, now⟩] (nc2 _ _ (by simp) (by simp))
    · exact Shape.committed [.select h p, .updateFp h p fp now] (nc2 _ _ (by simp) (by simp))
  | verify h p fp now =>
    simp only [script, verifyScript]
    split
    · exact Shape.aborted _ (nc1 _ (by simp))
    · split
      · exact Shape.committed [.select h p, .touch h p now] (nc2 _ _ (by simp) (by simp))
      · exact Shape.aborted _ (nc1 _ (by simp))
  | revoke h p => exact Shape.committed [.delete h p] (nc1 _ (by simp))
  | revokeHost h => exact Shape.committed [.deleteHost h] (nc1 _ (by simp))
  | clear => exact Shape.committed [.deleteAll] (nc1 _ (by simp))
  | importToml merge file cb now =>
    cases file with
    | unreadable => exact Shape.empty
    | entries es =>
      have hn := (importLoop_spec cb now es 0 (effects s (importPre merge))).1
      simp only [script, importScript]
      split
      · exact Shape.committed _ (noCommit_append (importPre_noCommit merge) hn)
      · exact Shape.aborted _ (noCommit_append (importPre_noCommit merge) hn)

theorem run_single (d : Store) (t : Txn) : run d [t] = runTxn d t := rfl

/-- running an operation's script to its end yields the operation's specification -/
theorem script_complete (op : Op) (s : Store) : run s (script op s) = apply op s := by
  cases op with
  | init => simp [script, run, runTxn, execStmt, effect, apply]
  | trust h p fp now =>
    simp only [script, trustScript, apply, upsert]
    split <;> rename_i hl <;> simp [run, runTxn, execStmt, effect, hl]
  | verify h p fp now =>
    simp only [script, verifyScript, apply, verifySpec]
    split
    · simp [run, runTxn, execStmt, effect]
    · split <;> simp [run, runTxn, execStmt, effect]
  | revoke h p => simp [script, run, runTxn, execStmt, effect, apply]
  | revokeHost h => simp [script, run, runTxn, execStmt, effect, apply]
  | clear => simp [script, run, runTxn, execStmt, effect, apply]
  | importToml merge file cb now =>
    cases file with
    | unreadable => simp [script, run, apply, importSpec]
    | entries es =>
      obtain ⟨hn, hr⟩ := importLoop_spec cb now es 0 (effects s (importPre merge))
      have hpre := noCommit_append (importPre_noCommit merge) hn
      simp only [script, importScript, apply, importSpec]
      rcases hr with ⟨e1, e2⟩ | ⟨⟨x, e1⟩, e2⟩
      · rw [importPre_effects] at e2
        simp only [e1, e2, run_single]
        rw [runTxn_commit _ _ hpre, effects_append, importPre_effects]
      · rw [importPre_effects] at e2
        simp only [e1, e2, run_single]
        exact runTxn_noCommit _ _ hpre

/-- C12 atomicity: whatever statement boundary an operation is interrupted at (process killed or
    an exception unwinding through `conn.close()`), the store is exactly as before or exactly as
    after the complete operation -/
theorem crash_atomic (op : Op) (s : Store) (k : Nat) :
    crashAt k (script op s) s = s ∨ crashAt k (script op s) s = apply op s := by
  rw [← script_complete op s]
  exact shape_atomic _ (script_shape op s) k s

/-- an import that raises leaves the store as it was, wherever it is interrupted and also when it
    runs to its own end -/
theorem import_fails_unchanged (merge : Bool) (file : ImportFile) (cb : Option (Nat → Cb)) (now : Nat) (s : Store)
    (hf : importFails merge file cb now s = true) :
    apply (.importToml merge file cb now) s = s ∧ ∀ k, crashAt k (script (.importToml merge file cb now) s) s = s := by
  have hap : apply (.importToml merge file cb now) s = s := by
    cases file with
    | unreadable => simp [apply, importSpec]
    | entries es =>
      simp only [importFails, Option.isNone_iff_eq_none] at hf
      simp [apply, importSpec, hf]
  refine ⟨hap, fun k => ?_⟩
  rcases crash_atomic (.importToml merge file cb now) s k with h | h
  · exact h
  · rw [h, hap]


/-! ### frame: rows under keys an operation does not name -/

theorem hasKey_iff (r : Row) (h : Host) (p : Nat) : r.hasKey h p = true ↔ r.host = h ∧ r.port = p := by
  simp [Row.hasKey]

theorem hasKey_setFp (h : Host) (p fp now : Nat) (r : Row) (h' : Host) (p' : Nat) :
    (setFp h p fp now r).hasKey h' p' = r.hasKey h' p' := by
  unfold setFp; split <;> simp [Row.hasKey]

theorem hasKey_setLast (h : Host) (p now : Nat) (r : Row) (h' : Host) (p' : Nat) :
    (setLast h p now r).hasKey h' p' = r.hasKey h' p' := by
  unfold setLast; split <;> simp [Row.hasKey]

theorem hasKey_other {r : Row} {h h' : Host} {p p' : Nat} (hr : r.hasKey h p = true)
    (hn : (h' == h && p' == p) = false) : r.hasKey h' p' = false := by
  obtain ⟨rfl, rfl⟩ := (hasKey_iff r h p).mp hr
  cases hk : r.hasKey h' p'
  · rfl
  · obtain ⟨e1, e2⟩ := (hasKey_iff r h' p').mp hk
    simp [e1, e2] at hn

theorem lookup_map_other (f : Row → Row) (h : Host) (p : Nat)
    (hk : ∀ r, (f r).hasKey h p = r.hasKey h p) (hid : ∀ r, r.hasKey h p = true → f r = r) (w : Store) :
    lookup (w.map f) h p = lookup w h p := by
  induction w with
  | nil => rfl
  | cons r w ih =>
    simp only [lookup, List.map_cons, List.find?_cons] at ih ⊢
    rw [hk r]
    cases hr : r.hasKey h p
    · simpa using ih
    · simp [hid r hr]

theorem lookup_filter_other (q : Row → Bool) (h : Host) (p : Nat)
    (hq : ∀ r, r.hasKey h p = true → q r = true) (w : Store) :
    lookup (w.filter q) h p = lookup w h p := by
  induction w with
  | nil => rfl
  | cons r w ih =>
    simp only [lookup] at ih ⊢
    cases hqr : q r
    · have hr : r.hasKey h p = false := by
        cases hr : r.hasKey h p
        · rfl
        · rw [hq r hr] at hqr; cases hqr
      simp [hqr, hr, ih]
    · cases hr : r.hasKey h p <;> simp [hqr, hr, ih]

theorem lookup_append_other (w : Store) (r : Row) (h : Host) (p : Nat) (hr : r.hasKey h p = false) :
    lookup (w ++ [r]) h p = lookup w h p := by
  simp [lookup, List.find?_append, hr]

theorem mergeEntry_frame (cb : Option (Nat → Cb)) (now i : Nat) (e : Entry) (w w' : Store) (h : Host) (p : Nat)
    (hm : mergeEntry cb now i e w = some w') (hn : (e.host == h && e.port.toNat == p) = false) :
    lookup w' h p = lookup w h p := by
  have hmap : lookup (w.map (setFp e.host e.port.toNat e.fp now)) h p = lookup w h p :=
    lookup_map_other _ h p (fun r => hasKey_setFp _ _ _ _ r h p)
      (fun r hr => by unfold setFp; rw [hasKey_other hr hn]; simp) w
  have happ : lookup (w ++ [⟨e.host, e.port.toNat, e.fp, e.first, now⟩]) h p = lookup w h p :=
    lookup_append_other w _ h p (by simpa [Row.hasKey] using hn)
  unfold mergeEntry at hm
  split at hm
  · split at hm
    · cases hm; exact happ
    · split at hm
      · cases hm; rfl
      · split at hm
        · cases hm; rfl
        · split at hm
          · cases hm; exact hmap
          · cases hm; rfl
          · cases hm
  · cases hm

theorem importFold_frame (cb : Option (Nat → Cb)) (now : Nat) (es : List Entry) (h : Host) (p : Nat) :
    ∀ i w w', importFold cb now i es w = some w' →
      es.any (fun e => e.host == h && e.port.toNat == p) = false → lookup w' h p = lookup w h p := by
  induction es with
  | nil => intro i w w' hf _; simp [importFold] at hf; rw [hf]
  | cons e es ih =>
    intro i w w' hf hn
    simp only [List.any_cons, Bool.or_eq_false_iff] at hn
    unfold importFold at hf
    split at hf
    · cases hf
    · rename_i w1 hm
      rw [ih _ _ _ hf hn.2]
      exact mergeEntry_frame cb now i e w w1 h p hm hn.1

/-- the complete operation leaves every row under a key it does not name as it was -/
theorem apply_frame (op : Op) (s : Store) (h : Host) (p : Nat) (hn : names op h p = false) :
    lookup (apply op s) h p = lookup s h p := by
  cases op with
  | init => rfl
  | trust h' p' fp now =>
    simp only [names] at hn
    simp only [apply, upsert]
    split
    · exact lookup_append_other s _ h p (by simpa [Row.hasKey] using hn)
    · exact lookup_map_other _ h p (fun r => hasKey_setFp _ _ _ _ r h p)
        (fun r hr => by unfold setFp; rw [hasKey_other hr hn]; simp) s
  | verify h' p' fp now =>
    simp only [names] at hn
    simp only [apply, verifySpec]
    split
    · rfl
    · split
      · exact lookup_map_other _ h p (fun r => hasKey_setLast _ _ _ r h p)
          (fun r hr => by unfold setLast; rw [hasKey_other hr hn]; simp) s
      · rfl
  | revoke h' p' =>
    simp only [names] at hn
    exact lookup_filter_other _ h p (fun r hr => by rw [hasKey_other hr hn]; rfl) s
  | revokeHost h' =>
    simp only [names] at hn
    refine lookup_filter_other _ h p (fun r hr => ?_) s
    obtain ⟨rfl, _⟩ := (hasKey_iff r h p).mp hr
    cases hb : r.host == h'
    · rfl
    · have : r.host = h' := by simpa using hb
      simp [this] at hn
  | clear => simp [names] at hn
  | importToml merge file cb now =>
    cases merge with
    | false => simp [names] at hn
    | true =>
      cases file with
      | unreadable => rfl
      | entries es =>
        simp only [names] at hn
        simp only [apply, importSpec, importBase]
        split
        · rename_i s' hf; exact importFold_frame cb now es h p 0 s s' hf hn
        · rfl

/-! ### export keys -/

def decVal (s : List Nat) : Nat := s.foldl (fun n c => n * 10 + (c - 48)) 0

theorem decVal_append (a : List Nat) (c : Nat) : decVal (a ++ [c]) = decVal a * 10 + (c - 48) := by
  simp [decVal, List.foldl_append]

theorem decVal_decDigits (n : Nat) : decVal (decDigits n) = n := by
  induction n using Nat.strongRecOn with
  | _ n ih =>
    rw [decDigits]
    split
    · simp [decVal]
    · rename_i h
      rw [decVal_append, ih (n / 10) (by omega)]
      omega

theorem decDigits_inj {a b : Nat} (h : decDigits a = decDigits b) : a = b := by
  have := congrArg decVal h
  simpa [decVal_decDigits] using this

theorem decDigits_no_colon (n : Nat) : ∀ c ∈ decDigits n, c ≠ 58 := by
  induction n using Nat.strongRecOn with
  | _ n ih =>
    rw [decDigits]
    split
    · intro c hc; simp at hc; omega
    · rename_i h
      intro c hc
      simp at hc
      rcases hc with hc | hc
      · exact ih (n / 10) (by omega) c hc
      · omega

theorem last_colon_unique (a b x y : List Nat) (hx : ∀ c ∈ x, c ≠ 58) (hy : ∀ c ∈ y, c ≠ 58)
    (h : a ++ 58 :: x = b ++ 58 :: y) : a = b ∧ x = y := by
  induction a generalizing b with
  | nil =>
    cases b with
    | nil => simpa using h
    | cons c cs =>
      simp at h
      obtain ⟨rfl, h2⟩ := h
      exfalso
      have : 58 ∈ x := by rw [h2]; simp
      exact hx 58 this rfl
  | cons c cs ih =>
    cases b with
    | nil =>
      simp at h
      obtain ⟨rfl, h2⟩ := h
      exfalso
      have : 58 ∈ y := by rw [← h2]; simp
      exact hy 58 this rfl
    | cons d ds =>
      simp at h
      obtain ⟨rfl, h2⟩ := h
      obtain ⟨r1, r2⟩ := ih ds h2
      exact ⟨by rw [r1], r2⟩

/-- the export key "hostname:port" determines host name and port, for ANY host name
    (colons, brackets, quotes, anything) -/
theorem keyStr_injective {h₁ h₂ : Host} {p₁ p₂ : Nat} (h : keyStr h₁ p₁ = keyStr h₂ p₂) : h₁ = h₂ ∧ p₁ = p₂ := by
  obtain ⟨a, b⟩ := last_colon_unique h₁ h₂ _ _ (decDigits_no_colon p₁) (decDigits_no_colon p₂) h
  exact ⟨a, decDigits_inj b⟩

/-! ### export then import -/

/-- the primary key of the table -/
def KeysDistinct (s : Store) : Prop := s.Pairwise (fun a b => ¬ (a.host = b.host ∧ a.port = b.port))

def exportPair (r : Row) : List Nat × Entry := (keyStr r.host r.port, entryOf r)

theorem exportFold_eq (rows : Store) : ∀ (acc : Table), KeysDistinct rows →
    (∀ r ∈ rows, ∀ kv ∈ acc, kv.1 ≠ keyStr r.host r.port) →
    rows.foldl (fun d r => d.set (keyStr r.host r.port) (entryOf r)) acc = acc ++ rows.map exportPair := by
  induction rows with
  | nil => intro acc _ _; simp
  | cons r rows ih =>
    intro acc hd hacc
    have hd' : KeysDistinct rows := (List.pairwise_cons.mp hd).2
    have hr : ∀ r' ∈ rows, ¬ (r.host = r'.host ∧ r.port = r'.port) := (List.pairwise_cons.mp hd).1
    have hset : acc.set (keyStr r.host r.port) (entryOf r) = acc ++ [exportPair r] := by
      unfold Table.set
      have : acc.any (fun kv => kv.1 == keyStr r.host r.port) = false := by
        rw [List.any_eq_false]
        intro kv hkv
        simpa using hacc r (by simp) kv hkv
      simp [this, exportPair]
    rw [List.foldl_cons, hset, ih (acc ++ [exportPair r]) hd']
    · simp
    · intro r' hr' kv hkv
      simp at hkv
      rcases hkv with hkv | rfl
      · exact hacc r' (by simp [hr']) kv hkv
      · intro he
        exact hr r' hr' (keyStr_injective he)

/-- with an injective key no row is lost in the exported table -/
theorem exportToml_eq (s : Store) (hd : KeysDistinct s) : exportToml s = s.map exportPair := by
  unfold exportToml
  rw [exportFold_eq s [] hd (by intro r _ kv hkv; simp at hkv)]
  simp

def touched (now : Nat) (r : Row) : Row := { r with last := now }

theorem lookup_none_of_all (w : Store) (h : Host) (p : Nat) (hw : ∀ r ∈ w, r.hasKey h p = false) : lookup w h p = none := by
  simp only [lookup, List.find?_eq_none]
  intro r hr; simp [hw r hr]

theorem importFold_export (now : Nat) (rows : Store) : ∀ (acc : Store) (i : Nat), KeysDistinct rows →
    (∀ r ∈ rows, lookup acc r.host r.port = none) →
    (∀ r ∈ rows, 1 ≤ r.port ∧ r.port ≤ 65535) →
    importFold none now i (rows.map entryOf) acc = some (acc ++ rows.map (touched now)) := by
  induction rows with
  | nil => intro acc i _ _ _; simp [importFold]
  | cons r rows ih =>
    intro acc i hd hacc hp
    have hd' : KeysDistinct rows := (List.pairwise_cons.mp hd).2
    have hr : ∀ r' ∈ rows, ¬ (r.host = r'.host ∧ r.port = r'.port) := (List.pairwise_cons.mp hd).1
    have hport := hp r (by simp)
    have hchk : checkEntry (entryOf r) = .ok := by
      simp only [checkEntry, entryOf]
      have h1 : ¬ ((r.port : Int) < 1) := by omega
      have h2 : ¬ ((r.port : Int) > 65535) := by omega
      simp [h1, h2]
    have hl : lookup acc (entryOf r).host (entryOf r).port.toNat = none := by
      simpa [entryOf] using hacc r (by simp)
    have hm : mergeEntry none now i (entryOf r) acc = some (acc ++ [touched now r]) := by
      simp only [mergeEntry, hchk, hl]
      simp [entryOf, touched]
    simp only [List.map_cons, importFold, hm]
    rw [ih (acc ++ [touched now r]) (i + 1) hd']
    · simp
    · intro r' hr'
      rw [lookup_append_other]
      · exact hacc r' (by simp [hr'])
      · cases hk : (touched now r).hasKey r'.host r'.port
        · rfl
        · exfalso
          have := (hasKey_iff _ _ _).mp hk
          exact hr r' hr' (by simpa [touched] using this)
    · intro r' hr'; exact hp r' (by simp [hr'])

/-- C12 round trip: exporting a store (rows in the order `list_hosts` returns them) and importing
    the table into an empty store reproduces every host name, port, fingerprint and first-seen
    value; only `last_seen` becomes the time of the import -/
theorem export_import (s : Store) (now : Nat) (hd : KeysDistinct s)
    (hp : ∀ r ∈ s, 1 ≤ r.port ∧ r.port ≤ 65535) :
    importInto [] (exportToml s) now = s.map (touched now) := by
  unfold importInto
  rw [exportToml_eq s hd]
  simp only [apply, importSpec, importBase, List.map_map]
  have : (fun x => x.2) ∘ exportPair = entryOf := by funext r; rfl
  simp only [this, if_true]
  rw [importFold_export now s [] 0 hd (by intro r _; rfl) hp]
  simp

end TofuTxn
