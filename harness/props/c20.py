"""C20  No service below TLS 1.2 and none without TLS

Extraction: `extract_extra()` builds the context of EVERY construction path with the real
functions (harness/sim/tls_paths.py) and writes lean/NauyacaVerif/Gen/Tls.lean: one row
(path id, lowest enabled version, highest enabled version) per path, read from
`SSLContext.minimum_version/maximum_version`, or - PyOpenSSL contexts have no getter - probed with
a permissive memory-BIO peer after the context's security level was lowered to 0.

Correspondence:
* `versions`  memory-BIO handshakes of a permissive peer (security level 0) offering every contiguous
              version range against every path's real context (as built, and with its security level
              lowered so that the version setting is the only barrier), next to a control context of the
              same kind without nauyaca's minimum version; compared with `negotiate` on the generated table.
* `plaintext` plaintext request lines / random bytes / TLS-then-plaintext fed to the real
              TLSServerProtocol (PyOpenSSL backend) on a fake TCP transport under a virtual clock;
              compared with the `pump` model.
* `live`      both backends behind the real `start_server` on loopback sockets: plaintext probes and
              old-version clients.
* `client`    the real GeminiClient (every public coroutine method found on the class: get, upload, delete, ...)
              against a scripted loopback peer whose versions change from step to step; compared with `tlsvers`.
* `startup`   the configuration space of the start-up paths: {start_server(...), `nauyaca serve --config`} x
              {auto-generated, supplied, supplied-below-the-security-level (RSA-1024, SHA-1)} certificates x
              require_client_cert x certificate_auth configurations (none / no rules / exempting rules only /
              requiring rules / fingerprint lists); the listener the real start-up code builds is probed over a
              loopback socket with plaintext, old-version clients (with and without a client certificate) and a
              modern control (harness/sim/tls_startup.py).  Oracle only (no model): whatever start-up does with a
              configuration - refuse it or serve it - no plaintext reaches a handler and nothing below TLS 1.2 completes.
* `settings`  the configuration FILE: every (table, key) the TOML loader of the working tree reads (enumerated from the syntax
              tree of server/config.py) x values of every TOML type (quoted / unquoted numbers, strings, booleans, arrays, inline
              tables, dates; protocol versions and cipher strings in the spellings operators use), alone, pairwise for the
              keys the loader validates together, and in random combinations per table; configurations the loader takes are
              started through `nauyaca serve --config` and through ServerConfig.from_toml + start_server and probed like
              `startup`, then once more with the running listener's security level lowered to 0.  Oracle only.
* `policy`    the start-up paths in a process whose OpenSSL POLICY does not refuse old versions (a child process whose OPENSSL_CONF
              is the "legacy interop" file MinProtocol = TLSv1 / CipherString = DEFAULT:@SECLEVEL=0, written by the harness): every
              way the server is brought up ({start_server(...), `nauyaca serve --config`, ServerConfig.from_toml + start_server,
              context builder + protocol classes wired by hand} x {auto-generated, supplied PEM, supplied DER, one file of each}
              certificate x client-certificate request x certificate_auth shape), alone, several different ones in one process,
              and the same one restarted many times in one process (a stopped server's objects are garbage by then).  The listener is
              not touched: permissive clients capped at TLS 1.0 / 1.1 simply try; a bare context without minimum version in the same
              child shows that the old versions ARE negotiable there (harness/sim/tls_policy.py).  Oracle only.
* `cli`       every leaf command of the command-line interface, enumerated from the click tree of the working
              tree (a command the harness has no recipe for gets arguments synthesised from its declared
              parameters and runs in a process of its own), against the scripted peer capped at TLS 1.0/1.1, with
              an empty / matching / conflicting pin store; compared with `tlsvers` for the commands with a recipe.
"""
from __future__ import annotations

import asyncio
import json
import random
import re
import sys

from .. import core
from ..core import Family
from ..sim import tls_live, tls_paths, tls_peer, tls_policy, tls_startup
from ..sim.tls_peer import VERS

ID = "C20"
READY = True
LEAN_TARGETS = ["NauyacaVerif.Props.C20"]
THEOREMS = [f"NauyacaVerif.C20.{t}" for t in
            ("paths_complete", "table_min", "table_max", "no_old_tls", "no_old_tls'", "refuses_old_peer", "serves_modern",
             "control_negotiates_old", "inner_needs_final", "no_plaintext", "inner_after_handshake", "no_plaintext_first_read")]
EXTRACT: list[str] = []
LEVEL_TEXT = "partial"
LEVEL_NOTE = ("version negotiation and record parsing are OpenSSL's and are not modelled: the theorems are about the configuration "
              "nauyaca hands OpenSSL (the version range of every context-construction path, read off the real objects on every run) "
              "under the contract 'the highest version enabled on both sides, if any', and about TLSServerProtocol's own rule that the "
              "inner protocol is created only after a completed handshake; the stdlib backend's plaintext handling is asyncio's and is "
              "only exercised (thorough tier), not modelled")
TECHNIQUE = ("Lean 4 theorems over a table generated from the real context objects (decide + negotiate_ge_min) and an invariant proof over the "
             "pump model (Pre/Dead states, induction over arbitrary event lists); differential testing of the real contexts / the real "
             "TLSServerProtocol against the model with permissive memory-BIO peers and control contexts; loopback probes of both backends; "
             "exhaustive small-scope enumeration of start-up configurations (entry point x certificate kind x require_client_cert x certificate_auth shape), "
             "of the configuration-file settings found in the source x TOML value types (singles, pairwise, random combinations), "
             "of the start-up paths x certificate file encodings x restarts inside one process under a permissive OpenSSL policy file (child processes) "
             "and of the CLI's commands (enumerated from the source) against scripted loopback peers, judged by the property's oracle")
ASSUMPTIONS = [
    "OpenSSL negotiates the highest protocol version enabled on both sides, or none (Misc.negotiate); not verified, exercised on every run",
    "SSLv3 is not compiled into either OpenSSL in this sandbox (system 3.0.x for ssl, the cryptography wheel's for PyOpenSSL): ranges that contain only SSLv3 cannot be offered by any peer here; recorded as Gen.sslv3Available = false and as class 'ssl3-only' in the distribution",
    "the security level is OpenSSL/system configuration, not nauyaca's: besides the contexts as built, every path is probed with its security level lowered to 0 so that the protocol-version setting is the only barrier (without that, TLS 1.0/1.1 are refused by OpenSSL 3's default level even when no minimum version is set, and a missing minimum would be invisible)",
    "each old-version probe runs next to a control context of the same kind (TLS 1.0 enabled, level 0) which must complete the old version: a control that cannot is a disagreement with the model, i.e. a broken obligation, not a silent pass",
    "stdlib backend: plaintext handling and the 60 s handshake timeout are asyncio.sslproto's; exercised over loopback sockets only",
    "start-up configurations (family startup) and command-line commands (family cli) are exercised behaviourally over loopback sockets and judged by the oracle alone; the Lean table covers the context-construction paths, not the glue that decides which listener a configuration gets",
    "certificates below the security level are RSA-1024 keys and SHA-1 signatures (made with pyOpenSSL's legacy X509 API, since `cryptography` refuses to sign with SHA-1); a server that refuses to start with them satisfies the property",
    "family settings: which values a setting takes is learnt by calling the working tree's own loader (ServerConfig.from_toml); settings the harness needs for itself ([server] host/port/document_root/certfile/keyfile/require_client_cert, [rate_limit] enabled, [certificate_auth] paths) are not varied; the `-level0` verdicts lower the security level of the RUNNING listener's context (set_ciphers / set_cipher_list with ALL:@SECLEVEL=0), which cannot enable a protocol version the context's version range excludes",
    "family policy: the machine whose OpenSSL policy leaves the protocol floor to the application is simulated with OPENSSL_CONF (MinProtocol = TLSv1, CipherString = DEFAULT:@SECLEVEL=0) in a child process per case; both OpenSSL libraries in use (the system's behind `ssl`, the cryptography wheel's behind PyOpenSSL) read that file; a case counts only if, in the same child, a bare PyOpenSSL server context without minimum version completes TLS 1.0 (otherwise the case is a harness error, not a pass); stdlib listeners carry Python's own cipher string (with a security level that overrides the file) and are therefore probed a second time after `set_ciphers('ALL:@SECLEVEL=0')` on the running listener's context; whether the address of a dropped context is reused by a later one within the 20 lives of a restart case is up to the allocator (observed in about nine of ten such cases)",
    "`serve` is the one command of the CLI that is not run as a client (it is the server: family startup); every other leaf command found in the source is run against the old-version peer",
]

_TLS_LEAN = core.LEAN / "NauyacaVerif" / "Gen" / "Tls.lean"


# ------------------------------------------------------------------------------------------------
# shared per-process material
# ------------------------------------------------------------------------------------------------
_HARNESS_CERT: tuple[bytes, bytes] | None = None
_CTX_CACHE: dict = {}
_PEER_SRV_CACHE: dict = {}
_CTRL_CACHE: dict = {}


def harness_cert() -> tuple[bytes, bytes]:
    global _HARNESS_CERT
    if _HARNESS_CERT is None:
        _HARNESS_CERT = tls_peer.make_cert("localhost")
    return _HARNESS_CERT


_HARNESS_CERT_B: tuple[bytes, bytes] | None = None


def harness_cert_b() -> tuple[bytes, bytes]:
    """a second certificate for the same name (another key): a renewed - or somebody else's - certificate"""
    global _HARNESS_CERT_B
    if _HARNESS_CERT_B is None:
        _HARNESS_CERT_B = tls_startup.named_cert("harness B")
    return _HARNESS_CERT_B


def get_ctx(pid: int, sec0: bool, fresh: bool = False):
    key = (pid, sec0)
    if fresh or key not in _CTX_CACHE:
        kind, role, ctx = tls_paths.build(pid)
        if ctx is not None:
            if sec0:
                tls_paths.lower_security_level(kind, ctx)
            if pid == 8:
                # CA mode verifies the peer: trust the harness's own certificate so that the handshake
                # can succeed at all and the refusal of old versions is not vacuous
                ctx.load_verify_locations(cadata=harness_cert()[0].decode())
        _CTX_CACHE[key] = (kind, role, ctx)
    return _CTX_CACHE[key]


def peer_server(lo: int, hi: int):
    if (lo, hi) not in _PEER_SRV_CACHE:
        with tls_peer.cert_files(harness_cert()) as (_d, cf, kf):
            _PEER_SRV_CACHE[(lo, hi)] = tls_peer.peer_server_ctx(cf, kf, lo, hi, permissive=True)
    return _PEER_SRV_CACHE[(lo, hi)]


def control_ctx(kind: str, role: str):
    if (kind, role) not in _CTRL_CACHE:
        with tls_peer.cert_files(harness_cert()) as (_d, cf, kf):
            _CTRL_CACHE[(kind, role)] = tls_paths.control(kind, role, cf, kf)
    return _CTRL_CACHE[(kind, role)]


def _spy_factory(log: dict):
    from nauyaca.protocol.response import GeminiResponse
    from nauyaca.server.protocol import GeminiServerProtocol

    def h(req):
        log["h"] = log.get("h", 0) + 1
        return GeminiResponse(20, "text/gemini", "REACHED-HANDLER")

    return lambda: GeminiServerProtocol(h, None)


def _vname(v: int | None) -> str:
    return "none" if v is None else VERS[v]


def probe(kind: str, role: str, ctx, lo: int, hi: int, cc: bool = False, through_pump: bool = True) -> dict:
    """One memory-BIO handshake between `ctx` (nauyaca's or a control) and a permissive peer offering [lo, hi]."""
    try:
        if role == "server":
            if cc:
                with tls_peer.cert_files(tls_peer.make_cert("client")) as (_d, cf, kf):
                    pc = tls_peer.peer_client_ctx(lo, hi, True, (cf, kf))
            else:
                pc = tls_peer.peer_client_ctx(lo, hi, True)
            client = tls_peer.StdEnd(pc, False)
            if kind == "std":
                server = tls_peer.StdEnd(ctx, True)
            elif through_pump:
                server = tls_peer.PumpEnd(ctx, _spy_factory({}))
            else:
                server = tls_peer.PyoEnd(ctx)
        else:
            client = tls_peer.StdEnd(ctx, False, "localhost")
            server = tls_peer.StdEnd(peer_server(lo, hi), True)
    except (ValueError, OSError) as e:
        # the peer itself cannot be configured for this range (e.g. only SSLv3): nothing can be offered
        return {"v": None, "client_err": "peer-unconfigurable:" + type(e).__name__, "server_err": None}
    r = tls_peer.handshake(client, server)
    if isinstance(server, tls_peer.PumpEnd):
        r["inner_made"] = server.made
        server.finish()
    return r


# ------------------------------------------------------------------------------------------------
# extraction: Gen/Tls.lean
# ------------------------------------------------------------------------------------------------
def measure_path(pid: int) -> tuple[int, int, str]:
    """(lowest, highest) enabled version of the real context of this path + how it was obtained."""
    kind, role, ctx = tls_paths.build(pid)
    if kind == "none" or ctx is None:
        return 0, 4, "NO TLS CONTEXT on this listener"
    if kind == "std":
        return tls_peer.rank_of_tlsversion(ctx.minimum_version), tls_peer.rank_of_tlsversion(ctx.maximum_version), "SSLContext.minimum_version/maximum_version"
    tls_paths.lower_security_level(kind, ctx)
    done = [v for v in range(0, 5) if probe(kind, role, ctx, v, v, through_pump=False)["v"] == v]
    if not done:
        raise RuntimeError("no protocol version completes against this context")
    return min(done), max(done), "lowest/highest single version a permissive memory-BIO peer completes at security level 0"


def control_facts() -> tuple[bool, bool]:
    """(TLS 1.0 negotiable between control contexts, SSLv3 available)."""
    old = all(probe(k, r, control_ctx(k, r), 1, 1, through_pump=False)["v"] == 1 for k, r in (("std", "server"), ("pyo", "server"), ("std", "client")))
    s3 = any(probe(k, r, control_ctx(k, r), 0, 0, through_pump=False)["v"] == 0 for k, r in (("std", "server"), ("pyo", "server")))
    return old, s3


def render_tls() -> tuple[str, list[str]]:
    core.setup_import_path()
    rows, problems = [], []
    for pid, name, what in tls_paths.PATHS:
        try:
            lo, hi, how = measure_path(pid)
            rows.append(f"  ({pid}, {lo}, {hi})" + ("," if pid != tls_paths.PATHS[-1][0] else "") + f"  -- {name}: {VERS[lo]}..{VERS[hi]} ({how})")
        except Exception as e:  # noqa: BLE001
            problems.append(f"path {pid} {name}: {type(e).__name__}: {e}")
            rows.append(f"  -- ({pid}, ?, ?)  {name}: NOT MEASURABLE ({type(e).__name__}: {str(e)[:120]})")
    # a trailing comma before `]` is not Lean syntax: make sure the last data row has none
    data_idx = [i for i, r in enumerate(rows) if r.lstrip().startswith("(")]
    for i in data_idx:
        head, sep, tail = rows[i].partition("  -- ")
        head = head.rstrip().rstrip(",")
        rows[i] = head + ("," if i != data_idx[-1] else "") + sep + tail
    try:
        old, s3 = control_facts()
    except Exception as e:  # noqa: BLE001
        problems.append(f"control contexts: {type(e).__name__}: {e}")
        old, s3 = False, False
    try:
        chunk = tls_peer.measure_write_chunk()
        chunk_line = f"def responseWriteChunk : Nat := {chunk}   -- pieces in which _send_response writes a body (0 = one piece); measured on the real protocol"
    except Exception as e:  # noqa: BLE001
        problems.append(f"response write pattern: {type(e).__name__}: {e}")
        chunk_line = f"-- responseWriteChunk: NOT MEASURABLE ({type(e).__name__}: {str(e)[:120]})"
    names = ", ".join('"' + n + '"' for _, n, _ in tls_paths.PATHS)
    text = "\n".join([
        "-- GENERATED by harness/props/c20.py (extract_extra) from the REAL context objects on every run — do not edit",
        "namespace NauyacaVerif.Gen",
        "/-- (path id, lowest enabled protocol version, highest enabled protocol version);",
        "    versions: 0 = SSLv3, 1 = TLS 1.0, 2 = TLS 1.1, 3 = TLS 1.2, 4 = TLS 1.3 -/",
        "def contextPaths : List (Nat × Nat × Nat) := [",
        *rows,
        "]",
        f"def contextPathNames : List String := [{names}]",
        f"def sslv3Available : Bool := {'true' if s3 else 'false'}",
        f"def oldTlsNegotiable : Bool := {'true' if old else 'false'}   -- control contexts complete TLS 1.0 in this OpenSSL",
        chunk_line,
        "end NauyacaVerif.Gen", ""])
    return text, problems


def extract_extra() -> list[str]:
    """Called by ./check under the lake lock, before the build."""
    text, problems = render_tls()
    _TLS_LEAN.parent.mkdir(exist_ok=True)
    if not _TLS_LEAN.exists() or _TLS_LEAN.read_text() != text:
        _TLS_LEAN.write_text(text)
    for p in problems:
        print(f"[C20] extraction problem: {p}")
    return problems


# ------------------------------------------------------------------------------------------------
# family 1: version ranges against every construction path
# ------------------------------------------------------------------------------------------------
RANGES = [(a, b) for a in range(0, 5) for b in range(a, 5)]


class Versions(Family):
    realtime = True     # runs on the wall clock (sockets, threads): a failure is re-run once before it counts (core.run_family)
    name = "versions"
    parallel = False
    quick_n = 2 * len(tls_paths.PATHS) * len(RANGES) + 3 * len(RANGES)
    thorough_n = quick_n + 1

    def gen(self, rng: random.Random, n: int):
        fresh = n > self.quick_n   # thorough tier: a newly built context for every case
        cases = []
        for pid, _n, _w in tls_paths.PATHS:
            for lo, hi in RANGES:
                for sec0 in (False, True):
                    cases.append({"path": pid, "lo": lo, "hi": hi, "sec0": sec0, "cc": False, "fresh": fresh})
        for pid in (5, 6, 13):   # PyOpenSSL paths that request client certificates: the peer presents one
            for lo, hi in RANGES:
                cases.append({"path": pid, "lo": lo, "hi": hi, "sec0": True, "cc": True, "fresh": fresh})
        rng.shuffle(cases)
        # old-only ranges first (the boundary of the property)
        cases.sort(key=lambda c: 0 if c["hi"] <= 2 else 1)
        yield from cases[:n] if not fresh else cases

    def impl(self, case):
        pid, lo, hi = case["path"], case["lo"], case["hi"]
        kind, role, ctx = get_ctx(pid, case["sec0"], case.get("fresh", False))
        if ctx is None:
            return {"v": "no-tls-context", "ctrl": "none", "kind": kind, "role": role}
        r = probe(kind, role, ctx, lo, hi, cc=case["cc"])
        c = probe(kind, role, control_ctx(kind, role), lo, hi, cc=case["cc"], through_pump=False)
        obs = {"v": _vname(r["v"]), "ctrl": _vname(c["v"]), "kind": kind, "role": role,
               "err": [r.get("client_err"), r.get("server_err")]}
        if "inner_made" in r:
            obs["inner_made"] = r["inner_made"]
        return obs

    def model(self, case):
        return f"tlsver {case['path']} {case['lo']} {case['hi']}"

    def expect(self, case, out):
        m = re.fullmatch(r"ok v=(\w+) ctrl=(\w+)", out)
        if not m:
            return {"v": "model:" + out, "ctrl": "?"}
        return {"v": m.group(1), "ctrl": m.group(2)}

    def same(self, expected, obs):
        return expected["v"] == obs["v"] and expected["ctrl"] == obs["ctrl"]

    def oracle(self, case, obs):
        name = tls_paths.NAME[case["path"]]
        how = "with the context's OpenSSL security level lowered to 0 (system configuration; the version setting is then the only barrier)" \
            if case["sec0"] else "with the context exactly as nauyaca built it"
        if obs["v"] == "no-tls-context":
            return (f"no-tls-{name}", f"{name}: the listener gets neither an ssl= context nor a TLSServerProtocol: it would serve without TLS")
        if obs["v"] in ("ssl3", "tls10", "tls11"):
            who = "server context" if obs["role"] == "server" else "client context"
            return (f"old-tls-{name}" + ("-level0" if case["sec0"] else ""),
                    f"{who} from {name} completed a {obs['v']} handshake with a permissive peer offering {VERS[case['lo']]}..{VERS[case['hi']]}, {how}")
        if obs.get("inner_made") and obs["v"] == "none":
            return (f"inner-without-handshake-{name}", "the inner protocol was created although no handshake completed")
        return None

    def key(self, case, obs):
        lo, hi = case["lo"], case["hi"]
        cls = "ssl3-only" if hi == 0 else "old-only" if hi <= 2 else "modern-only" if lo >= 3 else "old+modern"
        return f"{obs['role']}/{obs['kind']} {'level0' if case['sec0'] else 'as-built'}{' +clientcert' if case['cc'] else ''} peer {cls} -> {obs['v']} (control {obs['ctrl']})"


# ------------------------------------------------------------------------------------------------
# family 2: plaintext into the PyOpenSSL pump (memory BIO, virtual clock)
# ------------------------------------------------------------------------------------------------
class VLoop(asyncio.SelectorEventLoop):
    def __init__(self):
        super().__init__()
        self.vt = 0.0

    def time(self):
        return self.vt


PLAIN_LINES = [b"gemini://localhost/\r\n", b"gemini://localhost/secret.gmi\r\n", b"titan://localhost/up;size=3;mime=text/plain\r\nabc",
               b"GET / HTTP/1.1\r\nHost: localhost\r\n\r\n", b"\r\n", b"gemini://localhost/" + b"a" * 1100 + b"\r\n", b"20 text/gemini\r\n",
               b"\x16\x03\x01", b"\x16\x03\x01\x00\x05hello", b"\x17\x03\x03\x00\x10" + b"\x00" * 16, b"\x15\x03\x03\x00\x02\x02\x28",
               b"\x80\x2e\x01\x00\x02", b"SSH-2.0-OpenSSH_9.6\r\n", b"\x00", b"\xff" * 64]


class Plaintext(Family):
    realtime = True     # runs on the wall clock (sockets, threads): a failure is re-run once before it counts (core.run_family)
    name = "plaintext"
    quick_n = 1600
    thorough_n = 160000

    def gen(self, rng: random.Random, n: int):
        fixed = list(self.share(PLAIN_LINES))   # this shard's part of the fixed list, then random payloads
        for i in range(max(n, len(fixed))):
            r = rng.random()
            if i < len(fixed):
                payload = fixed[i]
            elif r < 0.35:
                payload = rng.choice(PLAIN_LINES)
            elif r < 0.7:
                payload = bytes(rng.randrange(256) for _ in range(rng.choice([1, 2, 4, 5, 6, 11, 40, 300, 2000])))
            elif r < 0.85:   # starts like a TLS record header
                payload = bytes([rng.choice([20, 21, 22, 23, 24]), 3, rng.randrange(5)]) + rng.randrange(0, 70).to_bytes(2, "big") + bytes(rng.randrange(256) for _ in range(rng.randint(0, 80)))
            else:
                payload = b"gemini://localhost/" + bytes(rng.choice(b"abcdefghij/%2e?=") for _ in range(rng.randint(0, 60))) + b"\r\n"
            k = rng.randint(0, 3)
            cuts = sorted(rng.sample(range(1, len(payload)), min(k, len(payload) - 1))) if len(payload) > 1 else []
            chunks = [payload[a:b].hex() for a, b in zip([0] + cuts, cuts + [len(payload)])]
            yield {"path": rng.choice([4, 5, 6, 13, 14]), "tls_first": rng.random() < 0.3, "chunks": chunks,
                   "then": rng.choice(["timeout", "timeout", "lost", "nothing"]), "peer_max": rng.choice([4, 4, 3])}

    def impl(self, case):
        kind, role, ctx = get_ctx(case["path"], False)
        loop = VLoop()
        log: dict = {}
        try:
            return loop.run_until_complete(self._go(loop, ctx, case, log))
        finally:
            loop.close()

    async def _go(self, loop, ctx, case, log):
        end = tls_peer.PumpEnd(ctx, _spy_factory(log))
        out = b""
        evs = []
        if case["tls_first"]:
            cl = tls_peer.StdEnd(tls_peer.peer_client_ctx(3, case["peer_max"], permissive=False), False)
            cl.step()
            hello = cl.take()
            end.give(hello)
            out += end.take()
            evs.append("r:h")
        closed_at = None
        for i, ch in enumerate(case["chunks"]):
            if end.tcp.closed:
                break
            end.give(bytes.fromhex(ch))
            out += end.take()
            # the engine either still waits for a whole record (nothing completed) or has rejected the bytes
            evs.append("r:b" if end.tcp.closed else "r:")
            if end.tcp.closed and closed_at is None:
                closed_at = i
        for _ in range(3):
            await asyncio.sleep(0)
        if case["then"] == "timeout":
            loop.vt += 30.5
            for _ in range(4):
                await asyncio.sleep(0)
            evs.append("T")
        elif case["then"] == "lost":
            end.sp.connection_lost(None)
            evs.append("L")
        out += end.take()
        dropped = b"".join(end.tcp.dropped)
        obs = {"closed": end.tcp.closed, "inner": end.made > 0, "h": log.get("h", 0), "hs": end.done,
               "out_tls": tls_peer.looks_like_tls(out), "out_len": len(out), "out_head": out[:24].hex(),
               "gemini_like": bool(re.match(rb"[1-6][0-9][ \r]", out) or b"REACHED-HANDLER" in out or re.match(rb"[1-6][0-9][ \r]", dropped)),
               "raised": end.raised, "evs": evs}
        if case["then"] != "lost":
            end.finish()
        return obs

    def oracle(self, case, obs):
        if obs["h"]:
            return ("plaintext-reached-handler", f"a handler ran {obs['h']} time(s) for bytes sent without a completed TLS handshake")
        if obs["gemini_like"]:
            return ("plaintext-got-response", f"the server answered plaintext with Gemini response bytes: {obs['out_head']}")
        if obs["out_len"] and not obs["out_tls"]:
            return ("plaintext-got-nontls-bytes", f"bytes that are not TLS records were written in answer to plaintext: {obs['out_head']}")
        return None

    def key(self, case, obs):
        return f"{'tls-hello-then-' if case['tls_first'] else ''}plaintext closed={obs['closed']} inner={obs['inner']} then={case['then']} out={'alert' if obs['out_len'] and not case['tls_first'] else 'flight' if obs['out_len'] else 'nothing'}"


class PlaintextModel(Plaintext):
    """Same cases; additionally compared with the `pump` model.  WHEN OpenSSL rejects the bytes is an
    engine decision that the model takes as input (item `b` vs an empty read), so the driver line is
    built from the verdicts recorded while the implementation ran."""

    def __init__(self):
        self._evs: dict = {}

    def impl(self, case):
        obs = super().impl(case)
        self._evs[core.case_digest(case)] = obs["evs"]
        return obs

    def model(self, case):
        evs = self._evs.get(core.case_digest(case))
        if evs is None:
            evs = super().impl(case)["evs"]
        return "pump 0 s:20/74/n " + " ".join(evs)

    def expect(self, case, out):
        m = re.fullmatch(r"ok plain=(\S+) tcpclosed=(\w+) inner=(\w+) h=(\d+) u=(\d+)", out)
        if not m:
            return {"model": out}
        return {"closed": m.group(2) == "true", "inner": m.group(3) == "true", "h": int(m.group(4)), "plain": m.group(1)}

    def same(self, expected, obs):
        if "model" in expected:
            return False
        closed = obs["closed"]
        return expected["inner"] == obs["inner"] and expected["h"] == obs["h"] and expected["plain"] == "-" and \
            (expected["closed"] == closed or (obs["evs"] and obs["evs"][-1] == "L"))


# ------------------------------------------------------------------------------------------------
# family 3: both backends over loopback sockets behind the real start_server
# ------------------------------------------------------------------------------------------------
class Live(Family):
    realtime = True     # runs on the wall clock (sockets, threads): a failure is re-run once before it counts (core.run_family)
    name = "live"
    parallel = False
    quick_n = 4
    thorough_n = 160

    def gen(self, rng: random.Random, n: int):
        combos = [(b, s) for b in ("std", "pyo") for s in (True, False)]
        for i in range(n):
            backend, supplied = combos[i % 4]
            if i % 3 == 2:
                yield {"kind": "oldtls", "backend": backend, "supplied": supplied, "lo": rng.choice([1, 1, 2]), "hi": rng.choice([1, 2, 2])}
            else:
                payload = rng.choice(PLAIN_LINES[:8]) if rng.random() < 0.6 else bytes(rng.randrange(256) for _ in range(rng.choice([1, 7, 60, 900])))
                yield {"kind": "plain", "backend": backend, "supplied": supplied, "chunks": [payload.hex()]}

    def impl(self, case):
        import shutil
        import tempfile
        from pathlib import Path

        from nauyaca.server import handler as H

        root = tempfile.mkdtemp(prefix="nv-")
        (Path(root) / "index.gmi").write_text("# REACHED-HANDLER\n")
        calls = {"n": 0}
        orig = H.StaticFileHandler.handle

        def counting(self_, request):
            calls["n"] += 1
            return orig(self_, request)

        H.StaticFileHandler.handle = counting
        try:
            with tls_live.LiveServer(case["backend"], mode="start_server", supplied=case["supplied"], docroot=root) as srv:
                if case["kind"] == "plain":
                    r = tls_live.plaintext_probe(srv.port, [bytes.fromhex(c) for c in case["chunks"]])
                    got = r["got"]
                    obs = {"end": r["end"], "out_len": len(got), "out_tls": tls_peer.looks_like_tls(got), "out_head": got[:24].hex(),
                           "gemini_like": bool(re.match(rb"[1-6][0-9][ \r]", got) or b"REACHED-HANDLER" in got)}
                else:
                    lo, hi = min(case["lo"], case["hi"]), max(case["lo"], case["hi"])
                    buf = []
                    r = tls_live.tls_fetch(srv.port, b"gemini://localhost/\r\n", ctx=tls_peer.peer_client_ctx(lo, hi, True), timeout=5, sink=buf.append)
                    obs = {"end": r["eof"], "version": r["version"], "out_len": r["n"], "gemini_like": bool(buf), "out_tls": True, "out_head": b"".join(buf)[:24].hex()}
                    # control: the same server does serve a modern client (so the refusal above is about the version)
                    buf2 = []
                    r2 = tls_live.tls_fetch(srv.port, b"gemini://localhost/\r\n", timeout=5, sink=buf2.append)
                    obs["modern"] = [r2["version"], b"".join(buf2)[:2].decode("latin1")]
                obs["backend_used"] = srv.used_backend
            obs["h"] = calls["n"] if case["kind"] == "plain" else 0
            return obs
        finally:
            H.StaticFileHandler.handle = orig
            shutil.rmtree(root, ignore_errors=True)

    def oracle(self, case, obs):
        tag = f"{case['backend']}-{'supplied' if case['supplied'] else 'auto'}"
        if case["kind"] == "plain":
            if obs["h"]:
                return (f"live-plaintext-reached-handler-{tag}", "a handler ran for bytes sent to the TLS port without TLS")
            if obs["gemini_like"]:
                return (f"live-plaintext-got-response-{tag}", f"plaintext elicited Gemini response bytes: {obs['out_head']}")
            if obs["out_len"] and not obs["out_tls"]:
                return (f"live-plaintext-got-nontls-bytes-{tag}", f"non-TLS bytes in answer to plaintext: {obs['out_head']}")
            return None
        if obs.get("version") in ("TLSv1", "TLSv1.1", "SSLv3"):
            return (f"live-old-tls-{tag}", f"the server completed a {obs['version']} handshake over a real socket")
        return None

    def same(self, expected, obs):
        return True

    def key(self, case, obs):
        if case["kind"] == "plain":
            return f"{case['backend']}({obs['backend_used']}) {'supplied' if case['supplied'] else 'auto'} plaintext -> {obs['end']} out={'tls-alert' if obs['out_len'] else 'nothing'}"
        return f"{case['backend']}({obs['backend_used']}) {'supplied' if case['supplied'] else 'auto'} old-tls client -> {obs['end'].split(':')[0]}; modern {obs['modern'][0]}"


# ------------------------------------------------------------------------------------------------
# family 4: the real GeminiClient.get / upload against permissive loopback peers, in histories
# ------------------------------------------------------------------------------------------------
CLIENT_MODES = {"tofu": 7, "ca": 8, "plain": 9, "tofu_cert": 10, "custom": 9}   # -> row of Gen.contextPaths
# client identities the TLS library's own policy objects to (a 1024-bit RSA key, a SHA-1 signature): whatever the library does about
# them - refuse to build the client, or carry on - no handshake below TLS 1.2 may follow.  Direct oracle only (no model line).
WEAK_CLIENT_MODES = ("tofu_weakkey", "ca_weakkey", "tofu_sha1")
_WEAK_IDS: dict = {}


def weak_identity(kind: str) -> tuple[bytes, bytes]:
    if kind not in _WEAK_IDS:
        import datetime

        from cryptography import x509
        from cryptography.hazmat.primitives import hashes, serialization
        from cryptography.hazmat.primitives.asymmetric import rsa
        from cryptography.x509.oid import NameOID

        key = rsa.generate_private_key(65537, 1024 if kind.endswith("weakkey") else 2048)
        name = x509.Name([x509.NameAttribute(NameOID.COMMON_NAME, "weak client")])
        now = datetime.datetime.now(datetime.timezone.utc)
        cert = (x509.CertificateBuilder().subject_name(name).issuer_name(name).public_key(key.public_key()).serial_number(x509.random_serial_number())
                .not_valid_before(now - datetime.timedelta(days=1)).not_valid_after(now + datetime.timedelta(days=30))
                .sign(key, hashes.SHA1() if kind.endswith("sha1") else hashes.SHA256()))
        _WEAK_IDS[kind] = (cert.public_bytes(serialization.Encoding.PEM),
                           key.private_bytes(serialization.Encoding.PEM, serialization.PrivateFormat.TraditionalOpenSSL, serialization.NoEncryption()))
    return _WEAK_IDS[kind]
OLD_RANGES = [(1, 1), (1, 2), (2, 2), (0, 2), (0, 1)]
MODERN_RANGES = [(3, 4), (3, 3), (4, 4), (1, 4), (2, 3), (0, 4)]


class ClientHistories(Family):
    """The client side exercised behaviourally: the real GeminiClient (TOFU with a fresh store, TOFU
    with a store that already pins the host, TOFU with a client certificate, CA mode, no verification,
    caller-supplied nauyaca context) fetches from / uploads to ONE host:port whose TLS stack changes
    from step to step (permissive peer, security level 0, restricted to a version range; optionally
    resetting the first connection of a step, as an attacker or a broken stack would).  Observed at
    the peer: every completed handshake with its version and the request bytes that followed."""
    realtime = True     # runs on the wall clock (sockets, threads): a failure is re-run once before it counts (core.run_family)

    name = "client"
    quick_n = 160
    thorough_n = 900

    @staticmethod
    def _ops() -> list[str]:
        """the public coroutine methods of GeminiClient, read off the class in the working tree: every way the
        library opens a connection on behalf of its caller (get, upload, delete, and whatever is added later)"""
        import inspect

        try:
            from nauyaca.client.session import GeminiClient

            ops = sorted(n for n, _f in inspect.getmembers(GeminiClient, inspect.iscoroutinefunction) if not n.startswith("_"))
        except Exception:  # noqa: BLE001
            ops = []
        return ops or ["get", "upload"]

    def _shapes(self):
        out = []
        for mode in CLIENT_MODES:
            for op in self._ops():
                for old in ((1, 2), (1, 1)):
                    out.append((mode, op, [(old, False)]))                          # unknown host offers only old versions
                    out.append((mode, op, [((3, 4), False), (old, False)]))         # visited (pinned) before, then downgraded
                    out.append((mode, op, [((3, 4), False), (old, True)]))          # ... and the first connection is reset
                out.append((mode, op, [((1, 2), True)]))
                out.append((mode, op, [((3, 4), False), ((1, 4), False), ((2, 2), False), ((3, 3), False)]))
        for mode in WEAK_CLIENT_MODES:
            for op in self._ops()[:2]:
                out.append((mode, op, [((1, 2), False)]))
                out.append((mode, op, [((3, 4), False), ((1, 1), False)]))
        return out

    def gen(self, rng: random.Random, n: int):
        count = 0
        for mode, op, steps in self.share(self._shapes()):
            yield {"mode": mode, "op": op, "reuse_client": count % 2 == 0,
                   "steps": [{"lo": r[0], "hi": r[1], "reset_first": rf} for r, rf in steps]}
            count += 1
        ops = self._ops()
        while count < n:
            k = rng.randint(1, 4)
            steps = []
            for _ in range(k):
                lo, hi = rng.choice(OLD_RANGES if rng.random() < 0.55 else MODERN_RANGES)
                steps.append({"lo": lo, "hi": hi, "reset_first": rng.random() < 0.3})
            yield {"mode": rng.choice(list(CLIENT_MODES)), "op": rng.choice(["get"] + ops), "reuse_client": rng.random() < 0.5, "steps": steps}
            count += 1

    def impl(self, case):
        import os
        import shutil
        import tempfile
        from pathlib import Path

        from nauyaca.client.session import GeminiClient
        from nauyaca.security.tls import create_client_context

        tmp = tempfile.mkdtemp(prefix="nv-")
        peer = None
        old_env = os.environ.get("SSL_CERT_FILE")
        try:
            c, k = harness_cert()
            cf, kf = os.path.join(tmp, "c.pem"), os.path.join(tmp, "k.pem")
            Path(cf).write_bytes(c)
            Path(kf).write_bytes(k)
            peer = tls_startup.CertPeer({"A": (cf, kf)})   # VersionPeer with a close() that does not wait for the accept poll
            url = f"gemini://localhost:{peer.port}/page"
            mode = case["mode"]

            def make_client():
                kw = {"timeout": 5.0, "tofu_db_path": Path(tmp) / "tofu.db"}
                if mode == "tofu":
                    kw.update(verify_ssl=False, trust_on_first_use=True)
                elif mode == "tofu_cert":
                    cc, ck = tls_peer.make_cert("client")
                    (Path(tmp) / "cc.pem").write_bytes(cc)
                    (Path(tmp) / "ck.pem").write_bytes(ck)
                    kw.update(verify_ssl=False, trust_on_first_use=True, client_cert=Path(tmp) / "cc.pem", client_key=Path(tmp) / "ck.pem")
                elif mode in WEAK_CLIENT_MODES:
                    cc, ck = weak_identity(mode)
                    (Path(tmp) / "wc.pem").write_bytes(cc)
                    (Path(tmp) / "wk.pem").write_bytes(ck)
                    if mode.startswith("ca"):
                        os.environ["SSL_CERT_FILE"] = cf
                    kw.update(verify_ssl=mode.startswith("ca"), trust_on_first_use=not mode.startswith("ca"), client_cert=Path(tmp) / "wc.pem", client_key=Path(tmp) / "wk.pem")
                elif mode == "ca":
                    # CA mode verifies the peer against the default trust store: make the harness's certificate
                    # the trust store (the way a user would, via SSL_CERT_FILE) so that a handshake CAN succeed
                    os.environ["SSL_CERT_FILE"] = cf
                    kw.update(verify_ssl=True, trust_on_first_use=False)
                elif mode == "plain":
                    kw.update(verify_ssl=False, trust_on_first_use=False)
                else:   # a context supplied by the caller - one that nauyaca's own factory built
                    kw.update(ssl_context=create_client_context(), trust_on_first_use=True)
                return GeminiClient(**kw)

            outcomes = []

            async def go():
                client = None
                for i, st in enumerate(case["steps"]):
                    peer.set_step(i, st["lo"], st["hi"], st["reset_first"])
                    try:
                        if client is None or not case["reuse_client"]:
                            client = make_client()
                    except Exception as e:  # noqa: BLE001  (the library refuses to build a client with this identity: no connection is made)
                        outcomes.append("error:client-not-built:" + type(e).__name__)
                        client = None
                        continue
                    try:
                        if case["op"] == "get":
                            r = await client.get(url)
                        elif case["op"] == "upload":
                            r = await client.upload(url, b"uploaded-content-" + bytes([65 + i]) * 20, mime_type="text/plain")
                        else:   # delete(url), or a method this harness has no recipe for: the URL is all it is given
                            r = await getattr(client, case["op"])(url)
                        outcomes.append(f"ok:{getattr(r, 'status', '?')}")
                    except Exception as e:  # noqa: BLE001
                        outcomes.append("error:" + type(e).__name__)
                    await asyncio.sleep(0)
                    peer.settle()

            asyncio.run(go())
            peer.settle()
            steps = []
            for i, st in enumerate(case["steps"]):
                ents = [e for e in peer.log if e["step"] == i]
                steps.append({"completed": [e["hs"] for e in ents if e["hs"] in VERS], "req": [e["req"] for e in ents if e["hs"] in VERS],
                              "attempts": [e["hs"].split(":")[0] for e in ents], "outcome": outcomes[i] if i < len(outcomes) else "?"})
            return {"steps": steps}
        finally:
            if peer:
                peer.close()
            if old_env is None:
                os.environ.pop("SSL_CERT_FILE", None)
            else:
                os.environ["SSL_CERT_FILE"] = old_env
            shutil.rmtree(tmp, ignore_errors=True)

    def model(self, case):
        if case["mode"] in WEAK_CLIENT_MODES:
            return None
        return f"tlsvers {CLIENT_MODES[case['mode']]} " + " ".join(f"{s['lo']} {s['hi']}" for s in case["steps"])

    def expect(self, case, out):
        if not out.startswith("ok "):
            return {"model": out}
        vs = out[3:].split(",")
        # the client makes ONE connection per request: a reset first connection ends the request
        return {"steps": [{"completed": ([] if (v == "none" or st["reset_first"]) else [v])} for v, st in zip(vs, case["steps"])]}

    def same(self, expected, obs):
        if "model" in expected:
            return False
        return [s["completed"] for s in expected["steps"]] == [s["completed"] for s in obs["steps"]]

    def oracle(self, case, obs):
        for i, (st, o) in enumerate(zip(case["steps"], obs["steps"])):
            for v, req in zip(o["completed"], o["req"]):
                if v in ("ssl3", "tls10", "tls11"):
                    hist = " -> ".join(f"{VERS[s['lo']]}..{VERS[s['hi']]}{' (first connection reset)' if s['reset_first'] else ''}" for s in case["steps"][:i + 1])
                    return (f"client-old-tls-{case['mode']}",
                            f"GeminiClient.{case['op']} ({case['mode']} mode, {'same client object' if case['reuse_client'] else 'new client, same TOFU store'}) completed a {v} "
                            f"handshake with the peer in step {i + 1} of the history [{hist}] and sent {req} request bytes to it (connection attempts in that step: {o['attempts']})")
        return None

    def key(self, case, obs):
        def cls(s):
            return ("old" if s["hi"] <= 2 else "modern" if s["lo"] >= 3 else "old+modern") + ("/reset-first" if s["reset_first"] else "")
        # (the operations alternate uniformly; at most 40 classes are printed)
        return f"{case['mode']}: " + " > ".join(cls(s) for s in case["steps"][:2]) + (" > ..." if len(case["steps"]) > 2 else "")


# ------------------------------------------------------------------------------------------------
# family 5: the configuration space of the start-up paths, probed at the listener start_server builds
# ------------------------------------------------------------------------------------------------
_FP = "ab" * 32
AUTH_SHAPES: dict[str, list | None] = {
    "no-cert-auth": None,
    "empty-rule-list": [],
    "exempting-rule-only": [{"prefix": "/public/", "require_cert": False, "fps": None}],
    "exempting-root-rule": [{"prefix": "/", "require_cert": False, "fps": None}],
    "two-exempting-rules": [{"prefix": "/public/", "require_cert": False, "fps": None}, {"prefix": "/docs/", "require_cert": False, "fps": None}],
    "requiring-rule": [{"prefix": "/private/", "require_cert": True, "fps": None}],
    "exempting-then-requiring": [{"prefix": "/public/", "require_cert": False, "fps": None}, {"prefix": "/", "require_cert": True, "fps": None}],
    "fingerprints-only": [{"prefix": "/admin/", "require_cert": False, "fps": [_FP]}],
    "empty-fingerprint-list": [{"prefix": "/admin/", "require_cert": False, "fps": []}],
    "requiring-with-fingerprints": [{"prefix": "/admin/", "require_cert": True, "fps": [_FP]}],
}
OLD_TLS = ("SSLv3", "TLSv1", "TLSv1.1")


def _auth_class(auth) -> str:
    """class of a certificate_auth configuration, from its content (not from the table above)"""
    if auth is None:
        return "no-cert-auth"
    if not auth:
        return "cert-auth/no-rules"
    if any(r["require_cert"] for r in auth):
        return "cert-auth/some-rule-requires"
    if any(r.get("fps") is not None for r in auth):
        return "cert-auth/fingerprints-only"
    return "cert-auth/exempting-rules-only"


_STARTUP_CTRL: dict = {}


class Startup(Family):
    """Every supported configuration: {start_server(...), `nauyaca serve --config`} x certificate
    {auto-generated, supplied RSA-2048 / EC, supplied below the security level: RSA-1024, SHA-1 signed}
    x require_client_cert x certificate_auth configurations (none, empty, exempting rules only,
    requiring rules, fingerprint lists).  The real server is started on a loopback socket and the
    listener it built is probed: plaintext, permissive old-version TLS clients (with and without a client
    certificate) and a modern client as a control.  A server that refuses to start satisfies the
    property; one that starts must not serve below TLS 1.2 and must not serve without TLS."""
    realtime = True     # runs on the wall clock (sockets, threads): a failure is re-run once before it counts (core.run_family)

    name = "startup"
    quick_n = 240
    thorough_n = 2400

    def _probes(self, rng: random.Random, many: bool) -> list[dict]:
        ps = [{"kind": "plain", "chunks": [PLAIN_LINES[0].hex()]}]
        extra = rng.choice(PLAIN_LINES[1:6] + PLAIN_LINES[9:11] + [PLAIN_LINES[12]]) if rng.random() < 0.75 else \
            bytes(rng.randrange(256) for _ in range(rng.choice([7, 60, 900])))
        k = rng.randint(0, 2)
        cuts = sorted(rng.sample(range(1, len(extra)), min(k, len(extra) - 1))) if len(extra) > 1 else []
        ps.append({"kind": "plain", "chunks": [extra[a:b].hex() for a, b in zip([0] + cuts, cuts + [len(extra)])]})
        olds = [(1, 1), (2, 2), (1, 2), (0, 2)]
        rng.shuffle(olds)
        for lo, hi in (olds if many else olds[:2]):
            ps.append({"kind": "tls", "lo": lo, "hi": hi, "cc": rng.random() < 0.5})
        if (1, 1) not in [(p.get("lo"), p.get("hi")) for p in ps]:
            ps.append({"kind": "tls", "lo": 1, "hi": 1, "cc": False})
        ps.append({"kind": "tls", "lo": rng.choice([1, 3]), "hi": 4, "cc": rng.random() < 0.5})
        return ps

    def _product(self) -> list[dict]:
        out = []
        for cert in tls_startup.CERT_KINDS:
            for rcc in (False, True):
                for shape, auth in AUTH_SHAPES.items():
                    for entry in ("api", "cli"):
                        out.append({"entry": entry, "cert": cert, "rcc": rcc, "shape": shape, "auth": auth})
        random.Random(20).shuffle(out)
        # the boundary of the property first: configurations in which nothing asks for a client certificate
        # although certificate_auth is configured, and certificates OpenSSL's default level would refuse
        out.sort(key=lambda c: 0 if (_auth_class(c["auth"]) in ("cert-auth/no-rules", "cert-auth/exempting-rules-only") and not c["rcc"]) or c["cert"] in tls_startup.WEAK_KINDS else 1)
        return out

    def gen(self, rng: random.Random, n: int):
        many = n >= 100   # thorough tier: every old range against every configuration
        count = 0
        for cfg in self.share(self._product()):
            yield dict(cfg, probes=self._probes(rng, many))
            count += 1
        while count < n:
            rules = []
            for _ in range(rng.choice([0, 1, 1, 2, 3])):
                fps = rng.choice([None, None, None, [], [_FP], [_FP, "cd" * 32]])
                rules.append({"prefix": rng.choice(["/", "/public/", "/private/", "/a", "/admin/", "/docs/x/"]),
                              "require_cert": rng.random() < 0.3, "fps": fps})
            auth = None if rng.random() < 0.1 else rules
            yield {"entry": rng.choice(["api", "cli"]), "cert": rng.choice(tls_startup.CERT_KINDS), "rcc": rng.random() < 0.3,
                   "shape": "random", "auth": auth, "probes": self._probes(rng, True)}
            count += 1

    def impl(self, case):
        import shutil
        import tempfile
        from pathlib import Path

        from nauyaca.server import handler as H

        root = tempfile.mkdtemp(prefix="nv-")
        (Path(root) / "index.gmi").write_text("# REACHED-HANDLER\n")
        (Path(root) / "public").mkdir()
        (Path(root) / "public" / "index.gmi").write_text("# REACHED-HANDLER public\n")
        calls = {"n": 0}
        orig = H.StaticFileHandler.handle

        def counting(self_, request):
            calls["n"] += 1
            return orig(self_, request)

        H.StaticFileHandler.handle = counting
        if case["cert"] not in _STARTUP_CTRL:   # once per process and certificate kind: the old version IS negotiable with this certificate
            _STARTUP_CTRL[case["cert"]] = tls_startup.control_negotiates(case["cert"], 1, 1)
        obs = {"started": False, "error": None, "listener": "-", "probes": [], "control_tls10": _STARTUP_CTRL[case["cert"]]}
        try:
            with tls_startup.Started(case["entry"], case["cert"], case["rcc"], case["auth"], root, extra=case.get("extra")) as srv:
                obs["started"], obs["error"], obs["listener"] = srv.started, srv.error, srv.backend
                if not srv.started:
                    return obs
                cc_files = None
                for p in case["probes"]:
                    before = calls["n"]
                    if p["kind"] == "lower":
                        # from here on OpenSSL's security level (system configuration) is out of the picture on the running listener
                        obs["probes"].append({"lowered": srv.lower_security_level(), "h": 0})
                        continue
                    if p["kind"] == "plain":
                        r = tls_live.plaintext_probe(srv.port, [bytes.fromhex(c) for c in p["chunks"]], wait=0.3)
                        got = r["got"]
                        o = {"end": r["end"], "out_len": len(got), "out_tls": tls_peer.looks_like_tls(got), "out_head": got[:24].hex(),
                             "gemini_like": bool(re.match(rb"[1-6][0-9][ \r]", got) or b"REACHED-HANDLER" in got)}
                    else:
                        certkey = None
                        if p["cc"]:
                            if cc_files is None:
                                if "cc" not in _STARTUP_CTRL:      # one client certificate per process (key generation is slow)
                                    _STARTUP_CTRL["cc"] = tls_peer.make_cert("client")
                                cc, ck = _STARTUP_CTRL["cc"]
                                (Path(root) / ".cc.pem").write_bytes(cc)
                                (Path(root) / ".ck.pem").write_bytes(ck)
                                cc_files = (str(Path(root) / ".cc.pem"), str(Path(root) / ".ck.pem"))
                            certkey = cc_files
                        buf = []
                        try:
                            r = tls_live.tls_fetch(srv.port, b"gemini://localhost/\r\n", ctx=tls_peer.peer_client_ctx(p["lo"], p["hi"], True, certkey),
                                                   timeout=5, sink=buf.append)
                        except (OSError, ValueError) as e:   # e.g. the connection is reset while the request is written
                            r = {"eof": "error:" + type(e).__name__, "version": None}
                        o = {"end": r["eof"].split(":")[0], "version": r["version"], "resp": b"".join(buf)[:2].decode("latin1")}
                    o["h"] = calls["n"] - before
                    obs["probes"].append(o)
            return obs
        finally:
            H.StaticFileHandler.handle = orig
            shutil.rmtree(root, ignore_errors=True)

    @staticmethod
    def _describe(case) -> str:
        how = {"api": "start_server(config, certificate_auth_config=...)", "cli": "`nauyaca serve --config <toml>`",
               "toml": "start_server(ServerConfig.from_toml(<toml>), ...)"}[case["entry"]]
        cert = "no certificate configured (auto-generated)" if case["cert"] == "auto" else f"supplied {case['cert']} certificate"
        auth = "no certificate_auth" if case["auth"] is None else "certificate_auth rules " + json.dumps(case["auth"])
        extra = "".join(f", [{t}] {k} = {v}" for t, k, v in case.get("extra") or [])
        return f"{how}, {cert}, require_client_cert={case['rcc']}, {auth}" + (f"; further lines of the configuration file: {extra[2:]}" if extra else "")

    def oracle(self, case, obs):
        if not obs["started"]:
            return None   # refusing to serve is no service
        tag = f"{case['entry']}-{'auto' if case['cert'] == 'auto' else 'weak' if case['cert'] in tls_startup.WEAK_KINDS else 'supplied'}"
        lowered = ""
        for p, o in zip(case["probes"], obs["probes"]):
            if p["kind"] == "lower":
                if o.get("lowered"):
                    tag += "-level0"
                    lowered = (" after the OpenSSL security level of the running listener's context was lowered to 0 (system configuration, not "
                               "nauyaca's: the protocol-version range nauyaca set is then the only barrier)")
                continue
            if p["kind"] == "plain":
                sent = b"".join(bytes.fromhex(c) for c in p["chunks"])[:40]
                if o["h"]:
                    return (f"startup-plaintext-reached-handler-{tag}",
                            f"the server started by [{self._describe(case)}] ran a handler {o['h']} time(s) for {sent!r} sent to its port without TLS (answer: {bytes.fromhex(o['out_head'])!r})")
                if o["gemini_like"]:
                    return (f"startup-plaintext-got-response-{tag}",
                            f"the server started by [{self._describe(case)}] answered {sent!r} sent without TLS with Gemini response bytes {bytes.fromhex(o['out_head'])!r}")
                if o["out_len"] and not o["out_tls"]:
                    return (f"startup-plaintext-got-nontls-bytes-{tag}",
                            f"the server started by [{self._describe(case)}] answered {sent!r} sent without TLS with bytes that are not TLS records: {o['out_head']}")
            else:
                if o["version"] in OLD_TLS:
                    return (f"startup-old-tls-{tag}",
                            f"the server started by [{self._describe(case)}] completed a {o['version']} handshake{lowered} with a permissive client offering "
                            f"{VERS[p['lo']]}..{VERS[p['hi']]}{' and presenting a client certificate' if p['cc'] else ''} (response read afterwards: {o['resp']!r}; a permissive control server with the same certificate negotiates {obs.get('control_tls10')} with a TLS 1.0 client)")
                if o["resp"] and o["version"] not in ("TLSv1.2", "TLSv1.3"):
                    return (f"startup-response-without-modern-tls-{tag}", f"a response {o['resp']!r} was read on a connection whose TLS version is {o['version']}")
        return None

    def same(self, expected, obs):
        return True

    def key(self, case, obs):
        # (both entry points alternate uniformly over every class; at most 40 classes are printed)
        cert = "auto" if case["cert"] == "auto" else "weak-key" if case["cert"].startswith("rsa1024") else "sha1-signed" if case["cert"].endswith("sha1") else "supplied"
        head = f"cert={cert} rcc={'y' if case['rcc'] else 'n'} {_auth_class(case['auth'])}"
        if not obs["started"]:
            return f"{head} -> refuses to start ({obs['error']})"
        plain = sorted({("alert" if o["out_len"] else "nothing") for p, o in zip(case["probes"], obs["probes"]) if p["kind"] == "plain"})
        old = sorted({str(o["version"] or "refused") for p, o in zip(case["probes"], obs["probes"]) if p["kind"] == "tls" and p["hi"] <= 2})
        modern = sorted({str(o["version"] or "refused") for p, o in zip(case["probes"], obs["probes"]) if p["kind"] == "tls" and p["hi"] > 2})
        return f"{head} -> {obs['listener']}; plaintext {'/'.join(plain)}; old clients {'/'.join(old)}; modern {'/'.join(modern)}"


# ------------------------------------------------------------------------------------------------
# family 5b: every setting a configuration file can carry, in every TOML type
# ------------------------------------------------------------------------------------------------
# settings the harness writes itself (Started.toml_text); every OTHER (table, key) the loader of the working tree reads is varied
KNOWN_SETTINGS = {("server", "host"), ("server", "port"), ("server", "document_root"), ("server", "certfile"), ("server", "keyfile"),
                  ("server", "require_client_cert"), ("rate_limit", "enabled"), ("certificate_auth", "paths")}
# values as TOML text, of every TOML type, from the vocabulary of this property: protocol versions in the spellings operators
# use (quoted and unquoted, dotted, OpenSSL names, wire numbers), cipher strings (among them ones that set the security
# level), and the generic rest (booleans, empty, arrays, inline tables, dates, special floats)
TOML_VALUES = [
    '"1.0"', '"1.1"', '"1.2"', '"1.3"', '1.0', '1.1', '1.2', '1.3', '"1"', '1', '2', '3', '0', '10', '11', '12', '13', '0x0301', '0x0303', '769', '771', '772', '-1', '0.0', '1.20', '1.30',
    '"TLSv1"', '"TLSv1.1"', '"TLSv1.2"', '"TLSv1.3"', '"TLSv1_2"', '"tls1.2"', '"SSLv3"', '"TLS 1.0"', '"1.2 "', "'1.2'", "'1.3'",
    '"DEFAULT:@SECLEVEL=0"', '"ALL:@SECLEVEL=0"', '"DEFAULT"', '"ALL"', '"HIGH:!aNULL"', '"ECDHE+AESGCM"', '"AES128-SHA:@SECLEVEL=0"', '"ALL:COMPLEMENTOFALL:@SECLEVEL=0"', '"@SECLEVEL=0"',
    '"DEFAULT:@SECLEVEL=1"', '"no-such-cipher"', 'true', 'false', '""', '[]', '["1.0"]', '[1.2]', '["TLSv1", "TLSv1.1"]', '["ALL:@SECLEVEL=0"]', '{ min = "1.0" }', '1979-05-27', 'inf', 'nan',
]


def retyped(default) -> list[str]:
    """the default of a setting written in the OTHER TOML types an operator may use for it (quoted <-> unquoted)"""
    out = []
    if isinstance(default, bool):
        out += [json.dumps(default), json.dumps(json.dumps(default)), str(int(default))]
    elif isinstance(default, (int, float)):
        out += [repr(default), json.dumps(repr(default)), repr(float(default)), repr(int(default))]
    elif isinstance(default, str):
        out.append(json.dumps(default))
        try:
            float(default)
            out += [default, "[" + default + "]"]          # "1.2" -> 1.2
        except ValueError:
            out.append("[" + json.dumps(default) + "]")
    return list(dict.fromkeys(out))


_SETTINGS_PLAN: dict = {}


class Settings(Startup):
    """The configuration FILE is the operator's interface: every (table, key) the loader of the working tree reads - enumerated
    from the syntax tree of nauyaca/server/config.py, minus the few the harness needs for itself - is given values of every
    TOML type (quoted and unquoted numbers, strings, booleans, arrays, inline tables, dates), alone and in combination with the
    other settings of its table.  Which values the loader takes is found out by calling the loader; configurations it takes are
    started for real - through `nauyaca serve --config` and through ServerConfig.from_toml + start_server, with auto-generated
    and supplied certificates, with and without client certificates - and the listener is probed: plaintext, permissive old-version
    clients, a modern control; then the same old-version clients again after the listener's OpenSSL security level was lowered to 0,
    so that a version floor that is only missing - and masked by the system's default level - shows.  A configuration that is
    refused satisfies the property; one that is served must not be served below TLS 1.2 or without TLS, whatever it says."""

    name = "settings"
    quick_n = 320
    thorough_n = 6400

    def _plan(self):
        """[(table, key, [accepted value texts]), ...] with the picky keys first, and the number of values tried per key"""
        import os

        if "plan" in _SETTINGS_PLAN:
            return _SETTINGS_PLAN["plan"]
        try:
            schema = [e for e in tls_startup.config_schema() if (e["table"], e["key"]) not in KNOWN_SETTINGS]
        except Exception:  # noqa: BLE001
            schema = []
        # fixed scratch directories (pool workers are terminated without running exit handlers: a directory per process would stay behind)
        root = os.path.join(__import__("tempfile").gettempdir(), "nv-c20settings")
        os.makedirs(root, exist_ok=True)
        cwd = os.getcwd()
        os.chdir(root)      # settings that name files or directories are resolved (and created) here
        plan = []
        try:
            for e in schema:
                values = list(dict.fromkeys(retyped(e["default"]) + TOML_VALUES))
                ok = [v for v in values if tls_startup.config_accepts([[e["table"], e["key"], v]], root)]
                plan.append({"table": e["table"], "key": e["key"], "ok": ok, "tried": len(values)})
        finally:
            os.chdir(cwd)
        # keys the loader is picky about (it interprets them when the file is read) first, the pickiest first
        plan.sort(key=lambda p: (0 if 0 < len(p["ok"]) < p["tried"] else 1, len(p["ok"])))
        _SETTINGS_PLAN["plan"] = plan
        return plan

    def _shell(self, rng, i):
        return {"entry": ("cli", "toml")[i % 2], "cert": ("auto", "rsa2048", "auto", "ec256")[(i // 2) % 4], "rcc": (i // 2) % 2 == 1,
                "shape": "settings", "auth": None if rng.random() < 0.8 else rng.choice([[], AUTH_SHAPES["requiring-rule"], AUTH_SHAPES["exempting-rule-only"]])}

    def _probes(self, rng: random.Random, many: bool) -> list[dict]:
        olds = [(1, 1), (2, 2), (1, 2), (0, 2)]
        ps = [{"kind": "plain", "chunks": [PLAIN_LINES[0].hex()]}, {"kind": "tls", "lo": 1, "hi": 1, "cc": rng.random() < 0.3}]
        ps.append({"kind": "tls", "lo": 2, "hi": 2, "cc": rng.random() < 0.5} if not many else {"kind": "tls", "lo": 1, "hi": 2, "cc": rng.random() < 0.5})
        ps.append({"kind": "tls", "lo": rng.choice([1, 3]), "hi": rng.choice([3, 4, 4]), "cc": rng.random() < 0.5})
        ps.append({"kind": "lower"})
        for lo, hi in ([(1, 1), rng.choice(olds[1:])] if not many else olds):
            ps.append({"kind": "tls", "lo": lo, "hi": hi, "cc": rng.random() < 0.4})
        return ps

    def gen(self, rng: random.Random, n: int):
        plan = self._plan()
        many = n >= 100
        singles = [[p["table"], p["key"], v] for p in plan for v in p["ok"]]
        count = 0
        # pairwise: every two values the loader takes on their own, for every two picky keys of one table (settings the loader
        # interprets together: a range, a policy) - each fine alone need not be fine together
        picky = [p for p in plan if 0 < len(p["ok"]) < p["tried"]]
        pairs = [[[a["table"], a["key"], va], [b["table"], b["key"], vb]] for i, a in enumerate(picky) for b in picky[i + 1:] if a["table"] == b["table"]
                 for va in a["ok"] for vb in b["ok"]]
        random.Random(20).shuffle(pairs)
        for i, pr in enumerate(self.share(pairs)):
            if count >= n:      # (a tree whose loader is picky about no two keys of one table has no pairs: the budget then goes to the stages below)
                break
            # (probed as built only: what a configuration file alone achieves; the stages below repeat the old-version probes at level 0)
            yield dict(self._shell(rng, i + self.shard[0]), extra=pr, probes=[q for q in self._probes(rng, True) if q["kind"] != "lower"])
            count += 1
        n = max(n, count + 8)
        top = count + max(4, (n - count) // 2)
        for i, s in enumerate(self.share(singles)):
            if count >= top:
                break       # (the picky keys come first; the others are also reached by the combinations below)
            yield dict(self._shell(rng, i + self.shard[0]), extra=[s], probes=self._probes(rng, many))
            count += 1
        # a refused value per key, for the record (refusing is no service)
        for p in self.share(plan):
            bad = [v for v in TOML_VALUES if v not in p["ok"]]
            if bad:
                yield dict(self._shell(rng, count), extra=[[p["table"], p["key"], rng.choice(bad)]], probes=self._probes(rng, False))
                count += 1
        # combinations within a table (weight: picky keys), every key absent or set to a value the loader takes on its own
        tables: dict[str, list] = {}
        for p in plan:
            if p["ok"]:
                tables.setdefault(p["table"], []).append(p)
        weighted = [t for t, ps in tables.items() for _ in range(1 + 3 * sum(1 for p in ps if len(p["ok"]) < p["tried"]))]
        while weighted and count < n:
            t = rng.choice(weighted)
            extra = [[t, p["key"], rng.choice(p["ok"])] for p in tables[t] if rng.random() < 0.7]
            if rng.random() < 0.15:     # ... and a setting of another table
                p = rng.choice(plan)
                if p["ok"] and p["table"] != t:
                    extra.append([p["table"], p["key"], rng.choice(p["ok"])])
            if not extra:
                continue
            yield dict(self._shell(rng, rng.randrange(16)), extra=extra, probes=self._probes(rng, many))
            count += 1

    def impl(self, case):
        import os

        cwd = os.getcwd()
        scratch = os.path.join(__import__("tempfile").gettempdir(), "nv-c20settings")   # relative paths in settings resolve (and are created) here
        os.makedirs(scratch, exist_ok=True)
        os.chdir(scratch)
        try:
            return super().impl(case)
        finally:
            os.chdir(cwd)

    def key(self, case, obs):
        ex = case.get("extra") or []
        def typ(v):
            return ("quoted" if v[:1] in "\"'" else "bool" if v in ("true", "false") else "array" if v[:1] == "[" else "table" if v[:1] == "{" else "unquoted")
        what = "+".join(sorted(f"{t}.{k}" for t, k, _v in ex)) if len(ex) == 1 else f"[{ex[0][0]}] x{len(ex)}"
        kinds = "/".join(sorted({typ(v) for _t, _k, v in ex}))
        if not obs["started"]:
            return f"{what} ({kinds}) -> refuses to start"
        old = sorted({str(o["version"] or "refused") for p, o in zip(case["probes"], obs["probes"]) if p["kind"] == "tls" and p["hi"] <= 2})
        modern = sorted({str(o["version"] or "refused") for p, o in zip(case["probes"], obs["probes"]) if p["kind"] == "tls" and p["hi"] > 2})
        return f"{what} ({kinds}) -> {obs['listener']}; old clients {'/'.join(old)}; modern {'/'.join(modern)}"

# ------------------------------------------------------------------------------------------------
# family 5c: the start-up paths on a machine whose OpenSSL policy leaves the protocol floor to the application
# ------------------------------------------------------------------------------------------------
# (certificate kind, encoding of the supplied files)
POLICY_CERTS = [("auto", "pem"), ("rsa2048", "pem"), ("ec256", "pem"), ("rsa2048", "der"), ("ec256", "der"), ("rsa2048", "der-cert"), ("ec256", "der-key")]
POLICY_AUTH = ["no-cert-auth", "requiring-rule", "fingerprints-only", "exempting-rule-only"]
POLICY_LIVES = 20      # lives of a restart case


def _life_text(lf: dict) -> str:
    cert = "no certificate configured (auto-generated)"
    if lf["cert"] != "auto":
        enc = {"pem": "PEM", "der": "DER", "der-cert": "DER (certificate) + PEM (key)", "der-key": "PEM (certificate) + DER (key)"}[lf.get("enc", "pem")]
        cert = f"supplied {lf['cert']} certificate/key as {enc} files"
    if lf["entry"] == "manual":
        if lf["backend"] == "std":
            how = ("_create_self_signed_context" if lf["cert"] == "auto" else "create_server_context") + "(...) + create_server(GeminiServerProtocol, ssl=ctx) by hand"
        else:
            how = ("_create_self_signed_pyopenssl_context" if lf["cert"] == "auto" else "create_pyopenssl_server_context") + "(...) + TLSServerProtocol by hand"
        return f"{how}, {cert}, request_client_cert={lf['rcc']}"
    how = {"api": "start_server(config, ...)", "cli": "`nauyaca serve --config <toml>`", "toml": "start_server(ServerConfig.from_toml(<toml>), ...)"}[lf["entry"]]
    auth = "no certificate_auth" if lf.get("auth") is None else "certificate_auth rules " + json.dumps(lf["auth"])
    return f"{how}, {cert}, require_client_cert={lf['rcc']}, {auth}"


def _life_config(lf: dict) -> dict:
    return {k: v for k, v in lf.items() if k != "probes"}


class Policy(Family):
    """OpenSSL 3's default policy refuses TLS 1.0 / 1.1 by itself, which MASKS a floor nauyaca loses on some start-up path.  The
    floor matters on machines whose policy file is the "legacy interop" recipe; a child process per case lives on such a machine
    (OPENSSL_CONF, written by the harness) and brings the server up, one life after the other in that one process, in every
    way it can be brought up; permissive clients capped at TLS 1.0 / 1.1 then try each listener exactly as it was built.  A
    server that refuses to start (e.g. DER files) satisfies the property; one that starts must refuse them."""
    realtime = True     # runs on the wall clock (sockets, threads, a child process): a failure is re-run once before it counts (core.run_family)

    name = "policy"
    quick_n = 56
    thorough_n = 640

    # -- cases -------------------------------------------------------------------------------------
    def _probes(self, rng: random.Random, many: bool = False) -> list[dict]:
        olds = [(1, 1), (2, 2), (1, 2), (0, 2)]
        ps = [{"kind": "tls", "lo": 1, "hi": 1, "cc": rng.random() < 0.4}]
        for lo, hi in (olds[1:] if many else [rng.choice(olds[1:])]):
            ps.append({"kind": "tls", "lo": lo, "hi": hi, "cc": rng.random() < 0.5})
        ps.append({"kind": "tls", "lo": rng.choice([1, 3]), "hi": rng.choice([3, 4, 4]), "cc": rng.random() < 0.5})   # the modern control
        if rng.random() < 0.5:
            ps.append({"kind": "plain", "chunks": [rng.choice(PLAIN_LINES[:4]).hex()]})
        rng.shuffle(ps)      # the very first connection of a listener is an old-version one in some lives, a modern one in others
        return ps

    def _configs(self) -> list[dict]:
        """every way the server can be brought up (without probes)"""
        out = []
        for cert, enc in POLICY_CERTS:
            for rcc in (False, True):
                for entry in ("api", "cli", "toml"):
                    for shape in POLICY_AUTH:
                        if shape != "no-cert-auth" and (entry == "toml") != (shape == "fingerprints-only") and not (entry == "api" and shape == "requiring-rule"):
                            continue     # (the certificate_auth shapes are spread over the entries: each shape with two of them at least)
                        out.append({"entry": entry, "cert": cert, "enc": enc, "rcc": rcc, "auth": AUTH_SHAPES[shape]})
                for backend in ("std", "pyo"):
                    out.append({"entry": "manual", "backend": backend, "cert": cert, "enc": enc, "rcc": rcc})
        return out

    def _restarts(self) -> list[dict]:
        """configurations that are restarted POLICY_LIVES times in one process"""
        out = []
        for entry in tls_policy.ENTRIES:
            for cert, enc in POLICY_CERTS[:3]:
                for rcc in (True, False):
                    c = {"entry": entry, "cert": cert, "enc": enc, "rcc": rcc}
                    if entry == "manual":
                        c["backend"] = "pyo" if rcc else "std"
                    else:
                        c["auth"] = None
                    out.append(c)
        out.sort(key=lambda c: (0 if c["rcc"] else 1, 0 if c["cert"] != "ec256" else 1))     # the client-certificate backend first
        return out

    def gen(self, rng: random.Random, n: int):
        many = n >= 40       # thorough tier
        count = 0
        configs = self._configs()
        random.Random(20).shuffle(configs)
        # the boundary first: what OpenSSL's default policy would mask - certificate files that are not PEM, client certificates
        configs.sort(key=lambda c: 0 if c["enc"] != "pem" and c["rcc"] else 1 if c["rcc"] else 2)
        k = 2 if many else 4
        tours = [configs[i:i + k] for i in range(0, len(configs), k)]
        plan = [("restart", [c] * POLICY_LIVES) for c in self._restarts()[: (24 if many else 10)]]
        # a tour of different configurations in one process / the same configuration restarted in one process; laid out so that the
        # (longer) restart cases are spread evenly over the shards of an enumeration that hands out every k-th element
        k8 = max(1, self.shard[1])
        merged = plan[:k8] + [("tour", t) for t in tours]
        for j, item in enumerate(plan[k8:]):
            merged.insert(min(len(merged), k8 + j * (k8 + 1) + 3), item)
        for shape, cfgs in self.share(merged):
            yield {"shape": shape, "lives": [dict(c, probes=self._probes(rng, many and shape == "tour")) for c in cfgs]}
            count += 1
        # random histories of one process: configuration changes, certificate renewals, backends coming and going
        while count < n:
            base = rng.choice([c for c in configs if c["enc"] == "pem"] if rng.random() < 0.7 else configs)
            lives = []
            for _ in range(rng.choice([6, 10, 14, POLICY_LIVES])):
                r = rng.random()
                if r < 0.5:
                    c = dict(base)
                elif r < 0.75:
                    c = dict(base, rcc=not base["rcc"])
                    if c["entry"] == "manual":
                        c["backend"] = rng.choice(["std", "pyo"])
                else:
                    c = dict(rng.choice(configs))
                lives.append(dict(c, probes=self._probes(rng)))
            yield {"shape": "history", "lives": lives}
            count += 1

    # -- running one case ---------------------------------------------------------------------------
    def impl(self, case):
        return tls_policy.run({"lives": case["lives"]})

    # -- the property, on what was observed --------------------------------------------------------
    def oracle(self, case, obs):
        n = len(case["lives"])
        for i, (lf, o) in enumerate(zip(case["lives"], obs["lives"])):
            if not o["started"]:
                continue     # refusing to serve is no service
            who = (f"the {'PyOpenSSL' if o['listener'] == 'pyo' else 'stdlib'} listener of " + (f"server life {i + 1} of {n} in ONE process, " if n > 1 else "the server ")
                   + f"started by [{_life_text(lf)}]")
            where = f"{who}, in a process whose OpenSSL policy file (OPENSSL_CONF) says [{tls_policy.POLICY_TEXT}],"
            before = ""
            if i:
                same = sum(1 for x in case["lives"][:i] if _life_config(x) == _life_config(lf))
                before = f"; lives before it in the same process: {i}" + (f" ({same} of them with this very configuration)" if same else "") + \
                    f", each started, probed, stopped and dropped: {json.dumps([_life_config(x) for x in case['lives'][:i]][-3:])}{' (the last three)' if i > 3 else ''}"
            ctrl = f"; in the same process a bare PyOpenSSL server context without minimum version negotiates {obs['control'].get('pyo')} with a TLS 1.0 client, one with a TLS 1.2 floor {obs['control'].get('pyo_floor')}"
            cert = "auto" if lf["cert"] == "auto" else lf.get("enc", "pem")
            tag = f"{lf['entry']}-{o['listener']}-{cert}"
            rounds = [("", lf["probes"], o["probes"])]
            if o.get("level0"):
                rounds.append(("-level0", [p for p in lf["probes"] if p["kind"] == "tls" and p["hi"] <= 2], o["level0"]))
            for suffix, ps, os_ in rounds:
                lowered = ("; before this handshake the cipher string of the running listener's SSLContext was replaced by ALL:@SECLEVEL=0 (Python writes a security level of its "
                           "own into every context; the protocol-version range is then the only barrier)") if suffix else ""
                for p, r in zip(ps, os_):
                    if p["kind"] == "plain":
                        sent = b"".join(bytes.fromhex(c) for c in p["chunks"])[:40]
                        if r["h"]:
                            return (f"policy-plaintext-reached-handler-{tag}", f"{where} ran a handler {r['h']} time(s) for {sent!r} sent to its port without TLS{before}")
                        if r["gemini_like"]:
                            return (f"policy-plaintext-got-response-{tag}", f"{where} answered {sent!r} sent without TLS with Gemini response bytes {bytes.fromhex(r['out_head'])!r}{before}")
                        if r["out_len"] and not r["out_tls"]:
                            return (f"policy-plaintext-got-nontls-bytes-{tag}", f"{where} answered {sent!r} sent without TLS with bytes that are not TLS records: {r['out_head']}{before}")
                        continue
                    if r["version"] in OLD_TLS:
                        return (f"policy-old-tls-{tag}{suffix}",
                                f"{r['version']} handshake completed (client offering {VERS[p['lo']]}..{VERS[p['hi']]}{' with a client certificate' if p.get('cc') else ''}; response read: {r['resp']!r}) "
                                f"by {who}; the process runs under OPENSSL_CONF [{tls_policy.POLICY_TEXT}]{lowered}{before}{ctrl}")
                    if r["resp"] and r["version"] not in ("TLSv1.2", "TLSv1.3"):
                        return (f"policy-response-without-modern-tls-{tag}{suffix}", f"{where}: a response {r['resp']!r} was read on a connection whose TLS version is {r['version']}{before}")
        return None

    def same(self, expected, obs):
        return True

    def shrink(self, case, bad):
        """the lives after the failing one go; then, if it still fails, everything before it (a defect of one start-up path needs
        no history; one that needs the history keeps it - which earlier life matters is the allocator's business, not the input's)"""
        try:
            obs = self.impl(case)
        except Exception:  # noqa: BLE001
            return case
        v = self.oracle(case, obs)
        if v is None:
            return case
        idx = next((i for i in range(len(case["lives"])) if self.oracle({"lives": case["lives"][:i + 1]}, {"control": obs["control"], "lives": obs["lives"][:i + 1]}) is not None), None)
        if idx is None:
            return case
        best = case
        cut = dict(case, lives=case["lives"][:idx + 1])
        if len(cut["lives"]) < len(case["lives"]) and bad(cut):
            best = cut
        alone = dict(case, lives=[case["lives"][idx]])
        if len(best["lives"]) > 1 and bad(alone):
            best = alone
        return best

    def key(self, case, obs):
        started = [(lf, o) for lf, o in zip(case["lives"], obs["lives"]) if o["started"]]
        refused = len(case["lives"]) - len(started)
        kinds = "+".join(sorted({o["listener"] for _lf, o in started})) or "none"
        encs = "+".join(sorted({("auto" if lf["cert"] == "auto" else lf.get("enc", "pem")) for lf in case["lives"]}))
        old = sorted({str(r["version"] or "refused") for lf, o in started for p, r in zip(lf["probes"], o["probes"]) if p["kind"] == "tls" and p["hi"] <= 2})
        modern = sorted({str(r["version"] or "refused") for lf, o in started for p, r in zip(lf["probes"], o["probes"]) if p["kind"] == "tls" and p["hi"] > 2})
        lives = "1 life" if len(case["lives"]) == 1 else "2..9 lives" if len(case["lives"]) < 10 else "10+ lives"
        enc = "PEM/auto only" if encs in ("auto", "pem", "auto+pem") else "DER among them"
        return (f"{case.get('shape', '?')} ({lives} in one process; certificates {enc}) -> listeners {kinds}{', some refused to start' if refused else ''}; old clients {'/'.join(old) or '-'}; "
                f"modern {'/'.join(modern) or '-'}; control without floor {obs['control'].get('pyo')}")


# ------------------------------------------------------------------------------------------------
# family 6: every command of the command-line interface against servers that offer less than TLS 1.2
# ------------------------------------------------------------------------------------------------
# how the harness drives the commands it knows to open a connection: variant -> (argv template, row of
# Gen.contextPaths whose version range the command is expected to have, or None).  Every OTHER leaf command
# found in the source (except `serve`, the server itself: family `startup`) is run too, with an argument
# vector synthesised from its declared parameters, in a process of its own.
CLI_DRIVERS: dict[str, dict[str, tuple[list[str], int | None]]] = {
    "get": {
        "tofu": (["get", "{url}", "-t", "5"], 7),
        "tofu-no-redirects": (["get", "{url}", "-t", "5", "--no-redirects", "-v"], 7),
        "ca": (["get", "{url}", "-t", "5", "--verify-ssl", "--no-trust"], 8),
        "ca+tofu": (["get", "{url}", "-t", "5", "--verify-ssl"], None),
        "plain": (["get", "{url}", "-t", "5", "--no-trust"], 9),
        "tofu-client-cert": (["get", "{url}", "-t", "5", "--client-cert", "{cc}", "--client-key", "{ck}"], 10),
    },
    "tofu trust": {
        "default": (["tofu", "trust", "localhost", "--port", "{port}"], 9),
        "short-option": (["tofu", "trust", "localhost", "-p", "{port}"], 9),
    },
}
SERVER_COMMANDS = {"serve"}


class CliCommands(Family):
    """Client side, from the user's end: each command of `nauyaca ...` found in the source is pointed at
    ONE host:port whose TLS stack is scripted per step (permissive, security level 0, a version range, a
    certificate A or B, optionally resetting the first connection), starting from a pin store that is
    empty, pins certificate A or pins certificate B.  Observed at the peer: completed handshakes with
    their version and the request bytes that followed; observed at the user's end: the pin store
    (through TOFUDatabase().list_hosts() under a private HOME) before and after every step."""
    realtime = True     # runs on the wall clock (sockets, threads): a failure is re-run once before it counts (core.run_family)

    name = "cli"
    quick_n = 96
    thorough_n = 960

    def _commands(self):
        try:
            return tls_startup.cli_commands()
        except Exception:  # noqa: BLE001  (the CLI cannot be imported: every case will say so)
            return []

    def _shapes(self):
        out = []
        cmds = self._commands()
        names = {" ".join(c["path"]) for c in cmds}
        for name, variants in CLI_DRIVERS.items():
            for variant in variants:
                for old in ((1, 1), (1, 2), (2, 2)):
                    for prepin in (None, "A", "B"):
                        out.append({"cmd": name, "variant": variant, "prepin": prepin, "present": name in names,
                                    "steps": [{"lo": old[0], "hi": old[1], "reset_first": False, "cert": "A"}]})
                out.append({"cmd": name, "variant": variant, "prepin": None, "present": name in names,
                            "steps": [{"lo": 3, "hi": 4, "reset_first": False, "cert": "A"}, {"lo": 1, "hi": 2, "reset_first": False, "cert": "B"},
                                      {"lo": 1, "hi": 2, "reset_first": True, "cert": "A"}, {"lo": 1, "hi": 4, "reset_first": False, "cert": "A"}]})
        for c in cmds:
            name = " ".join(c["path"])
            if name in CLI_DRIVERS or name in SERVER_COMMANDS:
                continue
            out.append({"cmd": name, "variant": "synthesised", "prepin": "B", "present": True, "params": c["params"],
                        "steps": [{"lo": 1, "hi": 2, "reset_first": False, "cert": "A"}]})
        random.Random(20).shuffle(out)
        out.sort(key=lambda s: 0 if s["variant"] == "synthesised" else 1)   # spread the slow (own process) ones evenly over the shards
        return out

    def gen(self, rng: random.Random, n: int):
        count = 0
        for s in self.share(self._shapes()):
            yield s
            count += 1
        names = [(c, v) for c, vs in CLI_DRIVERS.items() for v in vs]
        while count < n:
            cmd, variant = rng.choice(names)
            steps = []
            for _ in range(rng.randint(1, 4)):
                lo, hi = rng.choice(OLD_RANGES if rng.random() < 0.6 else MODERN_RANGES)
                steps.append({"lo": lo, "hi": hi, "reset_first": rng.random() < 0.2, "cert": rng.choice(["A", "A", "B"])})
            yield {"cmd": cmd, "variant": variant, "prepin": rng.choice([None, "A", "B"]), "present": True, "steps": steps}
            count += 1

    # -- running one case -----------------------------------------------------------------------------
    def impl(self, case):
        import os
        import shutil
        import tempfile
        from pathlib import Path

        from cryptography import x509

        import logging

        tmp = tempfile.mkdtemp(prefix="nv-")
        peer = None
        saved = {k: os.environ.get(k) for k in ("HOME", "SSL_CERT_FILE", "NO_COLOR")}
        cwd = os.getcwd()
        alog = logging.getLogger("asyncio")
        alog_level = alog.level
        alog.setLevel(logging.CRITICAL + 1)   # "Future exception was never retrieved" of a command's own loop (a peer that closes early)
        try:
            certs = {}
            for nm, pems in (("A", harness_cert()), ("B", harness_cert_b())):
                cf, kf = os.path.join(tmp, f"{nm}-c.pem"), os.path.join(tmp, f"{nm}-k.pem")
                Path(cf).write_bytes(pems[0])
                Path(kf).write_bytes(pems[1])
                certs[nm] = (cf, kf)
            both = os.path.join(tmp, "trusted.pem")
            Path(both).write_bytes(harness_cert()[0] + harness_cert_b()[0])
            cc, ck = tls_peer.make_cert("client")
            Path(os.path.join(tmp, "cc.pem")).write_bytes(cc)
            Path(os.path.join(tmp, "ck.pem")).write_bytes(ck)
            home = os.path.join(tmp, "home")
            os.mkdir(home)
            os.environ.update(HOME=home, SSL_CERT_FILE=both, NO_COLOR="1")
            os.chdir(home)
            peer = tls_startup.CertPeer(certs)
            subst = {"{url}": f"gemini://localhost:{peer.port}/page", "{port}": str(peer.port), "{cc}": os.path.join(tmp, "cc.pem"), "{ck}": os.path.join(tmp, "ck.pem")}

            def pins():
                from nauyaca.security.tofu import TOFUDatabase

                try:
                    return sorted([str(h["hostname"]), "<port>" if int(h["port"]) == peer.port else int(h["port"]), str(h["fingerprint"])[-16:]]
                                  for h in TOFUDatabase().list_hosts())
                except Exception as e:  # noqa: BLE001
                    return [["?", 0, type(e).__name__]]

            if case["prepin"]:
                from nauyaca.security.tofu import TOFUDatabase

                TOFUDatabase().trust("localhost", peer.port, x509.load_pem_x509_certificate({"A": harness_cert, "B": harness_cert_b}[case["prepin"]]()[0]))
            if case["variant"] == "synthesised":
                argv = tls_startup.synth_argv({"path": case["cmd"].split(" "), "params": case["params"]}, peer.port, tmp)
                in_process = False
            else:
                argv = [subst.get(a, a) for a in CLI_DRIVERS[case["cmd"]][case["variant"]][0]]
                in_process = True
            steps = []
            for i, st in enumerate(case["steps"]):
                peer.set_step_cert(i, st["lo"], st["hi"], st["reset_first"], st["cert"])
                before = pins()
                if in_process:
                    from typer.testing import CliRunner

                    import nauyaca.__main__ as M

                    res = CliRunner().invoke(M.app, argv)
                    outcome = f"exit={res.exit_code}"
                else:
                    outcome = tls_startup.run_cli_subprocess(argv, home, str(core.REPO / "src"), timeout=10.0, env_extra={"SSL_CERT_FILE": both})
                peer.settle()
                ents = [e for e in peer.log if e["step"] == i]
                steps.append({"completed": [e["hs"] for e in ents if e["hs"] in VERS], "req": [e["req"] for e in ents if e["hs"] in VERS],
                              "attempts": [e["hs"].split(":")[0] for e in ents], "outcome": outcome, "pins_before": before, "pins_after": pins()})
            return {"argv": [a.replace(str(peer.port), "<port>").replace(tmp, "<tmp>") for a in argv], "steps": steps}
        finally:
            os.chdir(cwd)
            alog.setLevel(alog_level)
            if peer:
                peer.close()
            for k, v in saved.items():
                if v is None:
                    os.environ.pop(k, None)
                else:
                    os.environ[k] = v
            shutil.rmtree(tmp, ignore_errors=True)
            try:
                import structlog

                __import__('harness.core', fromlist=['core']).configure_harness_logging()      # put the harness logging configuration back
            except Exception:  # noqa: BLE001
                pass

    def _row(self, case):
        return CLI_DRIVERS.get(case["cmd"], {}).get(case["variant"], (None, None))[1]

    def model(self, case):
        row = self._row(case)
        if row is None:
            return None
        return f"tlsvers {row} " + " ".join(f"{s['lo']} {s['hi']}" for s in case["steps"])

    def expect(self, case, out):
        if not out.startswith("ok "):
            return {"model": out}
        vs = out[3:].split(",")
        # every command makes ONE connection per invocation: a reset first connection ends the invocation
        return {"steps": [{"completed": ([] if (v == "none" or st["reset_first"]) else [v])} for v, st in zip(vs, case["steps"])]}

    def same(self, expected, obs):
        if "model" in expected:
            return False
        return [s["completed"] for s in expected["steps"]] == [s["completed"] for s in obs["steps"]]

    def oracle(self, case, obs):
        argv = "nauyaca " + " ".join(obs["argv"])
        start = {None: "an empty pin store", "A": "a pin store holding the server's certificate A", "B": "a pin store holding another certificate (B) for the host"}[case["prepin"]]
        for i, (st, o) in enumerate(zip(case["steps"], obs["steps"])):
            hist = " -> ".join(f"{VERS[s['lo']]}..{VERS[s['hi']]}/cert {s['cert']}{' (first connection reset)' if s['reset_first'] else ''}" for s in case["steps"][:i + 1])
            for v, req in zip(o["completed"], o["req"]):
                if v in ("ssl3", "tls10", "tls11"):
                    changed = "" if o["pins_before"] == o["pins_after"] else f"; the pin store changed from {o['pins_before']} to {o['pins_after']}"
                    return (f"cli-old-tls-{case['cmd'].replace(' ', '-')}",
                            f"`{argv}` ({start}) completed a {v} handshake with the server in step {i + 1} of the history [{hist}] "
                            f"(permissive server, security level 0), {'sent ' + str(req) + ' request bytes to it' if req else 'sent no request'}{changed}; command outcome {o['outcome']}")
            gained = [p for p in o["pins_after"] if p not in o["pins_before"]]
            if st["hi"] <= 2 and gained and o["attempts"]:
                return (f"cli-pin-from-old-tls-{case['cmd'].replace(' ', '-')}",
                        f"`{argv}` ({start}) changed the pin store from {o['pins_before']} to {o['pins_after']} in step {i + 1} of the history [{hist}] although "
                        f"the server offered nothing above {VERS[st['hi']]} (handshake attempts seen by the server: {o['attempts']})")
        return None

    def key(self, case, obs):
        def cls(s):
            return ("old" if s["hi"] <= 2 else "modern" if s["lo"] >= 3 else "old+modern") + ("/reset-first" if s["reset_first"] else "")
        conn = sum(len(o["attempts"]) for o in obs["steps"])
        what = f"{case['cmd']} [{case['variant']}]" if case["variant"] != "synthesised" else f"{case['cmd']} [arguments synthesised from its parameters; {'CONNECTS' if conn else 'opens no connection'}; {obs['steps'][0]['outcome']}]"
        if case["variant"] == "synthesised":
            return what
        # (the three initial pin stores alternate uniformly; at most 40 classes are printed)
        hist = "old-only server" if all(s["hi"] <= 2 for s in case["steps"]) else "history " + " > ".join(cls(s) for s in case["steps"][:2]) + (" > ..." if len(case["steps"]) > 2 else "")
        return f"{what}: {hist}" if len(case["steps"]) == 1 or all(s["hi"] <= 2 for s in case["steps"]) else f"{what}: history with old and modern steps"


FAMILIES = [Versions(), PlaintextModel(), Live(), ClientHistories(), Startup(), Settings(), Policy(), CliCommands()]

if __name__ == "__main__":
    if "--write-tls" in sys.argv:
        probs = extract_extra()
        print("Gen/Tls.lean written;", len(probs), "problems")
    else:
        core.setup_import_path()
        print(render_tls()[0])
