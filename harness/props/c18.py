"""C18  The reverse proxy relays responses verbatim and contains upstream faults

Correspondence: a scripted TLS upstream on loopback (byte-level scripts: send / sleep / close / reset /
hold), the real `ProxyHandler` with its real `GeminiClient` behind the real `GeminiServerProtocol` on a
fake downstream transport; what the downstream client receives is compared byte for byte with
`Srv.render (Srv.proxyRespond …)` of the Lean model (driver op `relay`) and judged by a direct oracle.
"""
from __future__ import annotations

import hashlib
import logging
import random
import re
import time

from .. import core
from ..core import Family, cps

ID = "C18"
READY = True
LEAN_TARGETS = ["NauyacaVerif.Props.C18"]
THEOREMS = [f"NauyacaVerif.C18.{t}" for t in (
    "proxy_relay", "proxy_faults", "proxy_fault_kinds", "proxy_one_wellformed", "proxy_no_follow", "proxy_single_connection",
    "maxMeta_tie", "decodeText_tie", "followRedirects_tie", "tofu_tie")]
EXTRACT = ["maxMeta", "maxBody", "maxHeader"]
ASSUMPTIONS = [
    "source-shape facts of server/proxy.py (follow_redirects=False, decode_text=False, trust_on_first_use=False, the status named by each except clause) are read with ast on every run into Gen/ProxyGen.lean; proxy_faults / proxy_no_follow are stated over them",
    "proxy_relay assumes the codec contract for the meta: UTF-8 decode followed by encode is the identity on valid UTF-8",
    "which except clause a given upstream behaviour ends in (Srv.Fault.cls) is the client's classification (C13); here it is checked against the real client by the scripted upstream, not proved",
    "a TCP FIN in the middle of a 2x body is indistinguishable from the end of the body (Gemini has no length field): the bytes received so far are the response",
    "'malformed' is judged by the oracle as: no CRLF, header longer than 2+1+1024 bytes, status not two ASCII digits in 10-69, meta not UTF-8 or containing a bare CR/LF, missing separator for a status below 40; a 4x-6x header without the separator may be relayed (with status/meta/body unchanged) or answered with 43",
    "timing: every scripted upstream accepts the TCP connection at once, so the fetch — and with it the answer — is due one location timeout after the request; the oracle allows 0.45 s of scheduling margin, repeats a late case twice and reports it only when all three attempts are late; no answer within timeout + 2.5 s is a hang",
]
LEVEL_TEXT = "partial"
LEVEL_NOTE = ("proved over the models: the server side writes exactly the bytes of a well-formed upstream response (any status, media type, charset label; body as bytes), "
              "every failure class of the fetch becomes one well-formed 43, a 3x is returned after exactly one connection; "
              "tested, not proved: the mapping from real upstream behaviour (TLS, sockets, timers, the client's header parser and caps) to those classes")
TECHNIQUE = "Lean 4 proofs (relay_verbatim, proxy_faults, proxy_no_follow over M-Render and the extracted except-clause table) + differential testing against a scripted loopback TLS upstream with fault injection, byte comparison downstream"

logging.disable(logging.CRITICAL)

CAP = 10 * 1024 * 1024
REQ = "gemini://front.example/x?q"
METAS_2X = ["text/gemini", "text/plain", "text/plain; charset=utf-8", "text/plain; charset=latin-1", "text/plain;charset=ISO-8859-1", "text/gemini; charset=utf-16",
            "text/plain; charset=shift_jis", "text/plain; charset=x-unknown-9", 'text/plain; charset="utf-8"', "text/gemini; lang=de; charset=cp1252", "", " ", "application/octet-stream",
            "image/png", "TEXT/PLAIN; CHARSET=LATIN-1", "text/plain; charset=", "text/x" + "y" * 1017, "text/" + "é" * 509 + "z", "text/plain\t; x=\x00\x1b", "text/plain  ", " text/plain",
            "text/plain; charset=utf-8; charset=latin-1", "message/rfc822", "x"]
TEXTS = ["héllo wörld\n", "日本語のテキスト\n", "# Title\r\n=> gemini://a/ b\r\n", "", "a", "﻿bom", "emoji \U0001f600\n"]


def body_variants(rng):
    t = rng.choice(TEXTS)
    r = rng.random()
    if r < 0.2:
        return t.encode("utf-8")
    if r < 0.35:
        return t.encode("latin-1", "replace")
    if r < 0.45:
        return t.encode("utf-16")
    if r < 0.55:
        return t.encode("shift_jis", "replace")
    if r < 0.6:
        return t.encode("cp1252", "replace")
    if r < 0.8:
        return bytes(rng.randrange(256) for _ in range(rng.choice([1, 2, 17, 255, 1024])))
    if r < 0.85:
        return b""
    if r < 0.9:
        return b"\xff\xfe\x00\r\n\r\n\x80"
    return b"20 text/plain\r\nnested header\r\n"


def send(b: bytes):
    return ["send", b.hex()]


MARGIN = 0.45   # scheduling allowance on top of the location timeout, seconds of wall clock
WIDE = ["é", "ñ", "日", "語", "\U0001f600", "ß", "Ω", "\u20ac"]


def meta_of_bytes(ch: str, target: int, pad_first: bool) -> str:
    """a meta of exactly `target` UTF-8 bytes made of the character `ch` and ASCII padding"""
    w = len(ch.encode("utf-8"))
    k, r = divmod(target, w)
    return ("a" * r + ch * k) if pad_first else (ch * k + "a" * r)


def trickle(data: bytes, gap: float, step: int = 1):
    acts = []
    for i in range(0, len(data), step):
        acts.append(send(data[i:i + step]))
        acts.append(["sleep", gap])
    return acts


def timeline(actions):
    """[(time, bytes sent at that time)], time the script ends, how it ends"""
    t, out = 0.0, []
    for a in actions:
        if a[0] == "send":
            out.append((t, bytes.fromhex(a[1])))
        elif a[0] == "sendn":
            out.append((t, bytes([a[1]]) * a[2]))
        elif a[0] == "sleep":
            t += a[1]
        elif a[0] in ("close", "reset", "hold"):
            return out, t, a[0]
    return out, t, "close"


def resp_actions(rng, header: bytes, body: bytes):
    """header + body cut into a few writes, sometimes with pauses, then close"""
    data = header + body
    acts = []
    if len(data) <= 4096 and rng.random() < 0.5:
        cuts = sorted(rng.sample(range(1, len(data)), min(len(data) - 1, rng.choice([1, 2, 3])))) if len(data) > 1 else []
        prev = 0
        for c in cuts + [len(data)]:
            acts.append(send(data[prev:c]))
            if rng.random() < 0.4:
                acts.append(["sleep", 0.01])
            prev = c
    else:
        acts.append(send(data))
    acts.append(["close"])
    return acts


# ------------------------------------------------------------------------------------------------
# specification side: what the upstream's byte stream means (written from the property text)
# ------------------------------------------------------------------------------------------------
def stream_of(actions) -> tuple[bytes | None, str]:
    """bytes the script sends before it ends, and how it ends (close | reset | hold); None for streams too long to materialise"""
    out = bytearray()
    for a in actions:
        if a[0] == "send":
            out += bytes.fromhex(a[1])
        elif a[0] == "sendn":
            out += bytes([a[1]]) * a[2]
        elif a[0] in ("close", "reset", "hold"):
            return bytes(out), a[0]
    return bytes(out), "close"


def classify_stream(data: bytes):
    """('well', status, meta_bytes, body) | ('grey', status, b'', body) | ('bad', reason)"""
    i = data.find(b"\r\n")
    if i < 0:
        return ("bad", "no-crlf")
    if i > 2 + 1 + 1024:
        return ("bad", "header-too-long")
    line, rest = data[:i], data[i + 2:]
    m = re.fullmatch(rb"([0-9]{2})(?: (.*))?", line, re.S)
    if not m:
        if re.match(rb"\s*[+-]?[0-9_\s]+", line) or line[:1].isdigit() is False:
            return ("bad", "status-spelling")
        return ("bad", "status-spelling")
    st = int(m.group(1))
    if not 10 <= st <= 69:
        return ("bad", "status-range")
    meta = m.group(2)
    if meta is None:
        if st < 40:
            return ("bad", "missing-space")
        return ("grey", st, b"", b"")
    if b"\r" in meta or b"\n" in meta:
        return ("bad", "meta-bare-cr-lf")
    try:
        meta.decode("utf-8")
    except UnicodeDecodeError:
        return ("bad", "bad-utf8")
    body = rest if 20 <= st <= 29 else b""
    if len(body) > CAP:
        return ("bad", "body-over-cap")
    return ("well", st, meta, body)


def parse_down(data: bytes):
    """(status, meta, body) of a well-formed downstream response, else None"""
    i = data.find(b"\r\n")
    if i < 0:
        return None
    line, body = data[:i], data[i + 2:]
    m = re.fullmatch(rb"([1-6][0-9]) ([^\r\n]{0,1024})", line, re.S)
    if not m:
        return None
    st = int(m.group(1))
    if body and not 20 <= st <= 29:
        return None
    return st, m.group(2), body


def digest(b: bytes):
    if len(b) <= 2048:
        return {"hex": b.hex()}
    return {"len": len(b), "sha1": hashlib.sha1(b).hexdigest(), "head": b[:48].hex()}


class Relay(Family):
    name = "relay"
    quick_n = 1200
    thorough_n = 20000
    parallel = False

    def setup(self):
        from ..sim import url_upstream as U

        if getattr(self, "_ready", False):
            return
        self.U = U
        self.loop = U.quiet_loop()
        run = self.loop.run_until_complete
        self.up = run(U.Upstream().start())
        self.decoy = run(U.Upstream().start())
        self.plain = run(U.PlainGarbage().start())
        self.mute = run(U.Upstream(tls=False).start())  # accepts TCP, never answers the TLS hello
        self._handlers: dict = {}
        self._ready = True

    # ---- generator ------------------------------------------------------------------------------
    def gen(self, rng: random.Random, n: int):
        out = []

        def case(kind, actions, **kw):
            c = {"kind": kind, "actions": actions, "timeout": 2.0}
            c.update(kw)
            out.append(c)

        # every status 10-69 with a meta of its kind
        for st in range(10, 70):
            meta = {1: "Enter a value, please", 2: rng.choice(METAS_2X[:8]), 3: "gemini://127.0.0.1:$D/moved?x", 4: "slow down", 5: "Not found", 6: "certificate needed"}[st // 10]
            body = b"body for " + str(st).encode() if 20 <= st <= 29 else (b"" if rng.random() < 0.7 else b"ignored body")
            case("resp", resp_actions(rng, f"{st} {meta}\r\n".encode(), body))
        # the defect witnesses and boundary metas
        case("resp", [send(b"20 text/plain; charset=latin-1\r\n\xe9t\xe9\n"), ["close"]])
        case("resp", [send(b"20 text/gemini; charset=utf-16\r\n" + "héllo".encode("utf-16")), ["close"]])
        case("resp", [send(b"20 text/plain; charset=x-unknown-9\r\n\x80\x81"), ["close"]])
        case("resp", [send(b"20 text/plain\r\n\xff\xfe not utf-8"), ["close"]])
        for mlen in (1023, 1024, 1025, 1026, 2000):
            case("resp", [send(b"20 " + b"m" * mlen + b"\r\nB"), ["close"]])
        case("resp", [send(b"20 " + "é".encode() * 512 + b"\r\nB"), ["close"]])
        case("resp", [send(b"44 " + "é".encode() * 511 + b"zz\r\n"), ["close"]])
        # malformed headers
        for h in (b"+20 text/plain", b" 20 text/plain", b"\t20 x", b"2_0 x", "٢٠ x".encode(), b"020 x", b"2 x", b"200 x", b"20\ttext/plain", b"20", b"30", b"11", b"51", b"69", b"40",
                  b"20 text/plain\rfoo", b"51 not\nfound", b"20 a\r", b"09 x", b"70 x", b"99 x", b"00 x", b"-1 x", b"2O x", b"", b" ", b"20 text/\xff", b"\xff\xfe", b"HTTP/1.1 200 OK",
                  b"20 " + b"a" * 1100, b"x" * 3000):
            case("resp", [send(h + b"\r\nbody"), ["close"]])
        case("resp", [send(b"20 text/plain"), ["close"]])            # close mid-header
        case("resp", [send(b"2"), ["close"]])
        case("resp", [["close"]])                                     # close before header
        case("resp", [send(b"x" * 1500), ["close"]])                  # no CRLF at all, long
        case("resp", [send(b"20 text/plain\r"), ["sleep", 0.02], send(b"\nsplit crlf"), ["close"]])
        # faults
        case("fault", [], fault="refused")
        case("fault", [], fault="tlsFailure")
        case("fault", [], fault="stallConnect", timeout=0.3)
        case("fault", [["hold"]], fault="stallHeader", timeout=0.3)
        case("fault", [send(b"20 text/pl"), ["hold"]], fault="stallHeader", timeout=0.3)
        case("fault", [send(b"20 text/plain\r\npartial"), ["hold"]], fault="stallBody", timeout=0.3)
        case("fault", [send(b"20 text/plain\r\n"), ["sleep", 0.7], send(b"late"), ["close"]], fault="stallBody", timeout=0.3)
        case("fault", [send(b"20 text/plain\r\nabc"), ["sleep", 0.05], ["reset"]], fault="reset")
        case("fault", [["reset"]], fault="reset")
        case("fault", [send(b"20 te"), ["sleep", 0.05], ["reset"]], fault="reset")
        # multi-byte metas around the 1024-BYTE limit (fewer than 1024 characters), in one read and split
        k = 0
        for ch in ("é", "ñ", "日", "\U0001f600"):
            for target in range(1020, 1032):
                for pad_first in (False, True):
                    st = (20, 31, 10, 51, 44, 62)[k % 6]
                    hdr = f"{st} {meta_of_bytes(ch, target, pad_first)}\r\n".encode("utf-8")
                    body = b"BODY" if st == 20 else b""
                    if k % 3 == 0:
                        cut = (len(hdr) - 3, 700, 1025, 4)[k % 4]
                        case("resp", [send(hdr[:cut]), ["sleep", 0.01], send(hdr[cut:] + body), ["close"]])
                    else:
                        case("resp", [send(hdr + body), ["close"]])
                    k += 1
        for meta in ("ñ" * 700, "日" * 342, "日" * 341 + "a", "\U0001f600" * 257, "é" * 1024, "gemini://h/" + "é" * 507, "gemini://h/" + "é" * 506):
            for st in (20, 31, 10):
                case("resp", [send(f"{st} {meta}\r\n".encode("utf-8") + (b"B" if st == 20 else b"")), ["close"]])
        # upstreams that stall AFTER having sent something, and upstreams that trickle: 43 is due one timeout after the request
        T = 0.5
        hdr = b"20 text/plain; charset=utf-8\r\n"
        case("fault", [send(b"2"), ["hold"]], fault="stallHeader", timeout=T)
        case("fault", [send(b"20 text/plain; char"), ["hold"]], fault="stallHeader", timeout=T)
        case("fault", [send(hdr), ["hold"]], fault="stallBody", timeout=T)
        case("fault", [send(hdr + b"some body"), ["hold"]], fault="stallBody", timeout=T)
        case("fault", [send(b"20 te"), ["sleep", 0.3], send(b"xt/plain\r\nab"), ["hold"]], fault="stallBody", timeout=T)
        case("fault", [send(hdr), ["sleep", 0.2], send(b"a"), ["sleep", 0.2], send(b"b"), ["hold"]], fault="stallBody", timeout=T)
        case("timed", trickle(hdr, 0.15) + [send(b"late body"), ["close"]], timeout=T)
        case("timed", [send(hdr)] + trickle(b"drip drip drip", 0.2) + [["close"]], timeout=T)
        case("timed", [send(hdr)] + trickle(b"x" * 40, 0.1, 2) + [["hold"]], timeout=T)
        case("timed", [send(b"31 gemini://127.0.0.1:$D/")] + trickle(b"aaaaaaaaaaaa", 0.25) + [send(b"\r\n"), ["close"]], timeout=T)
        case("timed", [send(hdr)] + trickle(b"fast", 0.04) + [["close"]], timeout=T)      # finishes well inside the timeout: relayed
        # redirects are relayed, never followed
        for st, tgt in ((30, "gemini://127.0.0.1:$D/"), (31, "gemini://127.0.0.1:$D/x?y"), (30, "/relative"), (31, ""), (39, "gemini://127.0.0.1:$U/loop"), (30, "http://127.0.0.1:$D/")):
            case("redirect", [send(f"{st} {tgt}\r\n".encode()), ["close"]])
        # sizes up to and beyond the cap
        for size in (16383, 16384, 16385, 65536, 300000):
            case("resp", [send(b"20 application/octet-stream\r\n"), ["sendn", 0xAB, size], ["close"]])
        case("resp", [send(b"20 application/octet-stream\r\n"), ["sendn", 0x5A, CAP], ["close"]], big=True)
        case("fault", [send(b"20 application/octet-stream\r\n"), ["sendn", 0x5A, CAP + 1], ["close"]], fault="bodyTooLarge", big=True)
        case("fault", [send(b"20 text/plain; charset=utf-16\r\n"), ["sendn", 0x41, CAP + 4096], ["hold"]], fault="bodyTooLarge", big=True)
        # downstream client that leaves early
        case("leave", [["sleep", 0.15], send(b"20 text/plain\r\nlate"), ["close"]], leave_after=0.03, timeout=0.5)
        case("leave", [["hold"]], leave_after=0.03, timeout=0.3)
        # bad upstream configuration: every request is answered 43
        case("fault", [], fault="badUpstreamUrl")
        cnt = 0
        for c in self.share(out):  # the whole enumeration, never cut (harness/README "Sharding pitfall")
            cnt += 1
            yield c
        for _ in range(max(0, n - cnt)):
            r = rng.random()
            if r < 0.015:
                # stall or trickle at a random stage, short location timeout
                T = rng.choice([0.4, 0.5, 0.6])
                data = f"{rng.choice([20, 20, 21])} {rng.choice(METAS_2X[:6])}\r\n".encode() + body_variants(rng) + b"0123456789"
                cut = rng.randrange(0, len(data))
                if rng.random() < 0.5:
                    acts = ([send(data[:cut])] if cut else []) + ([["sleep", rng.choice([0.1, 0.25])], send(data[cut:cut + 1])] if rng.random() < 0.5 else []) + [["hold"]]
                    yield {"kind": "fault", "fault": "stallBody" if b"\r\n" in data[:cut] else "stallHeader", "actions": acts, "timeout": T}
                else:
                    gap = rng.choice([0.12, 0.2, 0.3])
                    yield {"kind": "timed", "actions": ([send(data[:cut])] if cut else []) + trickle(data[cut:cut + 30], gap) + [["close"]], "timeout": T}
                continue
            if r < 0.07:
                # multi-byte meta around the byte limit
                st = rng.choice([20, 31, 10, 51, 60])
                meta = meta_of_bytes(rng.choice(WIDE), rng.randrange(1016, 1036), rng.random() < 0.5)
                hdr = f"{st} {meta}\r\n".encode("utf-8")
                body = body_variants(rng) if st == 20 else b""
                if rng.random() < 0.5:
                    cut = rng.randrange(1, len(hdr))
                    yield {"kind": "resp", "actions": [send(hdr[:cut]), ["sleep", 0.01], send(hdr[cut:] + body), ["close"]], "timeout": 2.0}
                else:
                    yield {"kind": "resp", "actions": [send(hdr + body), ["close"]], "timeout": 2.0}
                continue
            if r < 0.62:
                st = rng.choice([20, 20, 20, 21, 29, 10, 11, 30, 31, 40, 44, 51, 59, 60, 62, rng.randrange(10, 70)])
                meta = rng.choice(METAS_2X) if 20 <= st <= 29 else rng.choice(["", "x", "some text; charset=latin-1", "é" * rng.randrange(0, 200), "gemini://h/", "a" * rng.choice([1022, 1023, 1024])])
                body = body_variants(rng) if (20 <= st <= 29 or rng.random() < 0.2) else b""
                yield {"kind": "resp", "actions": resp_actions(rng, f"{st} {meta}\r\n".encode("utf-8"), body), "timeout": 2.0}
            elif r < 0.8:
                # mutated header bytes
                h = bytearray(f"{rng.choice([20, 31, 51])} {rng.choice(METAS_2X[:6])}".encode())
                for _ in range(rng.choice([1, 1, 2])):
                    k = rng.random()
                    i = rng.randrange(len(h) + 1)
                    ch = rng.choice(b"\r\n \t+-_0129\x00\xff\x80;=")
                    if k < 0.4:
                        h.insert(i, ch)
                    elif k < 0.7 and h:
                        del h[min(i, len(h) - 1)]
                    elif h:
                        h[min(i, len(h) - 1)] = ch
                yield {"kind": "resp", "actions": [send(bytes(h) + b"\r\n" + body_variants(rng)), ["close"]], "timeout": 2.0}
            elif r < 0.9:
                data = f"{rng.choice([20, 20, 51])} text/plain; charset=latin-1\r\n".encode() + body_variants(rng) + b"tail"
                cut = rng.randrange(0, len(data) + 1)
                end = rng.choice([["close"], ["reset"]])
                acts = ([send(data[:cut])] if cut else []) + ([["sleep", 0.03]] if end[0] == "reset" else []) + [end]
                yield {"kind": "cut", "actions": acts, "timeout": 2.0}
            else:
                st = rng.choice([30, 31, 32, 39])
                tgt = rng.choice(["gemini://127.0.0.1:$D/", "gemini://127.0.0.1:$D/" + "p" * 50, "gemini://127.0.0.1:$U/again", "//127.0.0.1:$D/", "titan://127.0.0.1:$D/x;size=0"])
                yield {"kind": "redirect", "actions": resp_actions(rng, f"{st} {tgt}\r\n".encode(), b""), "timeout": 2.0}

    # ---- implementation --------------------------------------------------------------------------
    def _subst_actions(self, actions):
        out = []
        for a in actions:
            if a[0] == "send":
                b = bytes.fromhex(a[1]).replace(b"$D", str(self.decoy.port).encode()).replace(b"$U", str(self.up.port).encode())
                out.append(["send", b.hex()])
            else:
                out.append(a)
        return out

    def impl(self, case):
        obs, down = self._run_once(case)
        # a late answer is a verdict only when it is reproducible: scheduling noise does not repeat
        tries = 0
        while obs["late"] and obs["closed"] and tries < 2:   # (no answer at all within timeout + 2.5 s is not noise)
            tries += 1
            o2, d2 = self._run_once(case)
            if not o2["late"]:
                obs, down = o2, d2
        self._last_down = down  # for the oracle (bodies too large for the observation)
        self._last_case = case
        return obs

    def _run_once(self, case):
        from nauyaca.server.proxy import ProxyHandler

        U = self.U
        acts = self._subst_actions(case["actions"])
        for s in (self.up, self.decoy, self.plain, self.mute):
            s.reset({"actions": [["close"]]})
        self.up.reset({"actions": acts})
        self.decoy.reset({"actions": [["send", b"20 text/plain\r\nDECOY".hex()], ["close"]]})
        self.mute.reset({"actions": [["hold"]], "read": False})
        fault = case.get("fault")
        port = self.up.port
        upstream = None
        if fault == "refused":
            port = U.closed_port()  # bound and released just now, so that nobody else listens there
        elif fault == "tlsFailure":
            port = self.plain.port
        elif fault == "stallConnect":
            port = self.mute.port
        elif fault == "badUpstreamUrl":
            upstream = "gemini://127.0.0.1:99999"
        hkey = (upstream or f"gemini://127.0.0.1:{port}", case["timeout"])
        handler = self._handlers.get(hkey)
        if handler is None:  # one handler object serves many requests, as in a running server
            handler = self._handlers[hkey] = ProxyHandler(hkey[0], prefix="/", timeout=case["timeout"])
        # the fetch is bounded by the location timeout (the loopback connect is immediate): anything later is late,
        # nothing at all within timeout + 2.5 s is a hang
        wait = case["timeout"] + 2.5 if "leave_after" not in case else case["timeout"] + 0.3

        async def go():
            t0 = time.monotonic()
            r = await U.downstream_request(handler.handle, (REQ + "\r\n").encode(), wait, case.get("leave_after"))
            el = time.monotonic() - t0
            self.up.release()
            await self.up.quiesce()
            await self.decoy.quiesce()
            return r, el

        r, el = self.loop.run_until_complete(go())
        down = b"".join(bytes.fromhex(w) for w in r["writes"])
        obs = {"down": digest(down), "nwrites": len(r["writes"]), "dropped": len(r["dropped"]), "closed": r["closed"], "left": r["client_left"],
               "up_conns": self.up.connections, "decoy_conns": self.decoy.connections,
               "up_lines": [bytes.fromhex(e["line"]).decode("utf-8", "replace").replace(str(self.up.port), "$U") for e in self.up.log],
               "late": "leave_after" not in case and el > case["timeout"] + MARGIN}
        return obs, down

    # ---- model -----------------------------------------------------------------------------------
    def _spec(self, case):
        """expected class according to the upstream script: ('relay', status, meta, body) | ('fail', fault kind) | ('either', …)"""
        acts = self._subst_actions(case["actions"]) if getattr(self, "_ready", False) else case["actions"]
        if case["kind"] == "fault":
            return ("fail", case["fault"])
        if case["kind"] == "leave":
            return ("leave",)
        T = case["timeout"]
        tl, t_end, end = timeline(acts)
        if end == "hold" or t_end >= 1.4 * T:
            # the response is not complete one timeout after the request: 43, unless a complete non-2x header
            # arrived early (the client hangs up right after such a header)
            early = classify_stream(b"".join(b for t, b in tl if t <= 0.6 * T))
            if early[0] == "well" and not 20 <= early[1] <= 29:
                return ("relay", early[1], early[2], b"")
            mid = classify_stream(b"".join(b for t, b in tl if t < 1.4 * T))
            if mid[0] in ("well", "grey") and not 20 <= mid[1] <= 29:
                return ("relay-or-fail", mid[1], mid[2] if mid[0] == "well" else b"", b"")
            return ("fail", "stallBody" if any(b"\r\n" in b for t, b in tl if t <= T) else "stallHeader")
        data = b"".join(b for t, b in tl)
        cls = classify_stream(data)
        if t_end > 0.6 * T and cls[0] == "well" and 20 <= cls[1] <= 29:
            return ("relay-or-fail", cls[1], cls[2], cls[3])   # ends close to the deadline: either outcome
        if end == "reset":
            # a reset before the response is complete is a fault; after a complete non-2x header the client has already hung up
            if cls[0] == "well" and not 20 <= cls[1] <= 29:
                return ("relay-or-fail", cls[1], cls[2], b"")
            return ("fail", "reset")
        if cls[0] == "well":
            return ("relay", cls[1], cls[2], cls[3])
        if cls[0] == "grey":
            return ("relay-or-fail", cls[1], b"", b"")
        reason = cls[1]
        kind = {"no-crlf": "closedMidHeader" if len(data) <= 1028 else "headerTooLong", "header-too-long": "headerTooLong", "status-spelling": "statusSpelling",
                "status-range": "statusOutOfRange", "missing-space": "missingSeparator", "meta-bare-cr-lf": "metaControl", "bad-utf8": "headerNotUtf8",
                "body-over-cap": "bodyTooLarge"}[reason]
        if reason == "no-crlf" and not data:
            kind = "closedBeforeHeader"
        return ("fail", kind, reason)

    def model(self, case):
        sp = self._spec(case)
        if sp[0] == "relay":
            _, st, meta, body = sp
            if len(body) > 70000:
                return None
            return f"relay resp {st} {cps(meta.decode('utf-8'))} b:{core.hexb(body)}".replace("b:-", "n")
        if sp[0] == "fail":
            return f"relay fault {sp[1]} -"
        return None

    def expect(self, case, out):
        assert out.startswith("ok "), out
        h, b = out[3:].split(" ")
        return {"header": "" if h == "-" else h, "body": "" if b == "-" else b, "fail": self._spec(case)[0] == "fail"}

    def same(self, expected, obs):
        d = obs["down"]
        if "hex" not in d:
            return True
        down = d["hex"]
        if expected["fail"]:
            # the message text after the fixed prefix is the exception's own; compare the modelled prefix
            h = bytes.fromhex(expected["header"])
            prefix = h[:-2]
            return bytes.fromhex(down).startswith(prefix) and bytes.fromhex(down).endswith(b"\r\n") and bytes.fromhex(down).count(b"\r\n") == 1
        return down == expected["header"] + expected["body"]

    # ---- direct oracle ---------------------------------------------------------------------------
    def oracle(self, case, obs):
        down = self._last_down if getattr(self, "_last_case", None) is case else (bytes.fromhex(obs["down"]["hex"]) if "hex" in obs["down"] else None)
        sp = self._spec(case)
        if obs["dropped"] and not obs["left"]:
            return ("not-one-response", f"{obs['dropped']} write(s) after the connection was closed")
        if sp[0] == "leave":
            if down and parse_down(down) is None:
                return ("not-one-response", f"ill-formed bytes written to a client that left: {down[:60]!r}")
            return None
        if down is None:
            return None
        if not obs["closed"] or not down:
            return ("no-response", f"downstream client got {len(down)} bytes and closed={obs['closed']} within timeout {case['timeout']} s + 2.5 s ({case['kind']}, {sp[:2]})")
        pd = parse_down(down)
        if pd is None:
            return ("not-one-response", f"downstream bytes are not one well-formed response: {down[:80]!r}")
        st, meta, body = pd
        if obs["decoy_conns"]:
            return ("redirect-followed", f"the proxy connected to the redirect target ({obs['decoy_conns']} connection(s)); downstream got {down[:60]!r}")
        if obs["up_conns"] > 1:
            return ("redirect-followed" if case["kind"] == "redirect" else "many-connections", f"{obs['up_conns']} upstream connections for one request")
        if obs["late"]:
            return ("late-response", f"the answer {down[:40]!r} arrived later than the location timeout {case['timeout']} s + {MARGIN} s after the request (three attempts)")
        if sp[0] == "fail":
            if st != 43:
                if len(sp) > 2:
                    return (f"malformed-relayed:{sp[2]}", f"malformed upstream response ({sp[2]}) was answered {down[:70]!r} instead of 43")
                return (f"fault-not-43:{sp[1]}", f"upstream fault {sp[1]} was answered {down[:70]!r} instead of 43")
            return None
        want_st, want_meta, want_body = sp[1], sp[2], sp[3]
        if sp[0] == "relay-or-fail" and st == 43:
            return None
        if st == 43 and want_st != 43:
            return ("well-formed-answered-43", f"well-formed upstream response {want_st} {want_meta[:40]!r} (+{len(want_body)} body bytes) was answered {down[:80]!r}")
        if st != want_st:
            return ("relay-altered:status", f"upstream status {want_st}, downstream {st}")
        if meta != want_meta:
            return ("relay-altered:meta", f"upstream meta {want_meta[:60]!r}, downstream {meta[:60]!r}")
        if body != want_body:
            return ("relay-altered:body", f"status {st} meta {meta[:50]!r}: upstream body {want_body[:24]!r}… ({len(want_body)} bytes), downstream {body[:24]!r}… ({len(body)} bytes)")
        return None

    def key(self, case, obs):
        sp = self._spec(case)
        if sp[0] == "fail":
            return f"fail:{sp[1]}"
        if sp[0] == "leave":
            return "client-left"
        st = sp[1]
        size = len(sp[3])
        meta = sp[2].decode("utf-8", "replace").lower()
        cs = "charset" if "charset=" in meta and "utf-8" not in meta else "text" if meta.startswith("text/") or meta.strip() == "" else "binary"
        sz = "0" if size == 0 else "<=4k" if size <= 4096 else "<=64k" if size <= 65536 else "<cap" if size < CAP else "cap"
        return f"{sp[0]}:{st // 10}x:{cs if 20 <= st <= 29 else 'meta' + ('1k' if len(sp[2]) >= 1000 else '')}:{sz}" + (":redirect" if case["kind"] == "redirect" else "")


FAMILIES = [Relay()]


def extract_extra():
    from ..sim import url_gen

    url_gen.write_proxy_gen()
