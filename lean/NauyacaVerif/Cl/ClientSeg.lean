import NauyacaVerif.Cl.Client

/-! # M-Client: the outcome as a function of the whole server stream

`phaseOf env T` says what the protocol has concluded once exactly the bytes `T` have arrived, whatever
the reads were; `finish` says what `connection_lost` then delivers.  `run_spec` proves that the step
functions of `Client.lean` compute exactly this for every segmentation — from which segmentation
independence, faithfulness of the response, the size cap and the header bound follow. -/
namespace Cl

theorem findCRLF_lt {b : Bytes} {i : Nat} (h : findCRLF b = some i) : i + 2 ≤ b.length := by
  fun_induction findCRLF b generalizing i with
  | case1 => simp at h
  | case2 => simp at h
  | case3 a b rest hc => simp at h; subst h; simp
  | case4 a b rest hc ih =>
    simp at h; obtain ⟨j, hj, rfl⟩ := h
    have := ih hj; simp at this ⊢; omega

theorem findCRLF_append_some {a : Bytes} {i : Nat} (b : Bytes) (h : findCRLF a = some i) :
    findCRLF (a ++ b) = some i := by
  fun_induction findCRLF a generalizing i with
  | case1 => simp at h
  | case2 => simp at h
  | case3 x y rest hc => simp at h; subst h; simp [findCRLF, hc]
  | case4 x y rest hc ih =>
    simp at h; obtain ⟨j, hj, rfl⟩ := h
    have := ih hj
    simp only [List.cons_append] at this ⊢
    simp [findCRLF, hc, this]

theorem findCRLF_append_none {a : Bytes} (b : Bytes) {i : Nat} (h : findCRLF a = none)
    (h2 : findCRLF (a ++ b) = some i) : a.length ≤ i + 1 := by
  fun_induction findCRLF a generalizing i with
  | case1 => simp
  | case2 => simp
  | case3 x y rest hc => simp at h
  | case4 x y rest hc ih =>
    simp at h
    simp only [List.cons_append] at h2
    rw [findCRLF] at h2
    simp [hc] at h2
    obtain ⟨j, hj, rfl⟩ := h2
    have := ih h (by simpa using hj)
    simp at this ⊢; omega

/-- what the header line says -/
inductive Hdr where
  | badUtf8
  | bad (k : String)
  | ok (st : Nat) (m : Bytes)
deriving Repr, DecidableEq

def hdrOf (env : Env) (line : Bytes) : Hdr :=
  if env.utf8Ok line then
    match statusOf (splitSpace line).1 with
    | none => .bad "badStatus"
    | some st =>
      if headerBad line st then .bad "badHeader"
      else if 10 ≤ st ∧ st < 70 then .ok st (splitSpace line).2 else .bad "statusRange"
  else .badUtf8

inductive Phase where
  | waitHeader                                  -- no complete header line yet, still within the bound
  | body (st : Nat) (m : Bytes) (b : Bytes)     -- 2x header parsed; `b` = body so far, within the cap
  | closedPending (st : Nat) (m : Bytes)        -- valid non-2x header: response delivered (at header time), closed
  | closedErr (k : String)                      -- error set and transport closed
  | crashed                                     -- header line not UTF-8: exception escaped `data_received`
deriving Repr, DecidableEq

def Phase.closed : Phase → Bool
  | .waitHeader => false
  | .body _ _ _ => false
  | _ => true

/-- the first CRLF of `T` is at index `i` -/
def phaseAt (env : Env) (T : Bytes) (i : Nat) : Phase :=
  if i > maxHeader then .closedErr "headerTooLong"
  else match hdrOf env (T.take i) with
    | .badUtf8 => .crashed
    | .bad k => .closedErr k
    | .ok st m =>
      if 20 ≤ st ∧ st < 30 then
        if (T.drop (i + 2)).length > maxBody then .closedErr "tooBig" else .body st m (T.drop (i + 2))
      else .closedPending st m

def phaseOf (env : Env) (T : Bytes) : Phase :=
  match findCRLF T with
  | none => if T.length > maxHeader + 1 then .closedErr "headerTooLong" else .waitHeader
  | some i => phaseAt env T i

/-- what `connection_lost(exc)` delivers in each phase -/
def finish (env : Env) (dt : Bool) (p : Phase) (exc : Bool) : Fut :=
  match p with
  | .waitHeader => if exc then .error "connection" else .error "closedEarly"
  | .body st m b =>
    if exc then .error "connection"
    else if env.isText m ∧ dt then
      match env.decodeBody m b with
      | 0 => .response st m (some b) true
      | 1 => .error "decode"
      | 2 => .error "charset"
      | _ => .error "codec"
    else .response st m (some b) false
  | .closedPending st m => .response st m none false      -- already delivered: the teardown cannot change it
  | .closedErr k => .error k
  | .crashed => .error "headerUtf8"

/-- did the protocol itself close the transport? -/
def Phase.closeReq : Phase → Bool
  | .closedPending _ _ => true
  | .closedErr _ => true
  | _ => false

def Matches (s : CSt) : Phase → Prop
  | .waitHeader => s.headerReceived = false ∧ s.status = none ∧ s.fut = .pending ∧ s.closeReq = false ∧ s.crashed = false
  | .body st m b => s.buf = b ∧ s.headerReceived = true ∧ s.status = some st ∧ s.mta = m ∧ s.fut = .pending ∧
      s.closeReq = false ∧ s.crashed = false
  | .closedPending st m => s.headerReceived = true ∧ s.status = some st ∧ s.mta = m ∧ s.fut = .response st m none false ∧
      s.closeReq = true ∧ s.crashed = false
  | .closedErr k => s.fut = .error k ∧ s.closeReq = true ∧ s.crashed = false
  | .crashed => s.fut = .error "headerUtf8" ∧ s.crashed = true ∧ s.closeReq = false

/-- the state after reads that concatenate to `T` -/
def Rel (env : Env) (dt : Bool) (s : CSt) (T : Bytes) : Prop :=
  s.lost = false ∧ s.decodeText = dt ∧ (phaseOf env T = .waitHeader → s.buf = T) ∧ Matches s (phaseOf env T)

theorem setError_pend (s : CSt) (k : String) (h : s.fut = .pending) : setError s k = { s with fut := .error k } := by
  unfold setError; rw [if_pos h]

theorem capCheck_small (s : CSt) (h : s.buf.length ≤ maxBody) : capCheck s = s := by
  unfold capCheck; rw [if_neg (by omega)]

theorem maxHeader_lt_maxBody : maxHeader + 1 ≤ maxBody := by decide

/-- processing `c` in a state that is still waiting for the header = looking at `buf ++ c` afresh -/
theorem header_step (env : Env) (dt : Bool) (s : CSt) (c : Bytes)
    (h1 : s.headerReceived = false) (h2 : s.status = none) (h3 : s.fut = .pending) (h4 : s.closeReq = false)
    (h5 : s.crashed = false) (h6 : s.lost = false) (h7 : s.decodeText = dt) :
    Rel env dt (onData env s c) (s.buf ++ c) := by
  obtain ⟨buf, hr, status, mta, fut, closeReq, crashed, lost, decodeText⟩ := s
  simp only at h1 h2 h3 h4 h5 h6 h7
  subst h1 h2 h3 h4 h5 h6 h7
  simp only [onData, Bool.false_eq_true, or_self, ↓reduceIte]
  cases hf : findCRLF (buf ++ c) with
  | none =>
    simp only
    by_cases hlen : (buf ++ c).length > maxHeader + 1
    · rw [if_pos hlen]
      have hph : phaseOf env (buf ++ c) = .closedErr "headerTooLong" := by
        unfold phaseOf; rw [hf]; simp only; rw [if_pos hlen]
      unfold Rel; rw [hph]
      simp [tooLong, setError, Matches]
    · rw [if_neg hlen]
      have hph : phaseOf env (buf ++ c) = .waitHeader := by
        unfold phaseOf; rw [hf]; simp only; rw [if_neg hlen]
      rw [capCheck_small _ (by have := maxHeader_lt_maxBody; simp only at hlen ⊢; omega)]
      unfold Rel; rw [hph]
      simp [Matches]
  | some i =>
    simp only
    have hph0 : phaseOf env (buf ++ c) = phaseAt env (buf ++ c) i := by unfold phaseOf; rw [hf]
    by_cases hi : i > maxHeader
    · rw [if_pos hi]
      have hph : phaseOf env (buf ++ c) = .closedErr "headerTooLong" := by
        rw [hph0]; unfold phaseAt; rw [if_pos hi]
      unfold Rel; rw [hph]
      simp [tooLong, setError, Matches]
    · rw [if_neg hi]
      unfold onHeader
      simp only
      by_cases hu : env.utf8Ok ((buf ++ c).take i) = true
      · rw [if_pos hu]
        cases hp : statusOf (splitSpace ((buf ++ c).take i)).1 with
        | none =>
          have hph : phaseOf env (buf ++ c) = .closedErr "badStatus" := by
            rw [hph0]; unfold phaseAt; rw [if_neg hi]; simp [hdrOf, hu, hp]
          unfold Rel; rw [hph]
          simp [parseHeader, hp, setError, afterHeader, Matches]
        | some st =>
          cases hbad : headerBad ((buf ++ c).take i) st with
          | true =>
            have hph : phaseOf env (buf ++ c) = .closedErr "badHeader" := by
              rw [hph0]; unfold phaseAt; rw [if_neg hi]; simp [hdrOf, hu, hp, hbad]
            unfold Rel; rw [hph]
            simp [parseHeader, hp, hbad, setError, afterHeader, Matches]
          | false =>
            by_cases hrange : 10 ≤ st ∧ st < 70
            · by_cases h2x : 20 ≤ st ∧ st < 30
              · by_cases hbig : ((buf ++ c).drop (i + 2)).length > maxBody
                · have hph : phaseOf env (buf ++ c) = .closedErr "tooBig" := by
                    rw [hph0]; unfold phaseAt; rw [if_neg hi]
                    simp only [hdrOf, hu, hp, ↓reduceIte, hbad, Bool.false_eq_true, hrange, and_self, h2x]
                    rw [if_pos hbig]
                  unfold Rel; rw [hph]
                  simp only [parseHeader, hp, hbad, Bool.false_eq_true, hrange, and_self, ↓reduceIte, afterHeader, h2x, capCheck]
                  rw [if_pos hbig]
                  simp [setError, Matches]
                · have hph : phaseOf env (buf ++ c) = .body st (splitSpace ((buf ++ c).take i)).2 ((buf ++ c).drop (i + 2)) := by
                    rw [hph0]; unfold phaseAt; rw [if_neg hi]
                    simp only [hdrOf, hu, hp, ↓reduceIte, hbad, Bool.false_eq_true, hrange, and_self, h2x]
                    rw [if_neg hbig]
                  unfold Rel; rw [hph]
                  simp only [parseHeader, hp, hbad, Bool.false_eq_true, hrange, and_self, ↓reduceIte, afterHeader, h2x, capCheck]
                  rw [if_neg hbig]
                  simp [Matches]
              · have hph : phaseOf env (buf ++ c) = .closedPending st (splitSpace ((buf ++ c).take i)).2 := by
                  rw [hph0]; unfold phaseAt; rw [if_neg hi]
                  simp only [hdrOf, hu, hp, ↓reduceIte, hbad, Bool.false_eq_true, hrange, and_self]
                  rw [if_neg h2x]
                unfold Rel; rw [hph]
                simp only [parseHeader, hp, hbad, Bool.false_eq_true, hrange, and_self, ↓reduceIte, afterHeader]
                rw [if_neg h2x]
                simp [Matches, deliverHeader]
            · have hph : phaseOf env (buf ++ c) = .closedErr "statusRange" := by
                rw [hph0]; unfold phaseAt; rw [if_neg hi]
                simp only [hdrOf, hu, hp, ↓reduceIte, hbad, Bool.false_eq_true]
                rw [if_neg hrange]
              have h2x : ¬ (20 ≤ st ∧ st < 30) := by omega
              unfold Rel; rw [hph]
              simp only [parseHeader, hp, hbad, Bool.false_eq_true, ↓reduceIte]
              rw [if_neg hrange]
              simp only [setError, ↓reduceIte, afterHeader]
              rw [if_neg h2x]
              simp [Matches, deliverHeader]
      · rw [if_neg hu]
        have hph : phaseOf env (buf ++ c) = .crashed := by
          rw [hph0]; unfold phaseAt; rw [if_neg hi]; simp [hdrOf, hu]
        unfold Rel; rw [hph]
        simp [crash, setError, Matches]

theorem phaseAt_body (env : Env) (T : Bytes) (i : Nat) (st : Nat) (m b : Bytes) (h : phaseAt env T i = .body st m b) :
    ¬ i > maxHeader ∧ hdrOf env (T.take i) = .ok st m ∧ (20 ≤ st ∧ st < 30) ∧ b = T.drop (i + 2) ∧ b.length ≤ maxBody := by
  unfold phaseAt at h
  split at h
  · cases h
  · rename_i hi
    split at h
    · cases h
    · cases h
    · rename_i st' m' hh
      split at h
      · rename_i h2x
        split at h
        · cases h
        · rename_i hb
          injection h with e1 e2 e3
          subst e1 e2 e3
          exact ⟨hi, hh, h2x, rfl, by omega⟩
      · cases h

theorem take_append_of_le (a b : Bytes) (i : Nat) (h : i ≤ a.length) : (a ++ b).take i = a.take i := by
  rw [List.take_append_of_le_length h]

theorem drop_append_of_le (a b : Bytes) (i : Nat) (h : i ≤ a.length) : (a ++ b).drop i = a.drop i ++ b := by
  rw [List.drop_append_of_le_length h]

/-- more body bytes in the body phase -/
theorem body_step (env : Env) (dt : Bool) (s : CSt) (T c : Bytes) (st : Nat) (m b : Bytes)
    (hph : phaseOf env T = .body st m b) (hm : Matches s (.body st m b)) (h6 : s.lost = false) (h7 : s.decodeText = dt) :
    Rel env dt (onData env s c) (T ++ c) := by
  obtain ⟨hb, hhr, hst, hmt, hfut, hcl, hcr⟩ := hm
  cases hf : findCRLF T with
  | none => unfold phaseOf at hph; rw [hf] at hph; simp only at hph; split at hph <;> cases hph
  | some i =>
    have hat : phaseAt env T i = .body st m b := by unfold phaseOf at hph; rw [hf] at hph; exact hph
    obtain ⟨hi, hh, h2x, hbd, hblen⟩ := phaseAt_body env T i st m b hat
    have hlt := findCRLF_lt hf
    have hf2 : findCRLF (T ++ c) = some i := findCRLF_append_some c hf
    have htake : (T ++ c).take i = T.take i := take_append_of_le T c i (by omega)
    have hdrop : (T ++ c).drop (i + 2) = b ++ c := by rw [drop_append_of_le T c (i + 2) hlt, hbd]
    obtain ⟨buf, hr, status, mta, fut, closeReq, crashed, lost, decodeText⟩ := s
    simp only at hb hhr hst hmt hfut hcl hcr h6 h7
    subst hb hhr hst hmt hfut hcl hcr h6 h7
    simp only [onData, Bool.false_eq_true, or_self, ↓reduceIte]
    by_cases hbig : (buf ++ c).length > maxBody
    · have hph2 : phaseOf env (T ++ c) = .closedErr "tooBig" := by
        unfold phaseOf; rw [hf2]; simp only; unfold phaseAt; rw [if_neg hi, htake, hh]; simp only [h2x, and_self, ↓reduceIte]
        rw [hdrop, if_pos hbig]
      unfold Rel; rw [hph2]
      simp only [capCheck]
      rw [if_pos hbig]
      simp [setError, Matches]
    · have hph2 : phaseOf env (T ++ c) = .body st mta (buf ++ c) := by
        unfold phaseOf; rw [hf2]; simp only; unfold phaseAt; rw [if_neg hi, htake, hh]; simp only [h2x, and_self, ↓reduceIte]
        rw [hdrop, if_neg hbig]
      unfold Rel; rw [hph2]
      simp only [capCheck]
      rw [if_neg hbig]
      simp [Matches]

/-- once closed (or crashed) the verdict no longer depends on what else the server sends -/
theorem phase_closed_stable (env : Env) (T c : Bytes) (h : (phaseOf env T).closed = true) :
    phaseOf env (T ++ c) = phaseOf env T := by
  cases hf : findCRLF T with
  | none =>
    have hlen : T.length > maxHeader + 1 := by
      unfold phaseOf at h; rw [hf] at h; simp only at h
      split at h
      · assumption
      · simp [Phase.closed] at h
    have hT : phaseOf env T = .closedErr "headerTooLong" := by unfold phaseOf; rw [hf]; simp only; rw [if_pos hlen]
    rw [hT]
    cases hf2 : findCRLF (T ++ c) with
    | none =>
      unfold phaseOf; rw [hf2]; simp only
      rw [if_pos (by simp only [List.length_append]; omega)]
    | some j =>
      have := findCRLF_append_none c hf hf2
      unfold phaseOf; rw [hf2]; simp only
      unfold phaseAt; rw [if_pos (by omega)]
  | some i =>
    have hlt := findCRLF_lt hf
    have hf2 : findCRLF (T ++ c) = some i := findCRLF_append_some c hf
    have htake : (T ++ c).take i = T.take i := take_append_of_le T c i (by omega)
    have hdrop : (T ++ c).drop (i + 2) = T.drop (i + 2) ++ c := drop_append_of_le T c (i + 2) hlt
    have e1 : phaseOf env T = phaseAt env T i := by unfold phaseOf; rw [hf]
    have e2 : phaseOf env (T ++ c) = phaseAt env (T ++ c) i := by unfold phaseOf; rw [hf2]
    rw [e1] at h ⊢; rw [e2]
    unfold phaseAt at h ⊢
    by_cases hi : i > maxHeader
    · rw [if_pos hi, if_pos hi]
    · rw [if_neg hi] at h ⊢; rw [if_neg hi, htake]
      cases hh : hdrOf env (T.take i) with
      | badUtf8 => rfl
      | bad k => rfl
      | ok st m =>
        rw [hh] at h
        simp only at h ⊢
        by_cases h2x : 20 ≤ st ∧ st < 30
        · rw [if_pos h2x] at h ⊢; rw [if_pos h2x]
          by_cases hbig : (T.drop (i + 2)).length > maxBody
          · rw [if_pos hbig, hdrop, if_pos (by simp only [List.length_append]; omega)]
          · rw [if_neg hbig] at h; simp [Phase.closed] at h
        · rw [if_neg h2x, if_neg h2x]

theorem closed_matches (s : CSt) (p : Phase) (hc : p.closed = true) (hm : Matches s p) :
    s.closeReq = true ∨ s.crashed = true := by
  cases p with
  | waitHeader => simp [Phase.closed] at hc
  | body _ _ _ => simp [Phase.closed] at hc
  | closedPending st m => exact Or.inl hm.2.2.2.2.1
  | closedErr k => exact Or.inl hm.2.1
  | crashed => exact Or.inr hm.2.1

/-- one more read -/
theorem rel_step (env : Env) (dt : Bool) (s : CSt) (T c : Bytes) (h : Rel env dt s T) :
    Rel env dt (onData env s c) (T ++ c) := by
  obtain ⟨hl, hd, hbuf, hm⟩ := h
  cases hp : phaseOf env T with
  | waitHeader =>
    rw [hp] at hm
    obtain ⟨h1, h2, h3, h4, h5⟩ := hm
    have := header_step env dt s c h1 h2 h3 h4 h5 hl hd
    rw [hbuf hp] at this; exact this
  | body st m b =>
    rw [hp] at hm
    exact body_step env dt s T c st m b hp hm hl hd
  | closedPending st m =>
    have hc : (phaseOf env T).closed = true := by rw [hp]; rfl
    have hcm := closed_matches s _ hc hm
    have hs : onData env s c = s := by
      unfold onData; rw [if_pos (by rcases hcm with h | h <;> simp [h])]
    rw [hs]
    refine ⟨hl, hd, ?_, ?_⟩
    · rw [phase_closed_stable env T c hc, hp]; intro hx; cases hx
    · rw [phase_closed_stable env T c hc]; exact hm
  | closedErr k =>
    have hc : (phaseOf env T).closed = true := by rw [hp]; rfl
    have hcm := closed_matches s _ hc hm
    have hs : onData env s c = s := by
      unfold onData; rw [if_pos (by rcases hcm with h | h <;> simp [h])]
    rw [hs]
    refine ⟨hl, hd, ?_, ?_⟩
    · rw [phase_closed_stable env T c hc, hp]; intro hx; cases hx
    · rw [phase_closed_stable env T c hc]; exact hm
  | crashed =>
    have hc : (phaseOf env T).closed = true := by rw [hp]; rfl
    have hcm := closed_matches s _ hc hm
    have hs : onData env s c = s := by
      unfold onData; rw [if_pos (by rcases hcm with h | h <;> simp [h])]
    rw [hs]
    refine ⟨hl, hd, ?_, ?_⟩
    · rw [phase_closed_stable env T c hc, hp]; intro hx; cases hx
    · rw [phase_closed_stable env T c hc]; exact hm

theorem rel_init (env : Env) (dt : Bool) : Rel env dt (init dt) [] := by
  have hp : phaseOf env [] = .waitHeader := by simp [phaseOf, findCRLF]
  unfold Rel; rw [hp]
  simp [init, Matches]

def feed (env : Env) (s : CSt) (reads : List Bytes) : CSt := reads.foldl (onData env) s

theorem feed_rel (env : Env) (dt : Bool) (s : CSt) (T : Bytes) (reads : List Bytes) (h : Rel env dt s T) :
    Rel env dt (feed env s reads) (T ++ reads.flatten) := by
  unfold feed
  induction reads generalizing s T with
  | nil => simpa using h
  | cons c cs ih =>
    simp only [List.foldl_cons, List.flatten_cons]
    rw [← List.append_assoc]
    exact ih _ _ (rel_step env dt s T c h)

/-- the state after ANY sequence of reads is the one described by the phase of their concatenation -/
theorem reads_rel (env : Env) (dt : Bool) (reads : List Bytes) :
    Rel env dt (feed env (init dt) reads) reads.flatten := by
  simpa using feed_rel env dt (init dt) [] reads (rel_init env dt)

/-- what `connection_lost` makes of a state described by a phase -/
theorem lost_spec (env : Env) (dt : Bool) (s : CSt) (T : Bytes) (e : Bool) (h : Rel env dt s T) :
    (onLost env s e).fut = finish env dt (phaseOf env T) e ∧ (onLost env s e).closeReq = (phaseOf env T).closeReq := by
  obtain ⟨hl, hd, hbuf, hm⟩ := h
  obtain ⟨buf, hr, status, mta, fut, closeReq, crashed, lost, decodeText⟩ := s
  simp only at hl hd hbuf
  subst hl hd
  cases hp : phaseOf env T with
  | waitHeader =>
    rw [hp] at hm
    obtain ⟨h1, h2, h3, h4, h5⟩ := hm
    simp only at h1 h2 h3 h4 h5
    subst h1 h2 h3 h4 h5
    cases e <;> simp [onLost, resolve, finish, Phase.closeReq]
  | body st m b =>
    rw [hp] at hm
    obtain ⟨h0, h1, h2, h2b, h3, h4, h5⟩ := hm
    simp only at h0 h1 h2 h2b h3 h4 h5
    subst h0 h1 h2 h2b h3 h4 h5
    have h2x : 20 ≤ st ∧ st < 30 := by
      cases hf : findCRLF T with
      | none => unfold phaseOf at hp; rw [hf] at hp; simp only at hp; split at hp <;> cases hp
      | some i =>
        have hat : phaseAt env T i = .body st mta buf := by unfold phaseOf at hp; rw [hf] at hp; exact hp
        exact (phaseAt_body env T i st mta buf hat).2.2.1
    cases e
    · simp only [onLost, ne_eq, not_true_eq_false, ↓reduceIte, resolve, Bool.false_eq_true, Bool.not_true, h2x, and_self,
        deliver, finish, Phase.closeReq]
      by_cases ht : env.isText mta = true ∧ decodeText = true
      · rw [if_pos ht, if_pos ht]
        generalize env.decodeBody mta buf = n
        refine ⟨?_, ?_⟩
        · match n with
          | 0 => rfl
          | 1 => rfl
          | 2 => rfl
          | _ + 3 => rfl
        · match n with
          | 0 => rfl
          | 1 => rfl
          | 2 => rfl
          | _ + 3 => rfl
      · rw [if_neg ht, if_neg ht]
        exact ⟨rfl, rfl⟩
    · simp [onLost, resolve, finish, Phase.closeReq]
  | closedPending st m =>
    rw [hp] at hm
    obtain ⟨h1, h2, h2b, h3, h4, h5⟩ := hm
    simp only at h1 h2 h2b h3 h4 h5
    subst h1 h2 h2b h3 h4 h5
    have hn2x : ¬ (20 ≤ st ∧ st < 30) := by
      cases hf : findCRLF T with
      | none => unfold phaseOf at hp; rw [hf] at hp; simp only at hp; split at hp <;> cases hp
      | some i =>
        have hat : phaseAt env T i = .closedPending st mta := by unfold phaseOf at hp; rw [hf] at hp; exact hp
        unfold phaseAt at hat
        split at hat
        · cases hat
        · split at hat
          · cases hat
          · cases hat
          · split at hat
            · split at hat <;> cases hat
            · rename_i h2x; injection hat with e1 e2; subst e1; exact h2x
    cases e
    · simp only [onLost, ne_eq, not_true_eq_false, ↓reduceIte, resolve, Bool.false_eq_true, Bool.not_true, finish, Phase.closeReq]
      rw [if_neg hn2x]
      exact ⟨rfl, rfl⟩
    · simp [onLost, resolve, finish, Phase.closeReq]
  | closedErr k =>
    rw [hp] at hm
    obtain ⟨h1, h2, h3⟩ := hm
    simp only at h1 h2 h3
    subst h1 h2 h3
    simp [onLost, finish, Phase.closeReq]
  | crashed =>
    rw [hp] at hm
    obtain ⟨h1, h2, h3⟩ := hm
    simp only at h1 h2 h3
    subst h1 h2 h3
    simp [onLost, finish, Phase.closeReq]

/-- the events of a connection: reads, then the loss -/
def streamEvs (reads : List Bytes) (exc : Bool) : List CEv := reads.map CEv.data ++ [.lost exc]

theorem foldl_data (env : Env) (s : CSt) (reads : List Bytes) :
    (reads.map CEv.data).foldl (cstep env) s = feed env s reads := by
  unfold feed
  induction reads generalizing s with
  | nil => rfl
  | cons c cs ih => simp only [List.map_cons, List.foldl_cons, cstep]; exact ih _

/-- **the outcome of a connection is a function of the concatenated stream** -/
theorem run_spec (env : Env) (dt : Bool) (reads : List Bytes) (exc : Bool) :
    (crunFrom env (init dt) (streamEvs reads exc)).fut = finish env dt (phaseOf env reads.flatten) exc ∧
    (crunFrom env (init dt) (streamEvs reads exc)).closeReq = (phaseOf env reads.flatten).closeReq := by
  unfold crunFrom streamEvs
  rw [List.foldl_append, foldl_data]
  simp only [List.foldl_cons, List.foldl_nil, cstep]
  exact lost_spec env dt _ _ exc (reads_rel env dt reads)

/-- the future while the connection is still up -/
def Phase.fut : Phase → Fut
  | .closedPending st m => .response st m none false
  | .closedErr k => .error k
  | .crashed => .error "headerUtf8"
  | _ => .pending

theorem matches_fut (s : CSt) (p : Phase) (h : Matches s p) : s.fut = p.fut ∧ s.closeReq = p.closeReq := by
  cases p with
  | waitHeader => exact ⟨h.2.2.1, h.2.2.2.1⟩
  | body st m b => exact ⟨h.2.2.2.2.1, h.2.2.2.2.2.1⟩
  | closedPending st m => exact ⟨h.2.2.2.1, h.2.2.2.2.1⟩
  | closedErr k => exact ⟨h.1, h.2.1⟩
  | crashed => exact ⟨h.1, h.2.2⟩

/-- before the connection is lost: future and close flag after any reads -/
theorem feed_spec (env : Env) (dt : Bool) (reads : List Bytes) :
    (feed env (init dt) reads).fut = (phaseOf env reads.flatten).fut ∧
    (feed env (init dt) reads).closeReq = (phaseOf env reads.flatten).closeReq :=
  matches_fut _ _ (reads_rel env dt reads).2.2.2

theorem hdrOf_ok (env : Env) (line : Bytes) (st : Nat) (m : Bytes) (h : hdrOf env line = .ok st m) :
    env.utf8Ok line = true ∧ statusOf (splitSpace line).1 = some st ∧ headerBad line st = false ∧ (10 ≤ st ∧ st < 70) ∧
    m = (splitSpace line).2 := by
  unfold hdrOf at h
  split at h
  · rename_i hu
    split at h
    · cases h
    · rename_i st' hp
      split at h
      · cases h
      · rename_i hb
        split at h
        · rename_i hr
          injection h with e1 e2
          subst e1 e2
          exact ⟨hu, hp, by simpa using hb, hr, rfl⟩
        · cases h
  · cases h

theorem phaseOf_body_inv (env : Env) (T : Bytes) (st : Nat) (m b : Bytes) (h : phaseOf env T = .body st m b) :
    ∃ i, findCRLF T = some i ∧ i ≤ maxHeader ∧ hdrOf env (T.take i) = .ok st m ∧ (20 ≤ st ∧ st < 30) ∧
      b = T.drop (i + 2) ∧ b.length ≤ maxBody := by
  cases hf : findCRLF T with
  | none => unfold phaseOf at h; rw [hf] at h; simp only at h; split at h <;> cases h
  | some i =>
    have hat : phaseAt env T i = .body st m b := by unfold phaseOf at h; rw [hf] at h; exact h
    obtain ⟨h1, h2, h3, h4, h5⟩ := phaseAt_body env T i st m b hat
    exact ⟨i, rfl, by omega, h2, h3, h4, h5⟩

theorem phaseOf_closedPending_inv (env : Env) (T : Bytes) (st : Nat) (m : Bytes) (h : phaseOf env T = .closedPending st m) :
    ∃ i, findCRLF T = some i ∧ i ≤ maxHeader ∧ hdrOf env (T.take i) = .ok st m ∧ ¬ (20 ≤ st ∧ st < 30) := by
  cases hf : findCRLF T with
  | none => unfold phaseOf at h; rw [hf] at h; simp only at h; split at h <;> cases h
  | some i =>
    have hat : phaseAt env T i = .closedPending st m := by unfold phaseOf at h; rw [hf] at h; exact h
    unfold phaseAt at hat
    split at hat
    · cases hat
    · rename_i hi
      split at hat
      · cases hat
      · cases hat
      · rename_i st' m' hh
        split at hat
        · split at hat <;> cases hat
        · rename_i h2x
          injection hat with e1 e2
          subst e1 e2
          exact ⟨i, rfl, by omega, hh, h2x⟩

/-- what a response can be, read off the whole stream `T` (the concatenation of the reads) -/
def Faithful (env : Env) (dt : Bool) (T : Bytes) (st : Nat) (m : Bytes) (b : Option Bytes) (d : Bool) : Prop :=
  ∃ i, findCRLF T = some i ∧ i ≤ maxHeader ∧
    env.utf8Ok (T.take i) = true ∧ statusOf (splitSpace (T.take i)).1 = some st ∧ headerBad (T.take i) st = false ∧
    m = (splitSpace (T.take i)).2 ∧ (10 ≤ st ∧ st < 70) ∧
    ((20 ≤ st ∧ st < 30) → b = some (T.drop (i + 2)) ∧ (T.drop (i + 2)).length ≤ maxBody ∧
        (d = true ↔ (env.isText m = true ∧ dt = true)) ∧ (d = true → env.decodeBody m (T.drop (i + 2)) = 0)) ∧
    (¬ (20 ≤ st ∧ st < 30) → b = none ∧ d = false)

theorem finish_response (env : Env) (dt : Bool) (T : Bytes) (exc : Bool) (st : Nat) (m : Bytes) (b : Option Bytes) (d : Bool)
    (h : finish env dt (phaseOf env T) exc = .response st m b d) :
    (exc = false ∨ ¬ (20 ≤ st ∧ st < 30)) ∧ Faithful env dt T st m b d := by
  cases hp : phaseOf env T with
  | waitHeader => rw [hp] at h; simp only [finish] at h; split at h <;> cases h
  | closedErr k => rw [hp] at h; cases h
  | crashed => rw [hp] at h; cases h
  | closedPending st' m' =>
    rw [hp] at h
    simp only [finish] at h
    injection h with e1 e2 e3 e4
    subst e1 e2 e3 e4
    obtain ⟨i, hf, hi, hh, hn⟩ := phaseOf_closedPending_inv env T _ _ hp
    obtain ⟨g1, g2, g2b, g3, g4⟩ := hdrOf_ok env _ _ _ hh
    refine ⟨Or.inr hn, i, hf, hi, g1, g2, g2b, g4, g3, fun h2 => absurd h2 hn, fun _ => ⟨rfl, rfl⟩⟩
  | body st' m' b' =>
    rw [hp] at h
    obtain ⟨i, hf, hi, hh, h2x, hb, hlen⟩ := phaseOf_body_inv env T _ _ _ hp
    obtain ⟨g1, g2, g2b, g3, g4⟩ := hdrOf_ok env _ _ _ hh
    simp only [finish] at h
    split at h
    · cases h
    · rename_i he
      split at h
      · rename_i ht
        split at h
        · rename_i hd
          injection h with e1 e2 e3 e4
          subst e1 e2 e3 e4
          refine ⟨Or.inl (by simpa using he), i, hf, hi, g1, g2, g2b, g4, g3, fun _ => ?_, fun hn => absurd h2x hn⟩
          subst hb
          exact ⟨rfl, hlen, ⟨fun _ => ht, fun _ => rfl⟩, fun _ => hd⟩
        · cases h
        · cases h
        · cases h
      · rename_i ht
        injection h with e1 e2 e3 e4
        subst e1 e2 e3 e4
        refine ⟨Or.inl (by simpa using he), i, hf, hi, g1, g2, g2b, g4, g3, fun _ => ?_, fun hn => absurd h2x hn⟩
        subst hb
        exact ⟨rfl, hlen, ⟨fun hx => (by cases hx), fun hx => absurd hx ht⟩, fun hx => (by cases hx)⟩

theorem phase_tooBig (env : Env) (T : Bytes) (i : Nat) (st : Nat) (m : Bytes)
    (hf : findCRLF T = some i) (hi : i ≤ maxHeader) (hh : hdrOf env (T.take i) = .ok st m) (h2x : 20 ≤ st ∧ st < 30)
    (hbig : (T.drop (i + 2)).length > maxBody) : phaseOf env T = .closedErr "tooBig" := by
  unfold phaseOf; rw [hf]; simp only
  unfold phaseAt; rw [if_neg (by omega), hh]; simp only
  rw [if_pos h2x, if_pos hbig]

theorem phase_tooLong (env : Env) (T : Bytes)
    (h : (findCRLF T = none ∧ T.length > maxHeader + 1) ∨ ∃ i, findCRLF T = some i ∧ i > maxHeader) :
    phaseOf env T = .closedErr "headerTooLong" := by
  rcases h with ⟨hf, hl⟩ | ⟨i, hf, hi⟩
  · unfold phaseOf; rw [hf]; simp only; rw [if_pos hl]
  · unfold phaseOf; rw [hf]; simp only; unfold phaseAt; rw [if_pos hi]

/-- invariant along ANY event list: a response, once there, is well-formed -/
def GoodFut (f : Fut) : Prop := ∀ st m b d, f = .response st m b d → (10 ≤ st ∧ st < 70) ∧ (b ≠ none ↔ (20 ≤ st ∧ st < 30))

theorem goodFut_of_noResp (f : Fut) (h : NoResp f) : GoodFut f := by
  intro st m b d hf
  rcases h with h | ⟨k, h⟩ <;> rw [h] at hf <;> cases hf

theorem afterHeader_good (q : CSt) (hq : StatusInv q) (hn : NoResp q.fut) : GoodFut (afterHeader q).fut := by
  intro st m b d hf
  obtain ⟨h1, _, h3, _⟩ := afterHeader_respOk q hn st m b d hf
  rw [afterHeader_status] at h1
  rcases hn with hn | ⟨k, hn⟩
  · exact ⟨hq st h1 hn, h3⟩
  · rw [afterHeader_keep q (by simp [hn]), hn] at hf; cases hf

theorem onData_good (env : Env) (s : CSt) (c : Bytes) (hi : Inv s) (hp : s.fut = .pending) : GoodFut (onData env s c).fut := by
  have hn : NoResp s.fut := Or.inl hp
  unfold onData
  split
  · exact goodFut_of_noResp _ hn
  · split
    · exact goodFut_of_noResp _ (capCheck_noResp _ hn)
    · rename_i hnr
      have hsn : s.status = none := hi.2 (by simpa using hnr)
      split
      · split
        · exact goodFut_of_noResp _ (setError_noResp _ _ hn)
        · exact goodFut_of_noResp _ (capCheck_noResp _ hn)
      · split
        · exact goodFut_of_noResp _ (setError_noResp _ _ hn)
        · unfold onHeader
          split
          · refine afterHeader_good _ ?_ (parseHeader_noResp _ _ hn)
            exact parseHeader_inv { s with buf := s.buf ++ c } _ hsn
          · exact goodFut_of_noResp _ (setError_noResp _ _ hn)

theorem onLost_status (env : Env) (s : CSt) (e : Bool) : (onLost env s e).status = s.status := by
  unfold onLost
  split
  · rfl
  · simp only
    unfold resolve
    split
    · rfl
    · split
      · rfl
      · split
        · rfl
        · split
          · unfold deliver; split
            · split <;> rfl
            · rfl
          · rfl

theorem cstep_good (env : Env) (s : CSt) (ev : CEv) (hi : Inv s) (hg : GoodFut s.fut) : GoodFut (cstep env s ev).fut := by
  by_cases hp : s.fut = .pending
  · cases ev with
    | data c => exact onData_good env s c hi hp
    | lost e =>
      intro st m b d h
      obtain ⟨h1, _, h3, _⟩ := response_origin env s (.lost e) hp st m b d h
      simp only [cstep] at h1
      rw [onLost_status] at h1
      exact ⟨hi.1 st h1 hp, h3⟩
  · rw [fut_stable env s ev hp]; exact hg

theorem run_good (env : Env) (s : CSt) (evs : List CEv) (hi : Inv s) (hg : GoodFut s.fut) : GoodFut (crunFrom env s evs).fut := by
  unfold crunFrom
  induction evs generalizing s with
  | nil => exact hg
  | cons e es ih => exact ih _ (cstep_inv env s e hi) (cstep_good env s e hi hg)
end Cl
