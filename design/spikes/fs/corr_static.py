import os, random, subprocess, sys, tempfile, shutil, urllib.parse
import nauyaca.protocol
import structlog
structlog.configure(wrapper_class=structlog.make_filtering_bound_logger(50))
from nauyaca.protocol.request import GeminiRequest
from nauyaca.server.handler import StaticFileHandler
rnd=random.Random(int(sys.argv[1])); N=int(sys.argv[2])
NAMES=["a","b","sub","x y","ü","index.gmi","index.gemini","f.gmi","é%41"]
TOP=["root","root-evil","out"]
def gen_tree():
    ents=[("d","root"),("d","root-evil"),("d","out"),("f","out/secret",1),("f","root-evil/e",2)]
    dirs=["root","root-evil","out"]; fid=3
    for _ in range(rnd.randint(3,14)):
        parent=rnd.choice(dirs if rnd.random()<0.3 else [d for d in dirs if d.startswith("root") and not d.startswith("root-evil")])
        name=rnd.choice(NAMES); p=parent+"/"+name
        if any(e[1]==p for e in ents): continue
        k=rnd.random()
        if k<0.3: ents.append(("d",p)); dirs.append(p)
        elif k<0.65: ents.append(("f",p,fid)); fid+=1
        else:
            tk=rnd.random()
            if tk<0.25: tgt=rnd.choice(NAMES)
            elif tk<0.4: tgt="../"+rnd.choice(NAMES+(TOP if parent.count("/")==0 else []))
            elif tk<0.7: tgt="/"+rnd.choice(dirs+[e[1] for e in ents])
            elif tk<0.8: tgt=name
            elif tk<0.9: tgt="../../out/secret" if parent.count("/")==1 else "../out/secret"
            else: tgt="nonexistent"
            ents.append(("l",p,tgt))
    return ents
def spellings(ents):
    inside=[e[1][len("root"):] or "/" for e in ents if e[1].startswith("root/") or e[1]=="root"]
    out=[]
    for _ in range(10):
        base=rnd.choice(inside+["/","/zz"])
        k=rnd.random()
        if k<0.25: s=base
        elif k<0.4: s=base+"/"
        elif k<0.5: s=urllib.parse.quote(base)
        elif k<0.6: s=base.replace("/","//")
        elif k<0.7: s="/./"+base.lstrip("/")+"/../"+base.split("/")[-1]
        elif k<0.8: s="/../root-evil/e" if rnd.random()<0.5 else "/../out/secret"
        elif k<0.85: s="/%2e%2e/out/secret"
        elif k<0.9: s=base+"/index.gmi"
        elif k<0.95: s="/"+"/".join(rnd.choice(NAMES+["..","."]) for _ in range(rnd.randint(1,4)))
        else: s=base+"%ff"
        out.append(s)
    return out
def main():
    base=tempfile.mkdtemp(prefix="st"); lines=[]; exp=[]
    try:
        for i in range(N):
            tb=os.path.join(base,"t%d"%i); os.mkdir(tb)
            ents=gen_tree(); spec=[]; metas=[]
            for e in ents:
                full=os.path.join(tb,e[1]); par=os.path.dirname(full)
                if not os.path.isdir(par) or os.path.islink(par) or os.path.lexists(full): continue
                if e[0]=="d": os.mkdir(full); spec.append(f"d:{e[1]}")
                elif e[0]=="f":
                    u=rnd.random()<0.85; big=rnd.random()<0.1
                    data=(b"S%d "%e[2])+(b"x"*2000 if big else b"")+(b"" if u else b"\xff\xfe")
                    open(full,"wb").write(data); spec.append(f"f:{e[1]}:{e[2]}"); metas.append(f"{e[2]}:{int(u)}:{int(big)}")
                else:
                    tgt=e[2]; os.symlink((tb+tgt) if tgt.startswith("/") else tgt, full); spec.append(f"l:{e[1]}:{tgt}")
            for listing in (0,1):
                h=StaticFileHandler(os.path.join(tb,"root"), enable_directory_listing=bool(listing), max_file_size=1000)
                for sp in spellings(ents):
                    try: req=GeminiRequest.from_line("gemini://h"+sp)
                    except ValueError: continue
                    try:
                        r=h.handle(req)
                        if r.status==20 and r.body.startswith("S"): e_="20 file"+r.body[1:].split(" ")[0]
                        elif r.status==20:
                            names=[]
                            for ln in r.body.split("\n"):
                                if ln.startswith("=> ") and not ln.endswith(" .."):
                                    rest=ln[3:]
                                    # link is base_path + name (+ "/"); the display name follows the first " " after the link;
                                    # names may contain spaces, so recover the name from the link: strip base path
                                    bp=req.path if req.path.endswith("/") else req.path+"/"
                                    # display part: "<name>/" or "<name> (<size>)"
                                    disp=rest[len(bp):]
                                    # disp = name[/] + " " + name[/ | " (size)"]; take first half by structure
                                    if disp.endswith(")"):
                                        disp=disp[:disp.rindex(" (")]
                                        name=disp[:(len(disp)-1)//2]
                                    else:
                                        name=disp[:(len(disp)-1)//2].rstrip("/")
                                    names.append(name)
                            e_="20 listing "+",".join(sorted(names))
                        else: e_=str(r.status)
                    except Exception as ex: e_="EXC "+type(ex).__name__
                    lines.append("static\t"+";".join(spec)+"\t"+";".join(metas)+"\t"+str(listing)+"\t"+req.path); exp.append(e_)
        out=subprocess.run(["/tmp/spike6/Fs/.lake/build/bin/drv"],input="\n".join(lines)+"\n",capture_output=True,text=True).stdout.splitlines()
        bad=0; dist={}
        for l,e_,o in zip(lines,exp,out):
            dist[e_.split(" ")[0]+(" "+e_.split(" ")[1][:4] if " " in e_ else "")]=dist.get(e_.split(" ")[0]+(" "+e_.split(" ")[1][:4] if " " in e_ else ""),0)+1
            if "ok "+e_!=o:
                bad+=1
                if bad<8: print("DIFF",l.replace("\t"," | ")[:400],"\n impl :",e_,"\n model:",o)
        print("cases",len(lines),"diffs",bad,dist)
    finally: shutil.rmtree(base)
main()
