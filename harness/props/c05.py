"""C05  Certificate rules are applied to the resource that is actually served

Correspondence: generated capsules (symlink-free document trees) x rule lists (as objects, or
through a TOML file + `ServerConfig.from_toml` + `get_certificate_auth_config`) x spellings of
every file and directory x {no certificate, three certificates}, through the real
`CertificateAuth.process_request` + `StaticFileHandler.handle` (fast path), through the real
`GeminiServerProtocol` + `MiddlewareChain` on a fake transport presenting the DER certificate, and
(a sample) end to end over the real PyOpenSSL pump with real RSA / EC / Ed25519 client
certificates — against `Mw.Cert.enforced` + `Fs.handle` in Lean; plus the middleware alone
against `Mw.Cert.process`.  Direct oracle: the reference policy of the property statement,
evaluated on the canonical location of whatever content appears in a response.
"""
from __future__ import annotations

import asyncio
import json
import os
import random

from .. import core
from ..core import Family
from ..sim import fs_pump as P
from ..sim import fs_tree as T

ID = "C05"
READY = True
LEAN_TARGETS = ["NauyacaVerif.Props.C05", "NauyacaVerif.Props.Tr.CanonicalPath", "NauyacaVerif.Props.Tr.CertProcess"]
THEOREMS = [f"NauyacaVerif.C05.{t}" for t in (
    "c05_core", "c05_refuses", "same_canonical_path", "c05_static", "c05_static_listing", "c05_statement_fails",
    "decision_table", "lines_tie", "policy_first_match", "toml_rules_faithful", "toml_absent")]
THEOREMS = list(THEOREMS) + ['NauyacaVerif.Translated.canonicalPath_eq', 'NauyacaVerif.Translated.findRule_eq', 'NauyacaVerif.Translated.certProcess_eq']
TRANSLATED = ['canonicalPath', 'findRule', 'certProcess']
EXTRACT = ["mwResponses"]
ASSUMPTIONS = [
    "the theorems cover rule prefixes ending in '/' (c05_core, c05_static); for arbitrary prefixes the statement is kept as c05_statement and is refuted by a concrete capsule (c05_statement_fails): known finding 'prefix-inside-name'",
    "capsules are symlink-free (resolve is the identity in c05_static): with symlinks the canonical location of a resource is not a function of the request path and no path rule can follow it",
    "fingerprints are opaque values compared for equality; that the value the middleware receives is SHA-256 of the DER certificate presented in the TLS handshake is shown by the end-to-end sample only (PyOpenSSL pump over memory BIOs, RSA/EC/Ed25519 certificates)",
    "tomllib and the TOML -> dict step are trusted; the model starts at the list of path tables",
]
LEVEL_TEXT = (
    "partial: proved over the Lean models for every rule list whose prefixes end in '/', every spelling of the request path, every "
    "certificate and every symlink-free capsule — if the middleware passes a request and the static handler answers with a file or a "
    "listing, the first rule covering that resource's canonical location admits the certificate, otherwise the decision is 60 (no "
    "certificate) or 61 (c05_core, c05_refuses, c05_static, c05_static_listing, decision_table); handler and middleware read the same "
    "canonical path (same_canonical_path); the TOML layer produces one rule per table with the written prefix, require flag and list, an "
    "empty list staying a list that admits nobody (toml_rules_faithful, toml_absent); the refusal lines are the extracted ones "
    "(lines_tie).  NOT proved and false for the current code: arbitrary prefixes (c05_statement_fails; a prefix ending inside the name of "
    "an index file is side-stepped by the directory request — known finding).  Only differentially tested: CertificateAuth / "
    "StaticFileHandler / ServerConfig against these models, the URL glue, the fingerprint of the certificate presented over TLS.")
LEVEL_NOTE = "proved for rule prefixes ending in '/' on symlink-free capsules; arbitrary prefixes refuted (known finding prefix-inside-name); real code tied by correspondence"
TECHNIQUE = "Lean 4 proofs over executable models of CertificateAuth, its configuration layer, canonical_path and the static handler + differential testing of the real components (in-process, via the server protocol, and end to end over the PyOpenSSL pump with real client certificates) with a reference-policy oracle"

INDICES = ["index.gmi", "index.gemini"]
# certificates 1..3 (RSA, EC, Ed25519) and 4..6, their look-alikes (same names and serial number, other key);
# allow-lists mostly name the originals
LISTED = [1, 2, 3, 1, 2, 3, 1, 2, 3, 4, 5]
PRESENTED = [None, None, None, 1, 2, 3, 1, 2, 3, 4, 5, 6]
DIRMARK = "zzdir"
SEG = ["app", "app2", "ap", "public", "pub", "admin", "docs", "s", "x y", "é", "index.gmi", "index.gemini", "secret.gmi", "a.txt", "index", "app.gmi",
       "e\u0301", "\u00e9x", "\u2126",      # (not in normalisation form C: locations and prefixes are compared code point by code point)
       "p;q", "old;v=1"]                     # (';' is an ordinary character of a Gemini path: such a directory is a place like any other)


# ----------------------------------------------------------------------------------------------
# generators
# ----------------------------------------------------------------------------------------------
def gen_capsule(rnd: random.Random):
    ents = [["d", "root"]]
    dirs = ["root"]
    fid = [1]

    def add_file(p):
        if not any(e[1] == p for e in ents):
            ents.append(["f", p, fid[0], True, 0])
            fid[0] += 1

    def add_dir(p):
        if not any(e[1] == p for e in ents):
            ents.append(["d", p])
            dirs.append(p)

    if rnd.random() < 0.85:
        add_dir("root/app")
        if rnd.random() < 0.7:
            add_file("root/app/index.gmi")
        add_file("root/app/secret.gmi")
        if rnd.random() < 0.7:
            add_dir("root/app/public")
            if rnd.random() < 0.6:
                add_file("root/app/public/index.gmi")
            add_file("root/app/public/p.gmi")
    if rnd.random() < 0.5:
        add_file("root/index.gmi")
    for _ in range(rnd.randint(1, 8)):
        parent = rnd.choice(dirs)
        if parent.count("/") >= 3:
            continue
        name = rnd.choice(SEG)
        p = parent + "/" + name
        if any(e[1] == p for e in ents):
            continue
        if rnd.random() < 0.4 and "." not in name:
            add_dir(p)
        else:
            add_file(p)
    for k, d in enumerate(list(dirs)):
        add_file(d + "/" + DIRMARK + str(k))       # identifies the directory in a listing
    return T.normalise(ents)


def loc_of(rel: str) -> str:
    """canonical URL location of an entry below the root ('root' itself -> '/')"""
    return "/" + rel[len("root/"):] if rel != "root" else "/"


def gen_rules(rnd: random.Random, ents):
    if rnd.random() < 0.04:
        return None
    dlocs = [loc_of(e[1]).rstrip("/") + "/" for e in ents if e[0] == "d"]
    flocs = [loc_of(e[1]) for e in ents if e[0] == "f" and DIRMARK not in e[1]] or [loc_of(e[1]) for e in ents if e[0] == "f"]
    rules = []
    scen = rnd.random()
    if scen < 0.10 and flocs:
        # "<file>/" made public in front of a protected parent: only a directory may profit from it
        f = rnd.choice(flocs)
        rules.append([f + "/", rnd.choice([False, None]), None])
        rules.append([f.rsplit("/", 1)[0] + "/", True, rnd.choice([None, [1], []])])
    elif scen < 0.20 and len(dlocs) > 1:
        # public area nested in a protected one, in both orders
        inner = rnd.choice([d for d in dlocs if d != "/"])
        outer = inner.rstrip("/").rsplit("/", 1)[0] + "/"
        pair = [[inner, False, None], [outer, True, rnd.choice([None, [2], [1, 3], [1, 5]])]]
        rules += pair if rnd.random() < 0.7 else pair[::-1]
    for _ in range(rnd.choice([0, 1, 1, 2, 2, 2, 3, 3, 4]) if len(rules) < 2 or rnd.random() < 0.3 else 0):
        k = rnd.random()
        if k < 0.55:
            pre = rnd.choice(dlocs)
        elif k < 0.63:
            pre = rnd.choice(dlocs).rstrip("/") or "/"               # directory without its slash
        elif k < 0.73:
            pre = rnd.choice(flocs)                                  # a file's own location
        elif k < 0.80:
            x = rnd.choice(flocs + dlocs)
            pre = x[:rnd.randint(0, len(x))]                         # ends anywhere, also inside a name
        elif k < 0.86:
            pre = rnd.choice(flocs) + "/"                            # "<file>/"
        elif k < 0.92:
            x = rnd.choice(flocs)
            pre = x.rsplit("/", 1)[0] + "/" + x.rsplit("/", 1)[1][:rnd.randint(1, 5)]   # inside the file name
        elif k < 0.96:
            pre = rnd.choice(["/", "", "/zz/", "/app", "/app/", "/APP/", "/app/public", "//app/", "/app/./"])
        else:
            pre = rnd.choice(dlocs) + rnd.choice(SEG) + "/"
        c = rnd.random()
        if c < 0.22:
            req, fps = False, None                                   # public area
        elif c < 0.45:
            req, fps = True, None
        elif c < 0.62:
            req, fps = True, sorted(set(rnd.sample(LISTED, rnd.randint(1, 2))))
        elif c < 0.75:
            req, fps = False, sorted(set(rnd.sample(LISTED, rnd.randint(1, 2))))
        elif c < 0.86:
            req, fps = rnd.choice([True, False]), []                 # empty allow-list: nobody
        else:
            req, fps = None, rnd.choice([None, [], [rnd.choice(LISTED)]])   # require_cert not written
        rules.append([pre, req, fps])
    return rules


def spell(rnd: random.Random, loc: str, is_dir: bool, rules) -> str:
    """one spelling of the canonical location `loc` (a directory location ends in '/'), or - a sixth of the time - a
    look-alike of one: the spelling escaped ONCE MORE (its own escapes are escaped; after the one percent-decoding a
    request path gets it denotes a name that contains a '%', not `loc`), or a spelling with path parameters (';…') in
    segments that lie BEFORE the part that decides the rule (for Gemini ';' is an ordinary character of a name: such a
    segment followed by '..' is cancelled as a whole)"""
    s = _spell1(rnd, loc, is_dir, rules)
    k = rnd.random()
    if k < 0.08:
        s = escape_again(rnd, s)
    elif k < 0.17:
        s = with_params(rnd, s, rules)
    elif k < 0.21:
        s = with_delims(rnd, s, rules)
    # the path of a request ends at the FIRST '?': whatever follows (further '?', '/', dot segments, names of public
    # areas, escapes of all of these) is the query and says nothing about which resource is meant
    if "?" not in s and "#" not in s and rnd.random() < 0.14:
        s += "?" + query_text(rnd, s, rules)
    return s


QLEAD = ["", "", "", "q=", "next=", "x=1&next=", "é=", "redirect=", "q=what?&p=", "a;b="]
QUPS = ["..", "..", "..", "..", "%2e%2e", ".%2E", "%2E%2e"]
QEND = ["?", "?", "?", "?x", "?q=1", "??", "", "", "%3f", "%3F", "&y=?", "?/", "?;p=1", "?.", "/?", "/.?"]
QPLAIN = ["q=1", "what?", "a?b?c", "?", "??", "???x", "a/b", "/", "//", "/?", "?/", "%3f", "%3F%2F..", "q=%2e%2e", "é", "a;b=c", ";", ":@!$&'()*+,=",
          "/..", "/../", "/../..", "/../../", "..", "?/../..", "/../..?", "/../../?", "?/../../?", "%2f..%2f..%3f", "/%2e%2e/%2e%2e/?"]


def query_text(rnd: random.Random, path: str, rules) -> str:
    """the text of a query (without its leading '?') for a request whose path is spelled `path`: free text, or a walk
    `<text>/../../<somewhere else>` as deep as the path (or deeper, or less deep) that ends at a place with other rules - the
    root, a rule's prefix, a public-looking directory, the parent directories of the resource - followed or not by another
    '?'; literally or with '/', '.', '?' escaped"""
    if rnd.random() < 0.2:
        return rnd.choice(QPLAIN)
    own = [p for p in _cut(path)[0].split("/") if p]
    depth = len(own)
    targets = ["/", "/", "", "/pub/", "/public/", "/zz/", "/index.gmi", "/app/public/"]
    targets += [r[0] if r[0].startswith("/") else "/" + r[0] for r in (rules or [])][:6]
    targets += ["/" + "/".join(own[:i]) + "/" for i in range(1, depth) if "%" not in "".join(own[:i]) and ".." not in own[:i]]
    n = rnd.choice([depth, depth, depth, depth + 1, depth + 2, max(0, depth - 1), 1, 2, rnd.randint(0, 5)])
    q = rnd.choice(QLEAD) + "".join("/" + rnd.choice(QUPS) for _ in range(n)) + rnd.choice(targets)
    k = rnd.random()
    if k < 0.12:
        q = q.replace("/", rnd.choice(["%2f", "%2F"]))
    elif k < 0.18:
        q = q.replace("..", rnd.choice(["%2e%2e", ".%2e"]))
    elif k < 0.22:
        q = q.replace("/", "//")
    return q + rnd.choice(QEND)


DELIMS = ["%3f", "%3F", "%3f", "%23", "%3b", "%3B", "%3f%3f", "%26", "%3d"]
DTEXT = ["", "", "q=1", "x", "next=", "..", ".", "%3f", "v=2;x", "q%3dwhat%3f"]


def with_delims(rnd: random.Random, s: str, rules) -> str:
    """ESCAPED delimiters ('%3f' is a question mark that belongs to a NAME, not the start of the query; likewise '%23',
    '%3b', …) in segments in front of the ones that name the resource: `<name>%3f<text>/..` is one segment and its
    cancellation, at any depth; or on the resource's own last segment (which then denotes another name)"""
    path, rest = _cut(s)
    parts = path.split("/")[1:]
    names = ["pub", "public", "app", "zz", "", "index.gmi"] + [p for r in (rules or []) for p in r[0].split("/") if p][:6] + [p for p in parts if p not in ("", ".", "..")]
    up = rnd.choice(["..", "..", "..", "%2e%2e", ".%2E"])
    seg = rnd.choice(names) + rnd.choice(DELIMS) + rnd.choice(DTEXT)
    k = rnd.random()
    if k < 0.65:
        i = rnd.randint(0, max(0, len(parts) - 1))
        parts = parts[:i] + [seg, up] + parts[i:]
    elif k < 0.85:
        i = rnd.randint(0, max(0, len(parts) - 1))
        parts = parts[:i] + [seg, rnd.choice(names), up, up] + parts[i:]
    else:
        parts[-1] += rnd.choice(DELIMS) + rnd.choice(DTEXT)
    return "/" + "/".join(parts) + rest


def _cut(s: str):
    """(path, rest) of a spelling: the query / fragment stays as it is"""
    i = min([j for j in (s.find("?"), s.find("#")) if j >= 0] or [len(s)])
    return s[:i], s[i:]


def escape_again(rnd: random.Random, s: str) -> str:
    """escape the escapes of a spelling (all of them, or some; the '%' itself and/or the two hex digits)"""
    path, rest = _cut(s)
    if "%" not in path:
        k = rnd.random()
        if k < 0.35:
            path = T._enc_some(rnd, path)
        elif k < 0.55:
            path = "/".join(rnd.choice(["%2e%2e", "%2E%2e", ".%2e"]) if p == ".." else p for p in path.split("/"))
        elif k < 0.70:
            path = "/" + path[1:].replace("/", rnd.choice(["%2f", "%2F"]))
        if "%" not in path:
            # at least one character of one name (the first one of a segment, most of the time)
            cand = [i for i, c in enumerate(path) if c != "/" and (path[i - 1] == "/" or rnd.random() < 0.15)] or [i for i, c in enumerate(path) if c != "/"]
            if cand:
                i = rnd.choice(cand)
                path = path[:i] + "".join("%%%02x" % b for b in path[i].encode("utf-8", "surrogatepass")) + path[i + 1:]
    out, i, thorough = [], 0, rnd.random() < 0.6
    while i < len(path):
        c = path[i]
        if c == "%" and (thorough or rnd.random() < 0.6):
            k = rnd.random()
            if k < 0.7 or i + 2 >= len(path):
                out.append("%25")                                    # %73 -> %2573
            elif k < 0.85:
                out.append("%" + "".join("%%%02x" % ord(d) for d in path[i + 1:i + 3]))      # %73 -> %%37%33
                i += 2
            else:
                out.append("%25" + "".join("%%%02X" % ord(d) for d in path[i + 1:i + 3]))    # %73 -> %25%37%33
                i += 2
        else:
            out.append(c)
        i += 1
    if "".join(out) == path:
        out = [path.replace("%", "%25", 1)]
    return "".join(out) + rest


PARAMS = ["", "v=2", "x", "size=3;mime=text/plain", "token=t", ";", "p=1;q=/"]


def with_params(rnd: random.Random, s: str, rules) -> str:
    """path parameters in the spelling, in front of the segments that name the resource"""
    path, rest = _cut(s)
    parts = path.split("/")[1:]                                      # (may hold '', '.', '..' and escapes)
    names = ["pub", "public", "app", "zz", "", "index.gmi"] + [p for r in (rules or []) for p in r[0].split("/") if p][:6] + [p for p in parts if p not in ("", ".", "..")]
    up = rnd.choice(["..", "..", "..", "%2e%2e", ".%2E"])
    k = rnd.random()
    if k < 0.55:                                                     # <name>;<params>/.. at any depth
        i = rnd.randint(0, max(0, len(parts) - 1))
        parts = parts[:i] + [rnd.choice(names) + ";" + rnd.choice(PARAMS), up] + parts[i:]
    elif k < 0.70:                                                   # the same, two levels deep
        i = rnd.randint(0, max(0, len(parts) - 1))
        parts = parts[:i] + [rnd.choice(names) + ";" + rnd.choice(PARAMS), rnd.choice(names), up, up] + parts[i:]
    elif k < 0.85 and len(parts) > 1:                                # on a segment of the resource's own path that is not the last
        i = rnd.randrange(len(parts) - 1)
        parts[i] += ";" + rnd.choice(PARAMS)
    else:                                                            # on the last one
        parts[-1] += ";" + rnd.choice(PARAMS)
    return "/" + "/".join(parts) + rest


def _spell1(rnd: random.Random, loc: str, is_dir: bool, rules) -> str:
    base = loc
    parts = [p for p in base.split("/") if p]
    k = rnd.random()
    trail = "/" if base.endswith("/") and parts else ""
    if k < 0.12:
        s = base
    elif k < 0.20:
        s = base.rstrip("/") or "/"                                  # directory without trailing slash
    elif k < 0.26:
        s = base.rstrip("/") + "/"                                   # trailing slash (also on files)
    elif k < 0.34:
        s = base.replace("/", "/" * rnd.randint(2, 3))
    elif k < 0.42:
        i = rnd.randint(0, len(parts))
        s = "/" + "/".join(parts[:i] + ["."] + parts[i:]) + trail
    elif k < 0.54:                                                   # x/.. at any depth, x possibly a public area
        i = rnd.randint(0, len(parts))
        x = rnd.choice(["zz", "public", "pub", "app", "index.gmi"] + [p for r in (rules or []) for p in r[0].split("/") if p][:6])
        s = "/" + "/".join(parts[:i] + [x, rnd.choice(["..", "%2e%2e", "%2E.", ".%2e"])] + parts[i:]) + trail
    elif k < 0.62 and rules:                                         # through a rule's prefix and out again
        pre = rnd.choice(rules)[0]
        ups = "../" * max(1, len([p for p in pre.split("/") if p]))
        s = (pre if pre.endswith("/") else pre + "/") + ups + base.lstrip("/")
        if not s.startswith("/"):
            s = "/" + s
    elif k < 0.70:
        s = T._enc_some(rnd, base)
    elif k < 0.75:
        s = base.replace("/", "%2f") if rnd.random() < 0.5 else "/" + base[1:].replace("/", "%2F")
    elif k < 0.82:
        s = base + rnd.choice(["?", "?q=1", "?/../x", ";p=1", "#"])
    elif k < 0.86:
        s = "/.." * rnd.randint(1, 3) + base
    elif k < 0.90:
        s = base + rnd.choice([".", "/.", "/..", "/x/..", "/./", "//"])
    elif k < 0.94:
        s = base.rstrip("/") + "/" + rnd.choice(INDICES) if is_dir else base + "/" + rnd.choice(INDICES + [".."])
    elif k < 0.97:
        s = base.upper() if rnd.random() < 0.5 else base.replace("/", "\\")
    else:
        s = "/" + "/".join(rnd.choice(SEG + ["..", "."]) for _ in range(rnd.randint(1, 4)))
    return s if s.startswith("/") else "/" + s


def gen_requests(rnd: random.Random, ents, rules, n: int, pumped: int, proto: int):
    res = [(loc_of(e[1]).rstrip("/") + "/" if e[0] == "d" else loc_of(e[1]), e[0] == "d") for e in ents]
    res = [(("/" if l == "//" else l), d) for l, d in res]
    reqs = []
    for i in range(n):
        loc, is_dir = res[i % len(res)] if i < 2 * len(res) else rnd.choice(res)
        sp = spell(rnd, loc, is_dir, rules) if i >= len(res) else (loc if rnd.random() < 0.5 else spell(rnd, loc, is_dir, rules))
        cid = rnd.choice(PRESENTED)
        reqs.append([sp, cid, "f"])
    # every "<x>/" rule prefix is also requested as it stands and without its slash
    for r in rules or []:
        if r[0].startswith("/") and T.url_path(r[0])[0] == "ok":
            for sp in (r[0], r[0].rstrip("/") or "/"):
                reqs[rnd.randrange(n)] = [sp, rnd.choice([None, None, 1, 2, 4]), "f"]
    for j in rnd.sample(range(n), min(n, proto + pumped)):
        reqs[j][2] = "e" if pumped > 0 else "p"
        pumped -= 1
    # connections are not independent of each other inside one server process: whenever a certificate is
    # presented to the real protocol, the certificate that shares its names and serial number (but not its
    # key) is presented too, on the connection before or after it
    out = []
    for sp, cid, mode in reqs:
        if mode != "f" and cid is not None:
            pair = [[sp, P.partner(cid), mode], [sp, cid, mode]]
            out += pair if rnd.random() < 0.5 else pair[::-1]
        else:
            out.append([sp, cid, mode])
    return out


# ----------------------------------------------------------------------------------------------
# running the real components
# ----------------------------------------------------------------------------------------------
class _Transport:
    def __init__(self, der):
        self.out = b""
        self.closed = False
        self._der = der

    def write(self, b):
        if not self.closed:
            self.out += bytes(b)

    def close(self):
        self.closed = True

    def is_closing(self):
        return self.closed

    def get_extra_info(self, name, default=None):
        if name == "peername":
            return ("192.0.2.1", 4711)
        if name == "ssl_object":
            der = self._der

            class _S:
                def getpeercert(self, binary_form=False):
                    return der if binary_form else ({} if der else None)

            return _S()
        return default


def toml_text(root: str, rules, server_extra=()) -> str:
    out = ["[server]", f"document_root = {json.dumps(root)}", *server_extra, ""]
    if rules is not None:
        if not rules:
            out += ["[certificate_auth]", "paths = []"]
        for pre, req, fps in rules:
            out.append("[[certificate_auth.paths]]")
            out.append(f"prefix = {json.dumps(pre)}")
            if req is not None:
                out.append(f"require_cert = {'true' if req else 'false'}")
            if fps is not None:
                out.append("allowed_fingerprints = [" + ", ".join(json.dumps(P.fingerprint(i)) for i in fps) + "]")
            out.append("")
    return "\n".join(out) + "\n"


def build_auth(case, built: T.Built):
    """-> (CertificateAuthConfig | None, canonical form of the rules the real code ended up with)"""
    from nauyaca.server.middleware import CertificateAuthConfig, CertificateAuthPathRule

    rules = case["rules"]
    if case["via"] == "toml":
        from pathlib import Path

        from nauyaca.server.config import ServerConfig

        f = os.path.join(built.base, "config.toml")
        with open(f, "w", encoding="utf-8") as fh:
            fh.write(toml_text(built.root, rules))
        cfg = ServerConfig.from_toml(Path(f)).get_certificate_auth_config()
    elif rules is None:
        cfg = None
    else:
        cfg = CertificateAuthConfig(path_rules=[
            CertificateAuthPathRule(prefix=pre, require_cert=bool(req), allowed_fingerprints=(None if fps is None else {P.fingerprint(i) for i in fps}))
            for pre, req, fps in rules])
    back = {P.fingerprint(i): i for i in P.CERT_IDS}
    seen = None if cfg is None else [[r.prefix, bool(r.require_cert),
                                      None if r.allowed_fingerprints is None else sorted(back.get(x, x) for x in r.allowed_fingerprints)]
                                     for r in cfg.path_rules]
    return cfg, seen


def run_capsule(case):
    from nauyaca.protocol.request import GeminiRequest
    from nauyaca.server.handler import StaticFileHandler
    from nauyaca.server.middleware import CertificateAuth, MiddlewareChain
    from nauyaca.server.protocol import GeminiServerProtocol

    with T.Built(case["tree"]) as built:
        handler = StaticFileHandler(built.root, enable_directory_listing=bool(case["listing"]))
        cfg, seen = build_auth(case, built)
        mw = CertificateAuth(cfg) if cfg is not None else None
        chain = MiddlewareChain([mw]) if mw is not None else None

        async def go():
            res = []
            for sp, cid, mode in case["reqs"]:
                o = {}
                url = "gemini://h" + sp
                try:
                    req = GeminiRequest.from_line(url)
                except ValueError:
                    req = None
                # what the handler alone would deliver for this request (the resource the request denotes)
                if req is not None:
                    try:
                        b = handler.handle(req)
                        o["base"], o["bx"] = T.canon_response(b.status, b.meta, b.body, req.path, built)
                    except Exception:  # noqa: BLE001
                        o["base"], o["bx"] = ["raised"], {"st": 40, "sent": [], "names": None}
                if mode == "f":
                    if req is None:
                        o["r"], o["x"] = ["reject"], {"st": 59, "sent": [], "metasent": [], "mark": False, "nobody": True}
                    else:
                        o["path"] = req.path
                        ok, line = (True, None) if mw is None else await mw.process_request(req.normalized_url, "192.0.2.1", P.fingerprint(cid) if cid else None)
                        if not ok:
                            st, meta, body = T.parse_wire(line.encode("utf-8"))
                            o["r"], o["x"] = T.canon_response(st, meta, body, req.path, built)
                        else:
                            try:
                                r = handler.handle(req)
                                o["r"], o["x"] = T.canon_response(r.status, r.meta, r.body, req.path, built)
                            except Exception as e:  # noqa: BLE001
                                o["r"], o["x"] = ["raised"], {"st": 40, "sent": [], "metasent": [], "mark": False, "nobody": True, "exc": type(e).__name__}
                else:
                    line = url.encode("utf-8") + b"\r\n"
                    if mode == "p":
                        tr = _Transport(P.der(cid) if cid else None)
                        p = GeminiServerProtocol(handler.handle, chain)
                        p.connection_made(tr)
                        p.data_received(line)
                        for _ in range(6):
                            await asyncio.sleep(0)
                        out = tr.out
                        p.connection_lost(None)
                    else:
                        out, _closed = await P.request(lambda: GeminiServerProtocol(handler.handle, chain), line, cid, tls13=(len(res) % 2 == 0))
                    st, meta, body = T.parse_wire(out)
                    o["r"], o["x"] = T.canon_response(st, meta, body, req.path if req is not None else "/", built)
                res.append(o)
            return res

        loop = asyncio.new_event_loop()
        try:
            res = loop.run_until_complete(go())
        finally:
            loop.close()
        return {"res": res, "rules_seen": seen, "ents_ok": built.ents == [list(e) for e in case["tree"]]}


# ----------------------------------------------------------------------------------------------
# reference policy (the property statement, independent of the Lean model)
# ----------------------------------------------------------------------------------------------
def ref_policy(rules, loc: str, cid):
    """None = admitted, else the status the client must receive"""
    for pre, req, fps in rules or []:
        if loc.startswith(pre):
            admitted = (not req or cid is not None) and (fps is None or cid in fps)
            if admitted:
                return None
            return 60 if cid is None else 61
    return None


def covering(rules, loc: str):
    for r in rules or []:
        if loc.startswith(r[0]):
            return r
    return None


def enc_rules(rules) -> str:
    if rules is None:
        return "none"
    if not rules:
        return "-"
    out = []
    for pre, req, fps in rules:
        f = "-" if fps is None else "e" if not fps else "+".join(str(i) for i in fps)
        out.append(f"{core.cps(pre)}:{'n' if req is None else int(bool(req))}:{f}")
    return ";".join(out)


class Capsule(Family):
    name = "capsule"
    quick_n = 2000
    thorough_n = 40000
    REQS = 110

    def gen(self, rng: random.Random, n: int):
        for i in range(n):
            tree = T.settle(gen_capsule(rng))
            rules = gen_rules(rng, tree)
            yield {"tree": tree, "rules": rules, "via": "toml" if rng.random() < 0.4 else "obj", "listing": int(rng.random() < 0.5),
                   "reqs": gen_requests(rng, tree, rules, self.REQS, pumped=2 if i % 2 == 0 else 0, proto=5)}

    def setup(self):
        from nauyaca.protocol.constants import DEFAULT_MAX_FILE_SIZE
        self.def_max = int(DEFAULT_MAX_FILE_SIZE)
        P.state()

    def impl(self, case):
        return run_capsule(case)

    def model(self, case):
        reqs = []
        for sp, cid, _mode in case["reqs"]:
            u = T.url_path(sp)
            reqs.append((T.enc_name(u[1]) if u[0] == "ok" else "!") + "@" + (str(cid) if cid else "-"))
        ents = case["tree"]
        return "\t".join(["capsule", T.enc_tree(ents), T.enc_metas(ents), str(case["listing"]), "/".join(T.enc_name(i) for i in INDICES),
                          str(self.def_max), enc_rules(case["rules"])] + reqs)

    def expect(self, case, out):
        assert out.startswith("ok "), out
        return [T.parse_static_out(o) for o in out[3:].split(" | ")]

    def same(self, expected, obs):
        if not obs["ents_ok"] or len(expected) != len(obs["res"]):
            return False
        for e, o in zip(expected, obs["res"]):
            want = e if "path" in o or o["r"] == ["reject"] else T.wire_of(e)
            if o["r"] != want:
                return False
        return True

    def oracle(self, case, obs):
        rules = case["rules"]
        seen = obs["rules_seen"]
        found = self._failures(case, obs)
        # a known finding must not hide a different failure in the same capsule
        for f in found:
            if f[0] != "prefix-inside-name":
                return f
        # what is written is what is enforced (also for the TOML route)
        want = None if (rules is None or (case["via"] == "toml" and not rules)) else [[p, bool(q), (None if f is None else sorted(f))] for p, q, f in rules]
        if seen != want:
            return ("config-unfaithful", f"rules configured via {case['via']}: written {want}, enforced {seen}")
        return found[0] if found else None

    def _failures(self, case, obs):
        rules = case["rules"]
        out = []
        files = {e[2]: e for e in case["tree"] if e[0] == "f"}
        marks = {e[1].rsplit("/", 1)[1]: e[1].rsplit("/", 1)[0] for e in case["tree"] if e[0] == "f" and DIRMARK in e[1]}
        for (sp, cid, mode), o in zip(case["reqs"], obs["res"]):
            x = o["x"]
            how = {"f": "CertificateAuth + StaticFileHandler", "p": "GeminiServerProtocol", "e": "TLS (PyOpenSSL pump)"}[mode]
            who = "no certificate" if cid is None else f"certificate {cid} ({P.state()['clients'][cid]['kind']})"
            u = T.url_path(sp)
            canon = T.ref_canonical(u[1]) if u[0] == "ok" else None
            # (a) every piece of content in the response must be admitted at its own location
            served = [(loc_of(files[i][1]), files[i]) for i in x.get("sent", []) if i in files]
            for name in (x.get("names") or []):
                if name in marks:
                    served.append((loc_of(marks[name]).rstrip("/") + "/", None))
            for loc, f in served:
                d = ref_policy(rules, loc, cid)
                if d is None:
                    continue
                r = covering(rules, loc)
                sig = "rule-bypassed"
                if f is not None and canon is not None:
                    name = loc.rsplit("/", 1)[1]
                    dirloc = loc[:len(loc) - len(name)]
                    passes = ref_policy(rules, canon, cid) is None and (canon.endswith("/") or ref_policy(rules, canon + "/", cid) is None)
                    if name in INDICES and canon in (dirloc, dirloc[:-1] or "/") and r[0].startswith(dirloc) and len(r[0]) > len(dirloc) and passes:
                        sig = "prefix-inside-name"
                    elif canon.endswith("/") and loc == canon[:-1]:
                        sig = "file-trailing-slash"
                out.append((sig, f"{how}: rules {rules} (via {case['via']}); request {sp!r} with {who} -> status {x['st']} delivering "
                        f"{'the listing of ' + loc if f is None else 'file ' + f[1]} whose canonical location {loc!r} is covered first by rule {r}, which requires {d}"))
                break
            # (b) a refusal carries no content and the right status
            if x["st"] in (60, 61):
                if not x["nobody"]:
                    out.append(("refusal-with-body", f"{how}: request {sp!r} with {who} -> {x['st']} with a body"))
                if (x["st"] == 60) != (cid is None):
                    out.append(("wrong-refusal-status", f"{how}: request {sp!r} with {who} -> {x['st']} (60 is for a missing certificate, 61 for an unauthorised one)"))
            # (c) the resource this request denotes (what the handler alone delivers) is refused with 60/61 when its rule says so
            bx = o.get("bx")
            if bx and bx["st"] == 20:
                blocs = [loc_of(files[i][1]) for i in bx.get("sent", []) if i in files] + \
                        [loc_of(marks[n]).rstrip("/") + "/" for n in (bx.get("names") or []) if n in marks]
                for loc in blocs:
                    d = ref_policy(rules, loc, cid)
                    if d is not None and x["st"] != d and x["st"] != 20:
                        out.append(("wrong-refusal-status", f"{how}: rules {rules}; request {sp!r} with {who} denotes {loc!r}, whose rule requires {d}, but the client received {x['st']}"))
        return out

    def key(self, case, obs):
        ks = set()
        for (sp, cid, mode), o in zip(case["reqs"], obs["res"]):
            r = o["r"]
            ks.add((mode if mode != "f" else "") + ":".join(str(t) for t in r[:2]))
        rules = case["rules"] or []
        feat = ""
        if any(a[0] != b[0] and a[0].startswith(b[0]) for a in rules for b in rules):
            feat += "N"                      # nested / overlapping prefixes
        if any(f == [] for _p, _q, f in rules):
            feat += "E"                      # empty allow-list
        if any(not p.endswith("/") for p, _q, _f in rules):
            feat += "S"                      # prefix not ending in a slash
        return case["via"] + ":" + (feat or "-") + " " + ",".join(sorted(ks))[:64]


# ----------------------------------------------------------------------------------------------
# the server as it is started and used: `nauyaca serve --config … [--require-client-cert]`, several TLS connections at once
# ----------------------------------------------------------------------------------------------
def gen_schedule(rnd: random.Random, k: int):
    """an order of events for k connections: ["h", i] = connection i completes its TLS handshake, ["r", i] = it sends its
    request line and reads the answer; a connection may wait (other handshakes and requests in between) before it asks"""
    steps, waiting, nxt = [], [], 0
    patience = rnd.choice([0.0, 0.3, 0.6, 0.8])       # 0: strictly one connection after the other
    while nxt < k or waiting:
        if nxt < k and (not waiting or rnd.random() < patience):
            steps.append(["h", nxt])
            waiting.append(nxt)
            nxt += 1
        else:
            i = waiting.pop(rnd.randrange(len(waiting)) if rnd.random() < 0.7 else 0)
            steps.append(["r", i])
    return steps


def run_served(case):
    from nauyaca.protocol.request import GeminiRequest
    from nauyaca.server.handler import StaticFileHandler

    from ..sim import fs_serve as SV

    P.state()
    with T.Built(case["tree"]) as built:
        ref = StaticFileHandler(built.root, enable_directory_listing=bool(case["listing"]))     # what each request denotes
        conns = case["conns"]

        async def probe(factory, tls=True):
            live, res = {}, [None] * len(conns)
            try:
                for what, i in case["steps"]:
                    cid, sp, t13 = conns[i]
                    if what == "h":
                        if tls:
                            live[i] = SV.TlsConn(factory, cid, tls13=bool(t13))
                            if not live[i].handshake():
                                res[i] = b"<no handshake>"
                        await SV.settle(2)
                        continue
                    line = ("gemini://h" + sp).encode("utf-8") + b"\r\n"
                    if not tls:
                        # the server listens with the standard-library TLS backend, which asks nobody for a certificate
                        res[i], _ = await SV.plain_request(factory, line)
                    elif res[i] is None:
                        live[i].send(line)
                        res[i] = await live[i].collect()
                        live[i].close()
            finally:
                for c in live.values():
                    c.close()
            return res

        info = {"started": True, "exit": 0, "said": "", "tls": True}
        if case["via"] == "cli":
            cfgdir = core.mkdtemp("nv-c05cfg-") if not hasattr(run_served, "_d") else run_served._d
            run_served._d = cfgdir
            cert, key = SV.server_cert_files()
            extra = [f"certfile = {json.dumps(cert)}", f"keyfile = {json.dumps(key)}"] + (["require_client_cert = true"] if case["ask"] else [])
            cfg = os.path.join(cfgdir, "server.toml")
            with open(cfg, "w", encoding="utf-8") as fh:
                fh.write(toml_text(built.root, case["rules"], extra) + "\n[rate_limit]\nenabled = false\n")
            argv = ["--config", cfg] + (["--enable-directory-listing"] if case["listing"] else []) + (["--require-client-cert"] if case["flag"] else [])
            holder = {}

            async def cli_probe(factory):
                holder["tls"] = type(factory()).__name__ == "TLSServerProtocol"
                return await probe(factory, holder["tls"])

            ran = SV.run_serve(argv, cli_probe)
            raw = ran["value"] or []
            info = {"started": ran["started"], "exit": ran["exit"], "said": " ".join((ran["output"] or "").replace(built.base, "<base>").split())[-200:] if not ran["started"] else "",
                    "tls": holder.get("tls", True)}
        else:
            from nauyaca.server.middleware import CertificateAuth, MiddlewareChain
            from nauyaca.server.protocol import GeminiServerProtocol
            from nauyaca.server.tls_protocol import TLSServerProtocol

            cfg_obj, _seen = build_auth(dict(case, via="obj"), built)
            chain = MiddlewareChain([CertificateAuth(cfg_obj)]) if cfg_obj is not None else None
            ctx = P.state()["server_ctx"]
            loop = asyncio.new_event_loop()
            try:
                raw = loop.run_until_complete(probe(lambda: TLSServerProtocol(lambda: GeminiServerProtocol(ref.handle, chain), ctx)))
            finally:
                loop.close()
        res = []
        for (cid, sp, _t13), out in zip(conns, raw):
            o = {}
            try:
                req = GeminiRequest.from_line("gemini://h" + sp)
            except ValueError:
                req = None
            if req is not None:
                try:
                    b = ref.handle(req)
                    o["base"], o["bx"] = T.canon_response(b.status, b.meta, b.body, req.path, built)
                except Exception:  # noqa: BLE001
                    o["base"], o["bx"] = ["raised"], {"st": 40, "sent": [], "names": None}
            st, meta, body = T.parse_wire(out or b"")
            o["r"], o["x"] = T.canon_response(st, meta, body, req.path if req is not None else "/", built)
            res.append(o)
        return dict(info, res=res, ents_ok=built.ents == [list(e) for e in case["tree"]])


class Served(Family):
    """The whole server as an operator runs it and as clients use it.  `nauyaca serve --config <toml>` - with and without
    the command-line flag --require-client-cert, with and without `[server] require_client_cert` - is really run (only
    `loop.create_server` is stubbed; configuration, the glue in `serve`, `start_server`, the middleware chain and the
    PyOpenSSL TLS backend are the real ones), or the same stack is put together from objects.  SEVERAL TLS connections
    are open at once: handshakes (with one of six client certificates or none) and request lines are interleaved, a
    connection may complete its handshake, wait while others come and go, and only then ask.  Every answer is judged by
    the reference policy of the property: the rules WRITTEN IN THE FILE, the canonical location of whatever content the
    answer carries, and the certificate THIS connection presented."""
    name = "served"
    quick_n = 320
    thorough_n = 9000

    def setup(self):
        from nauyaca.protocol.constants import DEFAULT_MAX_FILE_SIZE
        self.def_max = int(DEFAULT_MAX_FILE_SIZE)
        P.state()

    def gen(self, rng: random.Random, n: int):
        for i in range(n):
            tree = T.settle(gen_capsule(rng))
            rules = gen_rules(rng, tree)
            while rules is not None and not rules and rng.random() < 0.8:
                rules = gen_rules(rng, tree)
            files = [(loc_of(e[1]), False) for e in tree if e[0] == "f"] + [(loc_of(e[1]).rstrip("/") + "/", True) for e in tree if e[0] == "d"]
            guarded = [(l, d) for l, d in files if (covering(rules, l) or [0, None, None])[1] or (covering(rules, l) or [0, None, None])[2] is not None]
            k = rng.choice([1, 2, 2, 3, 3, 4, 5, 6])
            conns = []
            focus = rng.choice(guarded) if guarded and rng.random() < 0.75 else None     # several clients after the same protected resource
            for _ in range(k):
                loc, is_dir = focus if focus and rng.random() < 0.7 else rng.choice(guarded if guarded and rng.random() < 0.6 else files)
                sp = loc if rng.random() < 0.6 else spell(rng, loc, is_dir, rules)
                if T.url_path(sp)[0] != "ok":
                    sp = loc
                r = covering(rules, loc)
                if r is not None and r[2] and rng.random() < 0.5:
                    cid = rng.choice(r[2])                              # a listed certificate
                else:
                    cid = rng.choice(PRESENTED)
                conns.append([cid, sp, int(rng.random() < 0.5)])
            via = "cli" if rng.random() < 0.7 else "obj"
            yield {"tree": tree, "rules": rules, "via": via, "listing": int(rng.random() < 0.4),
                   "flag": int(via == "cli" and rng.random() < 0.45), "ask": int(via == "cli" and rng.random() < 0.5),
                   "conns": conns, "steps": gen_schedule(rng, k)}

    def impl(self, case):
        return run_served(case)

    def _as_capsule(self, case):
        return dict(case, reqs=[[sp, cid, "e"] for cid, sp, _t in case["conns"]])

    def model(self, case):
        if case["flag"] and not case["rules"]:
            return None          # the flag without rules in the file: no rule list to apply (nothing the property speaks about)
        return Capsule.model(self, self._as_capsule(case))

    def expect(self, case, out):
        return Capsule.expect(self, case, out)

    def same(self, expected, obs):
        if not obs["started"] or not obs["ents_ok"] or len(expected) != len(obs["res"]):
            return False
        return all(o["r"] == T.wire_of(e) for e, o in zip(expected, obs["res"]))

    def oracle(self, case, obs):
        if not obs["started"]:
            return None          # nothing was delivered to anybody
        found = Capsule._failures(self, self._as_capsule(case), obs)
        found = [f for f in found if f[0] != "prefix-inside-name"] or found
        if not found:
            return None
        sig, why = found[0]
        ctx = ("`nauyaca serve --config <toml>" + (" --require-client-cert" if case["flag"] else "") + "`" + (" ([server] require_client_cert = true)" if case["ask"] else "")
               if case["via"] == "cli" else "TLSServerProtocol + GeminiServerProtocol + CertificateAuth put together from objects")
        who = ", ".join(f"#{i}: {'no certificate' if c[0] is None else 'certificate %d' % c[0]} asks {c[1]!r}" for i, c in enumerate(case["conns"]))
        order = " ".join(f"{'handshake' if w == 'h' else 'request'}#{i}" for w, i in case["steps"])
        return (sig, f"{ctx}; connections {who}; order of events: {order} - {why}")

    def key(self, case, obs):
        if not obs["started"]:
            return f"{case['via']}:flag{case['flag']}:NOSTART"
        steps = case["steps"]
        # how many other handshakes complete between a connection's own handshake and its request
        between = 0
        for i in range(len(case["conns"])):
            a, b = steps.index(["h", i]), steps.index(["r", i])
            between = max(between, sum(1 for w, _j in steps[a + 1:b] if w == "h"))
        sts = sorted({o["r"][0] for o in obs["res"]})
        return f"{case['via']}:flag{case['flag']}:ask{case['ask']}:{'tls' if obs['tls'] else 'plain'}:between{min(between, 3)} " + ",".join(sts)

    def shrink(self, case, bad):
        """fewer connections, then without the command-line flag / the [server] switch"""
        cur = case
        try:
            for k in ("flag", "ask"):
                if cur.get(k) and bad(dict(cur, **{k: 0})):
                    cur = dict(cur, **{k: 0})
            again = True
            while again and len(cur["conns"]) > 1:
                again = False
                for j in range(len(cur["conns"])):
                    conns = cur["conns"][:j] + cur["conns"][j + 1:]
                    steps = [[w, i - (i > j)] for w, i in cur["steps"] if i != j]
                    c = dict(cur, conns=conns, steps=steps)
                    if bad(c):
                        cur, again = c, True
                        break
        except Exception:  # noqa: BLE001
            pass
        return cur


class MwOnly(Family):
    """`CertificateAuth.process_request` alone against `Mw.Cert.process` (many more rule lists and paths)"""
    name = "mw"
    quick_n = 30000
    thorough_n = 300000

    PRE = ["/", "", "/app/", "/app", "/app/public/", "/app/pub", "/a", "/app/index", "/app/secret.gmi", "/x y/", "/é/", "//", "/app//", "/APP/", "/app/./", "/app/secret.gmi/"]
    PATHS = ["/", "/app", "/app/", "/app/secret.gmi", "/app/public/", "/app/public/p.gmi", "/app/public/../secret.gmi", "//app/secret.gmi",
             "/./app/secret.gmi", "/app/%2e%2e/app/secret.gmi", "/app%2fsecret.gmi", "/%61pp/secret.gmi", "/app/public", "/app/secret.gmi/",
             "/APP/secret.gmi", "/app/index.gmi", "/x%20y/z", "/é/z", "/%C3%A9/z", "/app;x/secret.gmi", "/app/secret.gmi;x", "/..", "/../app/", "/app/..",
             "/app/../", "/app/./", "/app/.", "/app//", "/a", "/ap", "/app2/secret.gmi", "/app/publicx/p.gmi", "/app\\secret.gmi", "/app/%00", "/%2e%2e/app/"]

    def gen(self, rng, n):
        for _ in range(n):
            rules = []
            for _ in range(rng.randint(0, 4)):
                c = rng.random()
                fps = None if c < 0.45 else [] if c < 0.6 else sorted(rng.sample([1, 2, 3], rng.randint(1, 2)))
                rules.append([rng.choice(self.PRE), rng.random() < 0.5, fps])
            p = rng.choice(self.PATHS)
            if rng.random() < 0.3:
                p = spell(rng, p, p.endswith("/"), rules)
            k = rng.random()
            if k < 0.06:
                p += rng.choice(["?q", "?x=/../y"])
            elif k < 0.22:
                p += "?" + query_text(rng, p, rules)       # (after a '?' or '#' of the spelling itself, now and then)
            yield {"rules": rules, "path": p, "cid": rng.choice([None, None, 1, 2, 3]), "titan": rng.random() < 0.05}

    def impl(self, case):
        from nauyaca.protocol.request import GeminiRequest
        from nauyaca.server.middleware import CertificateAuth, CertificateAuthConfig, CertificateAuthPathRule

        mw = CertificateAuth(CertificateAuthConfig(path_rules=[
            CertificateAuthPathRule(prefix=pre, require_cert=req, allowed_fingerprints=(None if fps is None else {"fp%d" % i for i in fps}))
            for pre, req, fps in case["rules"]]))
        try:
            url = GeminiRequest.from_line("gemini://h" + case["path"]).normalized_url
        except ValueError:
            return "reject"
        if case["titan"]:
            # Titan URLs carry their parameters after the first ';' of the path
            url = "titan" + url[len("gemini"):].split("?")[0] + ";size=3;mime=text/plain"
        ok, line = asyncio.run(mw.process_request(url, "192.0.2.1", "fp%d" % case["cid"] if case["cid"] else None))
        return "allow" if ok else (line or "")[:2]

    def model(self, case):
        u = T.url_path(case["path"])
        if u[0] != "ok":
            return None
        path = u[1].split(";", 1)[0] or "/" if case["titan"] else u[1]
        rules = [[p, q, f] for p, q, f in case["rules"]]
        return " ".join(["cert", enc_rules(rules) if rules else "-", core.cps(path), str(case["cid"]) if case["cid"] else "-", "-"])

    def expect(self, case, out):
        assert out.startswith("ok "), out
        return out.split(" ")[2]

    def oracle(self, case, obs):
        if obs in ("60", "61") and (obs == "60") != (case["cid"] is None):
            return ("wrong-refusal-status", f"rules {case['rules']}; path {case['path']!r}; certificate {case['cid']} -> {obs}")
        # the request is let through although the first rule that covers the canonical location its PATH denotes (the
        # part of the URL before the first '?'; for Titan before the first ';') does not admit the certificate: whatever
        # resource a handler keeps at that location - a file of that name, the listing of that directory - is delivered
        u = T.url_path(case["path"])
        if u[0] == "ok" and obs == "allow":
            path = (u[1].split(";", 1)[0] or "/") if case["titan"] else u[1]
            canon = T.ref_canonical(path)
            d = ref_policy(case["rules"], canon, case["cid"])
            if d is not None:
                return ("rule-bypassed", f"CertificateAuth alone: rules {case['rules']}; {'Titan' if case['titan'] else 'Gemini'} request {case['path']!r} with "
                                         f"{'no certificate' if case['cid'] is None else 'certificate %d' % case['cid']} is let through; its path denotes the canonical "
                                         f"location {canon!r}, covered first by rule {covering(case['rules'], canon)}, which requires {d}")
        return None

    def key(self, case, obs):
        q = case["path"].partition("?")[2]
        return f"{obs}:rules={len(case['rules'])}:cert={'y' if case['cid'] else 'n'}" + (":titan" if case["titan"] else "") + (":q?" if "?" in q else ":q" if q else "")


class PumpCert(Family):
    """the whole path on the PyOpenSSL backend (the one that is used whenever client certificates matter): a real TLS
    handshake with a client certificate (or none, or a look-alike, or the peer's own certificate FOLLOWED by an authorised
    user's public certificate as extra chain certificate), TLSServerProtocol, GeminiServerProtocol, the real CertificateAuth:
    the rule is applied to the certificate whose key took part in the handshake, and to no other"""

    name = "pumpcert"
    quick_n = 60
    thorough_n = 1200

    def gen(self, rng, n):
        for i in range(n):
            allowed = sorted(rng.sample([0, 1, 2, 3], rng.randint(0, 2))) if rng.random() < 0.8 else None
            cert = [None, 0, 1, 2, 3, 4, 4, 4][i % 8] if i < 24 else rng.choice([None, 0, 1, 2, 3, 4, 4])
            yield {"allowed": allowed, "require": rng.random() < 0.6, "cert": cert, "prefix": rng.choice(["/app/", "/", "/app/secret"]),
                   "path": rng.choice(["/app/secret.gmi", "/app/", "/app", "/other"]), "cutseed": rng.randrange(1 << 30), "maxcuts": rng.choice([0, 1, 3])}

    def impl(self, case):
        from nauyaca.server.middleware import CertificateAuth, CertificateAuthConfig, CertificateAuthPathRule

        from ..sim import pump as P
        from .srvfam import get_loop

        _, clients = P.env()
        fps = None if case["allowed"] is None else {clients[i][2] for i in case["allowed"]}
        rule = CertificateAuthPathRule(prefix=case["prefix"], require_cert=case["require"], allowed_fingerprints=fps)
        pc = {"up": False, "mw": True, "handler": ["s", [20, "text/gemini", ["s", "secret"]]], "app": [("gemini://localhost" + case["path"] + "\r\n").encode().hex()],
              "close_notify": False, "plaintext": None, "cutseed": case["cutseed"], "maxcuts": case["maxcuts"], "stall": None, "cert": case["cert"], "post": []}
        loop = get_loop()
        o = loop.run_until_complete(P.run_pump(loop, pc, mw_factory=lambda: CertificateAuth(CertificateAuthConfig(path_rules=[rule]))))
        plain = bytes.fromhex(o["plain"]) if o["plain"] != "-" else b""
        return {"status": plain[:2].decode("latin1"), "h": o["h"], "m": o["m"], "fp_seen": [a[2] for a in o["mwargs"]],
                "fp_leaf": None if case["cert"] is None else clients[case["cert"]][2], "exc": o["exc"]}

    def model(self, case):
        # the model's decision for the certificate that took part in the handshake: id 1..4 for the four plain client certificates,
        # 9 for the chained peer's own (never on a list); the list holds ids of the authorised certificates
        cid = None if case["cert"] is None else (9 if case["cert"] == 4 else case["cert"] + 1)
        rules = [[case["prefix"], case["require"], None if case["allowed"] is None else [i + 1 for i in case["allowed"]]]]
        return " ".join(["cert", enc_rules(rules), core.cps(case["path"]), str(cid) if cid else "-", "-"])

    def expect(self, case, out):
        assert out.startswith("ok "), out
        return out.split(" ")[2]

    def same(self, exp, obs):
        return (exp == "allow") == (obs["status"] == "20" and obs["h"] == 1) and (exp == "allow" or (obs["status"] == exp and obs["h"] == 0))

    def oracle(self, case, obs):
        if obs["fp_seen"] and obs["fp_seen"][0] != obs["fp_leaf"]:
            return ("wrong-certificate-judged", f"the client authenticated with certificate {case['cert']} ({obs['fp_leaf']}), the access rule was applied to {obs['fp_seen'][0]}")
        covered = any(c.startswith(case["prefix"]) for c in ([case["path"]] if case["path"].endswith("/") else [case["path"], case["path"] + "/"]))
        if covered and obs["status"] == "20":
            if case["require"] and case["cert"] is None:
                return ("rule-bypassed", f"require_cert rule {case['prefix']!r} covers {case['path']!r}, no certificate presented, status 20")
            if case["allowed"] is not None and (case["cert"] is None or case["cert"] not in case["allowed"]):
                return ("rule-bypassed", f"rule {case['prefix']!r} with fingerprint list of certificates {case['allowed']} covers {case['path']!r}; the peer authenticated with "
                                         f"certificate {case['cert']}{' (own key; certificate 0 merely appended to the chain)' if case['cert'] == 4 else ''} and got status 20")
        return None

    def key(self, case, obs):
        return f"{obs['status']}|cert{case['cert']}|allowed{'N' if case['allowed'] is None else len(case['allowed'])}|req{int(case['require'])}"


FAMILIES = [Capsule(), Served(), MwOnly(), PumpCert()]
