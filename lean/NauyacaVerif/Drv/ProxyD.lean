import NauyacaVerif.Drv.Common
import NauyacaVerif.Url.Proxy
import NauyacaVerif.Url.Router
import NauyacaVerif.Srv.Render
import NauyacaVerif.Srv.RelayModel
namespace NauyacaVerif.Drv.ProxyD
open NauyacaVerif.Drv Url

def parseRoute (s : String) : Option Route :=
  if s.startsWith "e:" then some ⟨cpsChars (s.drop 2).toString, .exact⟩
  else if s.startsWith "p:" then some ⟨cpsChars (s.drop 2).toString, .pfx⟩
  else none

def parseBody (b : String) : Srv.Body :=
  if b == "n" then .none
  else if b.startsWith "s:" then .str (cpsNat (b.drop 2).toString)
  else .bytes (unhexS (b.drop 2).toString)

def showRender (r : Srv.Resp) : String :=
  let hb := Srv.render r
  s!"ok {toHex hb.1} {toHex hb.2}"

/-- line-protocol handler of this area; `none` = not one of ours
    `proxy <upstream> <prefix> <strip:0|1> <path> <query>`  (code points)  → `ok <url>`
    `route <path> <r;r;…|->`   r ::= `e:<pattern>` | `p:<pattern>`        → `ok <index>` | `ok default`
    `relay resp <status> <meta> <n | b:hex | s:cps>` | `relay fail <t|c|o> <msg>` → `ok <header-hex> <body-hex>` -/
def handle : List String → Option String
  | ["proxy", up, pre, strip, path, query] =>
    if strip == "0" || strip == "1" then
      some s!"ok {showCps (proxyUrl (cpsChars up) (cpsChars pre) (strip == "1") (cpsChars path) (cpsChars query))}"
    else some "bad-op"
  | ["route", path, routes] =>
    match (if routes == "-" then some [] else (routes.splitOn ";").mapM parseRoute) with
    | none => some "bad-op"
    | some rs =>
      match route rs (cpsChars path) with
      | some i => some s!"ok {i}"
      | none => some "ok default"
  | ["relay", "resp", st, m, b] =>
    some (showRender (Srv.proxyRespond (.resp ⟨parseInt st, cpsNat m, parseBody b⟩)))
  | ["relay", "fail", k, msg] =>
    match (if k == "t" then some Srv.FailClass.timeout else if k == "c" then some .connection else if k == "o" then some .other else none) with
    | some cls => some (showRender (Srv.proxyRespond (.fail cls (cpsNat msg))))
    | none => some "bad-op"
  | "proxy" :: _ => some "bad-op"
  | "route" :: _ => some "bad-op"
  | "relay" :: _ => some "bad-op"
  | _ => none
end NauyacaVerif.Drv.ProxyD
