import NauyacaVerif.Fs.Upload

/-! Lemmas about M-Upload: case analysis of `handleUpload`, the file map and the directory set
    under effects. -/
set_option linter.unusedSimpArgs false
namespace Fs

/-! ### the file map -/
theorem find_filter_ne (fs : Files) (p q : Path) :
    (fs.filter (·.1 != p)).find? (·.1 == q) = if q = p then none else fs.find? (·.1 == q) := by
  rw [List.find?_filter]
  by_cases hqp : q = p
  · subst hqp
    rw [if_pos rfl, List.find?_eq_none]
    intro a _
    cases h : (a.1 == q) <;> simp_all [bne]
  · rw [if_neg hqp]
    congr 1
    funext a
    by_cases h : a.1 = q
    · subst h; simp [hqp]
    · simp [h]

theorem get_set_self (fs : Files) (p : Path) (b : Bytes) : (fs.set p b).get p = some b := by
  simp [Files.set, Files.get]

theorem get_set_other (fs : Files) (p q : Path) (b : Bytes) (h : q ≠ p) : (fs.set p b).get q = fs.get q := by
  have hpq : (p == q) = false := by simp; exact fun e => h e.symm
  simp only [Files.set, Files.get, List.find?_cons, hpq]
  rw [find_filter_ne]; simp [h]

theorem get_del_self (fs : Files) (p : Path) : (fs.del p).get p = none := by
  simp only [Files.del, Files.get]; rw [find_filter_ne]; simp

theorem get_del_other (fs : Files) (p q : Path) (h : q ≠ p) : (fs.del p).get q = fs.get q := by
  simp only [Files.del, Files.get]; rw [find_filter_ne]; simp [h]

/-- writing a scratch file that did not exist and removing it again changes nothing -/
theorem get_del_set (fs : Files) (t : Path) (b : Bytes) (p : Path) (h : fs.get t = none) :
    ((fs.set t b).del t).get p = fs.get p := by
  by_cases hp : p = t
  · subst hp; rw [get_del_self, h]
  · rw [get_del_other _ _ _ hp, get_set_other _ _ _ _ hp]

/-! ### prefixes -/
theorem inside_dropLast {root t : Path} (h : inside root t = true) (hne : t ≠ root) : inside root t.dropLast = true := by
  simp only [inside, List.isPrefixOf_iff_prefix] at h ⊢
  obtain ⟨s, rfl⟩ := h
  cases hs : s.reverse with
  | nil => simp at hs; subst hs; simp at hne
  | cons x xs =>
    have : s = xs.reverse ++ [x] := by
      have := congrArg List.reverse hs; simpa using this
    rw [this, ← List.append_assoc, List.dropLast_concat]
    exact List.prefix_append _ _

theorem inside_append {root p : Path} (h : inside root p = true) (x : Name) : inside root (p ++ [x]) = true := by
  simp only [inside, List.isPrefixOf_iff_prefix] at h ⊢
  exact h.trans (List.prefix_append _ _)

theorem inside_tempPath {c : UCfg} {t : Path} (h : inside c.dir t = true) (hne : t ≠ c.dir) :
    inside c.dir (tempPath c t) = true :=
  inside_append (inside_dropLast h hne) _

/-! ### directory creation -/
theorem mkdirWalk_shape (os : OS) (c : UCfg) (f : Faults) : ∀ (rest : List Name) (cur : Path) (made : Nat),
    ∀ p ∈ (mkdirWalk os c f cur rest made).2, ∃ q, p = cur ++ q ∧ q ≠ [] ∧ q <+: rest := by
  intro rest
  induction rest with
  | nil => intro cur made p hp; simp [mkdirWalk] at hp
  | cons n rest ih =>
    intro cur made p hp
    have lift : ∀ made', p ∈ (mkdirWalk os c f (cur ++ [n]) rest made').2 →
        ∃ q, p = cur ++ q ∧ q ≠ [] ∧ q <+: n :: rest := by
      intro made' h'
      obtain ⟨q, rfl, _, hq⟩ := ih (cur ++ [n]) made' p h'
      refine ⟨n :: q, by simp, by simp, ?_⟩
      obtain ⟨s, rfl⟩ := hq
      exact ⟨s, by simp⟩
    unfold mkdirWalk at hp
    split at hp
    · exact lift _ hp
    · split at hp
      · simp at hp
      · split at hp
        · simp at hp
        · simp only [consPath, List.mem_cons] at hp
          rcases hp with rfl | hp
          · exact ⟨[n], rfl, by simp, ⟨rest, by simp⟩⟩
          · exact lift _ hp
    · simp at hp

/-- effects that only concern directories -/
def Effect.isDirOp : Effect → Bool
  | .mkdir _ => true
  | .rmdir _ => true
  | _ => false

theorem applyAll_append (fs : Files) (a b : List Effect) : applyAll fs (a ++ b) = applyAll (applyAll fs a) b := by
  simp [applyAll, List.foldl_append]

theorem applyAll_dirOps (fs : Files) (l : List Effect) (h : ∀ e ∈ l, e.isDirOp = true) : applyAll fs l = fs := by
  induction l with
  | nil => rfl
  | cons e l ih =>
    have he := h e (by simp)
    have hl : applyAll fs (e :: l) = applyAll (applyEffect fs e) l := rfl
    rw [hl]
    cases e <;> simp [Effect.isDirOp] at he <;> simp only [applyEffect] <;> exact ih (fun e he => h e (by simp [he]))

theorem made_dirOps (os : UOS) (c : UCfg) (f : Faults) (t : Path) : ∀ e ∈ made os c f t, e.isDirOp = true := by
  intro e he; simp only [made, List.mem_map] at he; obtain ⟨p, _, rfl⟩ := he; rfl

theorem undo_dirOps (os : UOS) (c : UCfg) (f : Faults) (t : Path) : ∀ e ∈ undo os c f t, e.isDirOp = true := by
  intro e he; simp only [undo, List.mem_map] at he; obtain ⟨p, _, rfl⟩ := he; rfl

/-! ### the directory set -/
theorem dirsAfter_append (ds : List Path) (a b : List Effect) : dirsAfter ds (a ++ b) = dirsAfter (dirsAfter ds a) b := by
  simp [dirsAfter, List.foldl_append]

theorem dirsAfter_mkdirs (ds ps : List Path) : dirsAfter ds (ps.map .mkdir) = ds ++ ps := by
  induction ps generalizing ds with
  | nil => simp [dirsAfter]
  | cons p ps ih =>
    have : dirsAfter ds ((p :: ps).map .mkdir) = dirsAfter (ds ++ [p]) (ps.map .mkdir) := rfl
    rw [this, ih]; simp

theorem dirsAfter_rmdirs (ds qs : List Path) : dirsAfter ds (qs.map .rmdir) = ds.filter (fun d => !qs.contains d) := by
  induction qs generalizing ds with
  | nil =>
    simp only [dirsAfter, List.map_nil, List.foldl_nil, List.contains_nil, Bool.not_false]
    exact (List.filter_eq_self.mpr (fun _ _ => rfl)).symm
  | cons q qs ih =>
    have : dirsAfter ds ((q :: qs).map .rmdir) = dirsAfter (ds.filter (· != q)) (qs.map .rmdir) := rfl
    rw [this, ih, List.filter_filter]
    congr 1
    funext d
    by_cases hd : d = q
    · subst hd; simp
    · have h1 : (d == q) = false := by simp [hd]
      have h2 : (d != q) = true := by simp [hd]
      simp only [List.contains_cons, h1, h2, Bool.false_or, Bool.and_true]

theorem dirsAfter_noDir (ds : List Path) (l : List Effect) (h : ∀ e ∈ l, e.isDirOp = false) : dirsAfter ds l = ds := by
  induction l with
  | nil => rfl
  | cons e l ih =>
    have he := h e (by simp)
    have hl : dirsAfter ds (e :: l) = dirsAfter (dirEffect ds e) l := rfl
    rw [hl]
    cases e <;> simp [Effect.isDirOp] at he <;> simp only [dirEffect] <;> exact ih (fun e he => h e (by simp [he]))

/-- creating directories, doing things that are not directory operations, and removing the same
    directories again leaves no new directory -/
theorem dirsAfter_made_undo (ps : List Path) (mid : List Effect) (h : ∀ e ∈ mid, e.isDirOp = false) :
    dirsAfter [] (ps.map .mkdir ++ mid ++ ps.reverse.map .rmdir) = [] := by
  rw [dirsAfter_append, dirsAfter_append, dirsAfter_mkdirs, dirsAfter_noDir _ _ h, dirsAfter_rmdirs]
  simp only [List.nil_append, List.filter_eq_nil_iff]
  intro d hd
  simp [hd]

theorem safePath_inside {os : UOS} {c : UCfg} {t : Path} (h : safePath os c t = true) : inside c.dir t = true := by
  simp only [safePath, Bool.and_eq_true] at h; exact h.1

theorem safePath_fix {os : UOS} {c : UCfg} {t : Path} (h : safePath os c t = true) : os.realpath t = some t := by
  simp only [safePath, Bool.and_eq_true, beq_iff_eq] at h; exact h.2

/-! ### case analysis -/
def Guard (c : UCfg) (r : UReq) : Prop := authOk c r = true ∧ r.size ≤ c.maxSize ∧ typeOk c r = true

theorem handleUpload_cases (os : UOS) (c : UCfg) (f : Faults) (r : UReq) :
    ((handleUpload os c f r).2 = [] ∧ (handleUpload os c f r).1 ≠ .s20) ∨
    (∃ t, Guard c r ∧ r.size = 0 ∧ c.enableDelete = true ∧ os.resolve (c.dir ++ r.comps) = some t ∧
        handleUpload os c f r = deleteAt os c f t) ∨
    (∃ t, Guard c r ∧ r.size ≠ 0 ∧ os.resolve (c.dir ++ r.comps) = some t ∧ safePath os c t = true ∧ t ≠ c.dir ∧
        handleUpload os c f r = store os c f t (r.content.take r.size)) := by
  unfold handleUpload
  by_cases h1 : authOk c r = true
  · by_cases h2 : r.size > c.maxSize
    · left; simp [h1, h2]
    · by_cases h3 : typeOk c r = true
      · have hg : Guard c r := ⟨h1, by omega, h3⟩
        by_cases h4 : r.size = 0
        · by_cases h5 : c.enableDelete = true
          · by_cases h6 : hasNul c r.comps = true
            · left; simp [h1, h2, h3, h4, h5, h6]
            · cases hres : os.resolve (c.dir ++ r.comps) with
              | none => left; simp [h1, h2, h3, h4, h5, h6, hres]
              | some t =>
                right; left
                exact ⟨t, hg, h4, h5, rfl, by simp [h1, h2, h3, h4, h5, h6, hres]⟩
          · left; simp [h1, h2, h3, h4, h5]
        · by_cases h6 : hasNul c r.comps = true
          · left; simp [h1, h2, h3, h4, h6]
          · cases hres : os.resolve (c.dir ++ r.comps) with
            | none => left; simp [h1, h2, h3, h4, h6, hres]
            | some t =>
              by_cases h7 : safePath os c t = true
              · by_cases h8 : t = c.dir
                · left; simp [h1, h2, h3, h4, h6, hres, h8]
                · right; right
                  exact ⟨t, hg, h4, rfl, h7, h8, by simp [h1, h2, h3, h4, h6, hres, h7, h8]⟩
              · left; simp [h1, h2, h3, h4, h6, hres, h7]
      · left; simp [h1, h2, h3]
  · left; simp [h1]

theorem deleteAt_cases (os : UOS) (c : UCfg) (f : Faults) (t : Path) :
    ((deleteAt os c f t).2 = [] ∧ (deleteAt os c f t).1 ≠ .s20) ∨
    (safePath os c t = true ∧ os.kind t ≠ .missing ∧
      (deleteAt os c f t = (.s20, [.unlink t true]) ∨ deleteAt os c f t = (.s40, [.unlink t false]))) := by
  unfold deleteAt
  by_cases h1 : safePath os c t = true
  · by_cases h2 : probeLong os.toOS c c.dir (t.drop c.dir.length) = true
    · left; simp [h1, h2]
    · by_cases h3 : os.kind t = .missing
      · left; simp [h1, h2, h3]
      · right
        refine ⟨h1, h3, ?_⟩
        by_cases h4 : (f.unlinkOk && os.kind t != .dir) = true
        · left; simp only [h1, h2, h3, h4]; simp
        · right; simp only [h1, h2, h3, h4]; simp
  · left; simp [h1]

/-- the five ways `store` can end -/
theorem store_cases (os : UOS) (c : UCfg) (f : Faults) (t : Path) (b : Bytes) :
    store os c f t b = (.s40, []) ∨
    store os c f t b = (.s40, made os c f t ++ undo os c f t) ∨
    (∃ k, store os c f t b = (.s40, made os c f t ++
        [.writeTemp (tempPath c t) (b.take k) false, .unlink (tempPath c t) true] ++ undo os c f t) ∧
        os.lexists (tempPath c t) = false) ∨
    (store os c f t b = (.s40, made os c f t ++
        [.writeTemp (tempPath c t) b true, .rename (tempPath c t) t false, .unlink (tempPath c t) true] ++ undo os c f t) ∧
        os.lexists (tempPath c t) = false) ∨
    (store os c f t b = (.s20, made os c f t ++
        [.writeTemp (tempPath c t) b true, .rename (tempPath c t) t true]) ∧ os.lexists (tempPath c t) = false) := by
  unfold store
  by_cases h0 : probeLong os.toOS c c.dir (t.dropLast.drop c.dir.length) = true
  · left; simp [h0]
  · by_cases h1 : (mkParents os c f t).1 = true
    · by_cases h2 : (os.lexists (tempPath c t) || !f.openOk) = true
      · right; left; simp only [h0, h1, h2]; simp
      · have hl : os.lexists (tempPath c t) = false := by
          cases h : os.lexists (tempPath c t) <;> simp_all
        cases h3 : f.writeFailAfter with
        | some k => right; right; left; exact ⟨k, by simp only [h0, h1, h2]; simp, hl⟩
        | none =>
          by_cases h4 : (!f.renameOk || decide (os.kind t = .dir) || c.tooLong (t.getLast?.getD "")) = true
          · right; right; right; left; exact ⟨by simp only [h0, h1, h2, h4]; simp, hl⟩
          · right; right; right; right; exact ⟨by simp only [h0, h1, h2, h4]; simp, hl⟩
    · right; left; simp [h0, h1]

end Fs
