import NauyacaVerif.Props.Tr.GetSingleTail
import NauyacaVerif.Props.Tr.TofuDb
set_option linter.unusedSimpArgs false
/-!
Composition of the two translations: the translated post-connection half of `_get_single` running on the TRANSLATED
`TOFUDatabase.verify` / `trust` (each call opens its own connection on the committed store, as `_connection()` does).
Result: for every store, key, presented certificate, request and response the composed translated code makes the
model's decision, performs the model's actions in the model's order, and leaves a store that reads like the model's.
-/
namespace NauyacaVerif.Translated
open NauyacaVerif.Gen.Fn Cl Misc

def liftErr {α : Type} : Except DbErr α → Except CErr α
  | .ok a => .ok a
  | .error _ => .error .store

/-- the world of `tofuEnvOf` in which `verify` and `trust` are the translated database methods -/
def envSql (k : Key) (p : Presented) (payload : List Nat) (response : Nat) : TofuEnv World Fp Nat :=
  { tofuEnvOf k p payload response with
    verify := fun w h pt c =>
      let out := tofuVerify pinsEnv id (Db.opened w.1) h pt c
      ((out.1.committed, w.2 ++ [.verify (h, pt) (match out.2 with | .ok v => v.1 | .error _ => false)]), liftErr out.2)
    trust := fun w h pt c =>
      let out := tofuTrust pinsEnv id (Db.opened w.1) h pt c
      ((out.1.committed, w.2 ++ [.trust (h, pt) c]), liftErr out.2) }

theorem getSingleTail_sql (s : Pins) (k : Key) (p : Presented) (pl : List Nat) (r : Nat) :
    (getSingleTail (envSql k p pl r) true k.1 k.2 (s, [.connect k])).2 = outOf (connect s k p pl r).2.1 ∧
    (getSingleTail (envSql k p pl r) true k.1 k.2 (s, [.connect k])).1.2 = (connect s k p pl r).2.2 ∧
    ∀ k', (getSingleTail (envSql k p pl r) true k.1 k.2 (s, [.connect k])).1.1.get k' = (connect s k p pl r).1.get k' := by
  obtain ⟨h, pt⟩ := k
  unfold getSingleTail connect
  cases p with
  | unreadable => simp [envSql, tofuEnvOf, outOf]
  | cert fp =>
    have hv := tofuVerify_eq id s h pt fp
    obtain ⟨s', ht, hs'⟩ := tofuTrust_eq id s h pt fp
    simp only [Db.opened, id] at hv ht hs'
    cases hg : s.get (h, pt) with
    | none =>
      simp [envSql, tofuEnvOf, hv, ht, verdict, hg, outOf, sends, liftErr, Db.opened]
      intro a b
      simpa using hs' (a, b)
    | some old =>
      by_cases he : old = fp
      · simp [envSql, tofuEnvOf, hv, verdict, hg, he, outOf, sends, liftErr, Db.opened]
      · simp [envSql, tofuEnvOf, hv, verdict, hg, he, outOf, sends, liftErr, Db.opened]
end NauyacaVerif.Translated
