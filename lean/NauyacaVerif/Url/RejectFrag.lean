import NauyacaVerif.Url.Reject

/-! C08: the fragment clause of the must-reject specification, on the raw (clean) line. -/
namespace Url

/-- the first hit of `p` in `x ++ c :: suf` (with `p c`) lies at or before `x.length` -/
theorem findIdx_le_of_hit (p : Char → Bool) (x suf : Str) (c : Char) (hc : p c = true) :
    ∃ i, findIdx p (x ++ c :: suf) = some i ∧ i ≤ x.length := by
  induction x with
  | nil => exact ⟨0, by simp [findIdx, hc], by simp⟩
  | cons d ds ih =>
    simp only [List.cons_append, findIdx]
    split
    · exact ⟨0, rfl, by simp⟩
    · obtain ⟨i, hi, hle⟩ := ih
      exact ⟨i + 1, by simp [hi], by simp; omega⟩

/-- cutting at the first `c`: what follows is at least as long as what follows any later `c` -/
theorem cutAt_snd_ne_nil (c : Char) (x suf : Str) (hs : suf ≠ []) : (cutAt c (x ++ c :: suf)).2 ≠ [] := by
  obtain ⟨i, hi, hle⟩ := findIdx_le_of_hit (· = c) x suf c (by simp)
  unfold cutAt splitOnce
  simp only [hi]
  intro h
  have hlen : ((x ++ c :: suf).drop (i + 1)).length = 0 := by rw [h]; rfl
  simp only [List.length_drop, List.length_append, List.length_cons] at hlen
  have : suf.length > 0 := List.length_pos_iff.mpr hs
  omega

theorem parseSplit_fragment (env : Env) (sp : Split) (h : sp.fragment ≠ []) : ∃ e, parseSplit env sp = .error e := by
  unfold parseSplit
  by_cases h1 : sp.scheme.isEmpty = true
  · exact ⟨_, by rw [if_pos h1]⟩
  rw [if_neg h1]
  by_cases h2 : sp.scheme ≠ gemini
  · exact ⟨_, by rw [if_pos h2]⟩
  rw [if_neg h2]
  cases hh : hostname env sp.netloc with
  | none => exact ⟨_, rfl⟩
  | some host =>
    simp only
    by_cases h3 : ((userinfo sp.netloc).1.getD []).length > 0 ∨ ((userinfo sp.netloc).2.getD []).length > 0
    · exact ⟨_, by rw [if_pos h3]⟩
    rw [if_neg h3]
    have h4 : (!sp.fragment.isEmpty) = true := by
      cases hf : sp.fragment with
      | nil => exact absurd hf h
      | cons _ _ => rfl
    exact ⟨_, by rw [if_pos h4]⟩

theorem urlsplit_fragment (env : Env) (l : Str) (hc : CleanLine l) (sp : Split) (h : urlsplit env l = .ok sp) :
    sp.fragment = (cutAt '#' (splitNetloc (splitScheme l).2).2).2 := by
  unfold urlsplit at h
  rw [clean_preprocess hc] at h
  generalize splitScheme l = sc at h ⊢
  obtain ⟨scheme, u1⟩ := sc
  simp only at h ⊢
  generalize splitNetloc u1 = nlp at h ⊢
  obtain ⟨netloc, u2⟩ := nlp
  simp only [splitTail] at h
  simp only at h ⊢
  split at h
  · simp at h
  · simp at h; rw [← h]

/-- `l = beforeColon l ++ ':' :: afterColon l` when there is a colon -/
theorem colon_decomp (l : Str) (h : ':' ∈ l) : l = beforeColon l ++ ':' :: afterColon l := by
  unfold beforeColon afterColon
  induction l with
  | nil => simp at h
  | cons c cs ih =>
    by_cases hc : c = ':'
    · subst hc; simp [List.takeWhile, List.dropWhile]
    · simp at h
      rcases h with h | h
      · exact absurd h.symm hc
      · have := ih h
        simp only [List.takeWhile, List.dropWhile, hc, ne_eq, not_false_eq_true, decide_true, List.cons_append]
        rw [← this]

theorem hash_not_in_gemini_scheme (bc : Str) (h : bc.map lowerAscii = gemLit) : '#' ∉ bc := by
  intro hm
  have : lowerAscii '#' ∈ bc.map lowerAscii := List.mem_map.mpr ⟨'#', hm, rfl⟩
  rw [h] at this
  revert this; decide

/-- what follows the netloc still carries the `#` and its non-empty tail -/
theorem splitNetloc_snd_hash (u x suf : Str) (hu : u = x ++ '#' :: suf) (h2 : u.take 2 = ['/', '/']) :
    ∃ y, (splitNetloc u).2 = y ++ '#' :: suf := by
  -- the two slashes lie before the '#'
  match x, hu with
  | [], hu => subst hu; simp at h2
  | [a], hu => subst hu; simp at h2
  | a :: b :: x', hu =>
    subst hu
    unfold splitNetloc
    rw [if_pos h2]
    simp only [List.cons_append, List.drop_succ_cons, List.drop_zero]
    obtain ⟨j, hj, hle⟩ := findIdx_le_of_hit isDelim x' suf '#' (by decide)
    simp only [hj]
    exact ⟨x'.drop j, by rw [List.drop_append_of_le_length hle]⟩

/-- C08: a line with a non-empty fragment is refused by `parse_url`, whatever the opaque checks say -/
theorem reject_fragment (env : Env) (l : Str) (hc : CleanLine l)
    (h : ∃ pre suf, l = pre ++ '#' :: suf ∧ suf ≠ []) : ∃ e, parseUrl env l = .error e := by
  apply parseUrl_of_split env l (fun sp => sp.scheme ≠ gemini ∨ sp.netloc = [] ∨ sp.fragment ≠ [])
  · intro sp hsp
    by_cases hs : sp.scheme = gemini
    · right
      have hsc := urlsplit_scheme env l hc sp hsp
      have hne : (splitScheme l).1 ≠ [] := by rw [← hsc, hs]; decide
      have hu1 := splitScheme_snd l hne
      rcases splitScheme_fst l with h0 | ⟨hmem, h1⟩
      · exact absurd h0 hne
      · have hbc : (beforeColon l).map lowerAscii = gemLit := by rw [← h1, ← hsc, hs]; rfl
        obtain ⟨pre, suf, hl, hsuf⟩ := h
        have hd := colon_decomp l hmem
        -- locate the '#' after the colon
        have hac : ∃ x, afterColon l = x ++ '#' :: suf := by
          have heq : pre ++ '#' :: suf = beforeColon l ++ ':' :: afterColon l := by rw [← hl, ← hd]
          rcases List.append_eq_append_iff.mp heq with ⟨a', hb, ha⟩ | ⟨c', hp, hcc⟩
          · cases a' with
            | nil => simp at ha
            | cons a0 a'' =>
              simp only [List.cons_append, List.cons.injEq] at ha
              exfalso
              apply hash_not_in_gemini_scheme _ hbc
              rw [hb, ← ha.1]; simp
          · cases c' with
            | nil => simp at hcc
            | cons c0 c'' =>
              simp only [List.cons_append, List.cons.injEq] at hcc
              exact ⟨c'', hcc.2⟩
        obtain ⟨x, hx⟩ := hac
        by_cases h2 : (afterColon l).take 2 = ['/', '/']
        · right
          rw [urlsplit_fragment env l hc sp hsp, hu1]
          obtain ⟨y, hy⟩ := splitNetloc_snd_hash (afterColon l) x suf hx h2
          rw [hy]
          exact cutAt_snd_ne_nil '#' y suf hsuf
        · left
          rw [urlsplit_netloc env l hc sp hsp, hu1, splitNetloc_fst, if_neg h2]
    · left; exact hs
  · intro sp hp
    rcases hp with hp | hp | hp
    · exact parseSplit_badScheme env sp hp
    · exact parseSplit_noHost env sp hp
    · exact parseSplit_fragment env sp hp

/-- non-vacuity: a clean line with a non-empty fragment exists -/
example : CleanLine ['g', 'e', 'm', 'i', 'n', 'i', ':', '/', '/', 'h', '/', '#', 'f'] ∧
    ∃ pre suf, ['g', 'e', 'm', 'i', 'n', 'i', ':', '/', '/', 'h', '/', '#', 'f'] = pre ++ '#' :: suf ∧ suf ≠ [] :=
  ⟨by unfold CleanLine; decide, ['g', 'e', 'm', 'i', 'n', 'i', ':', '/', '/', 'h', '/'], ['f'], rfl, by simp⟩
end Url
