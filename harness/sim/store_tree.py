"""Temp-tree builder, recursive snapshot / diff and storage-fault injection for C14 (DESIGN.md §13).

Tree description: a list of entries, applied in order under a fresh base directory
    ["d", "uploads/sub"]            directory
    ["f", "uploads/a", "<hex>"]     regular file with these bytes
    ["l", "uploads/lnk", "../out"]  symlink with this text; a target starting with "/" is taken
                                    relative to the base directory
An entry whose parent is not a real directory, or whose path already exists, is skipped (the same
rule in `sim_build`, the pure version used to compute expected states).

Snapshot: {relative path: ["d"] | ["f", hex] | ["l", target]} for everything below the base,
never following symlinks.
"""
from __future__ import annotations

import errno
import os
import pathlib

PID_MARK = "$PID"


def subst(s: str) -> str:
    return s.replace(PID_MARK, str(os.getpid()))


def sim_build(ents) -> dict:
    st: dict = {}
    for e in ents:
        p = subst(e[1])
        par = p.rsplit("/", 1)[0] if "/" in p else ""
        if par and st.get(par) != ["d"]:
            continue
        if p in st:
            continue
        if e[0] == "d":
            st[p] = ["d"]
        elif e[0] == "f":
            st[p] = ["f", e[2]]
        else:
            st[p] = ["l", e[2]]
    return st


def build(base: str, ents) -> None:
    for e in ents:
        p = subst(e[1])
        full = os.path.join(base, p)
        par = os.path.dirname(full)
        if not os.path.isdir(par) or os.path.islink(par) or os.path.lexists(full):
            continue
        if e[0] == "d":
            os.mkdir(full)
        elif e[0] == "f":
            with open(full, "wb") as f:
                f.write(bytes.fromhex(e[2]))
        else:
            tgt = e[2]
            os.symlink(base + tgt if tgt.startswith("/") else tgt, full)


def snapshot(base: str) -> dict:
    out: dict = {}

    def walk(d: str, rel: str) -> None:
        with os.scandir(d) as it:
            entries = sorted(it, key=lambda x: x.name)
        for ent in entries:
            r = rel + "/" + ent.name if rel else ent.name
            if ent.is_symlink():
                t = os.readlink(ent.path)
                if t.startswith(base):
                    t = t[len(base):] or "/"
                out[r] = ["l", t]
            elif ent.is_dir(follow_symlinks=False):
                out[r] = ["d"]
                walk(ent.path, r)
            elif ent.is_file(follow_symlinks=False):
                with open(ent.path, "rb") as f:
                    out[r] = ["f", f.read().hex()]
            else:
                out[r] = ["o"]

    walk(base, "")
    return out


def diff(before: dict, after: dict) -> list:
    ch = []
    for p in sorted(set(before) | set(after)):
        b, a = before.get(p), after.get(p)
        if b == a:
            continue
        if b is None:
            ch.append(["+" + a[0], p] + a[1:])
        elif a is None:
            ch.append(["-", p, b[0]])
        elif a[0] == b[0] == "f":
            ch.append(["~f", p, a[1]])
        else:
            ch.append(["~", p, b[0], a[0]] + a[1:])
    return ch


# ----------------------------------------------------------------------------------------------
# storage faults, injected into nauyaca.server.handler's namespace (we run as root: chmod is useless)
# ----------------------------------------------------------------------------------------------
class Fault:
    kind = None      # None | mkdir | open | write | rename | unlink | fsize
    arg = 0
    made = 0         # directories created so far in this request
    tag = "nvtmp"    # what secrets.token_hex returns inside the handler module
    saved_limit = None


def set_fault(f, tag="nvtmp") -> None:
    """arm (or, with None, disarm) a storage fault.

    `["fsize", k]` is a fault of the REAL kernel, not of a stand-in object: the process's file-size limit is lowered to k bytes
    while the fault is armed, so storage accepts only the first k bytes of a file - the way a full disk, a quota or a file-size
    limit presents itself to a program: a write(2) that can store SOME of its bytes succeeds with a short count, and only the
    next one fails (EFBIG / ENOSPC / EDQUOT).  It is independent of how the handler opens and writes its files.  (CPython ignores
    SIGXFSZ; only regular files are limited, so pipes, sockets and the event loop are not affected.)"""
    import resource

    if Fault.saved_limit is not None:
        resource.setrlimit(resource.RLIMIT_FSIZE, Fault.saved_limit)
        Fault.saved_limit = None
    Fault.kind = f[0] if f else None
    Fault.arg = f[1] if f and len(f) > 1 else 0
    Fault.made = 0
    Fault.tag = tag
    if Fault.kind == "fsize":
        soft, hard = resource.getrlimit(resource.RLIMIT_FSIZE)
        Fault.saved_limit = (soft, hard)
        resource.setrlimit(resource.RLIMIT_FSIZE, (Fault.arg, hard))


class _FailingFile:
    """binary file object whose write stores the first k bytes and then fails (disk full)"""

    def __init__(self, f, k, name):
        self._f, self._k, self._name = f, k, name

    def write(self, data):
        self._f.write(bytes(data)[: self._k])
        self._f.flush()
        raise OSError(errno.ENOSPC, "No space left on device (injected)", self._name)

    def __enter__(self):
        return self

    def __exit__(self, *a):
        self._f.close()
        return False

    def close(self):
        self._f.close()

    def __getattr__(self, name):
        return getattr(self._f, name)


class FaultyPath(pathlib.PosixPath):
    """pathlib.Path as the handler sees it: identical unless a fault is armed.  `write_bytes`
    goes through `open`, so both the in-place and the temp-file variants of the handler are hit."""

    def open(self, mode="r", buffering=-1, encoding=None, errors=None, newline=None):
        writing = any(c in mode for c in "wxa+")
        if writing and Fault.kind == "open":
            raise PermissionError(errno.EACCES, "Permission denied (injected)", str(self))
        f = super().open(mode, buffering, encoding, errors, newline)
        if writing and Fault.kind == "write":
            return _FailingFile(f, Fault.arg, str(self))
        return f

    def mkdir(self, mode=0o777, parents=False, exist_ok=False):
        # pathlib's algorithm, with the injection point in front of every creation that would succeed
        try:
            if Fault.kind == "mkdir" and not os.path.lexists(self) and os.path.isdir(os.path.dirname(self)):
                if Fault.made == Fault.arg:
                    raise OSError(errno.ENOSPC, "No space left on device (injected)", str(self))
            os.mkdir(self, mode)
            Fault.made += 1
        except FileNotFoundError:
            if not parents or self.parent == self:
                raise
            self.parent.mkdir(parents=True, exist_ok=True)
            self.mkdir(mode, parents=False, exist_ok=exist_ok)
        except OSError:
            if not exist_ok or not self.is_dir():
                raise

    def unlink(self, missing_ok=False):
        if Fault.kind == "unlink":
            raise PermissionError(errno.EACCES, "Permission denied (injected)", str(self))
        return super().unlink(missing_ok)


class OsProxy:
    """stands in for the `os` module inside nauyaca.server.handler"""

    def __getattr__(self, name):
        return getattr(os, name)

    @staticmethod
    def replace(src, dst, **kw):
        if Fault.kind == "rename":
            raise OSError(errno.EIO, "Input/output error (injected)", str(dst))
        return os.replace(src, dst, **kw)


class SecretsProxy:
    """stands in for the `secrets` module inside nauyaca.server.handler: a chosen temporary name"""

    def __getattr__(self, name):
        import secrets

        return getattr(secrets, name)

    @staticmethod
    def token_hex(n=None):
        return Fault.tag


def patch_handler_module():
    """(idempotent) make nauyaca.server.handler use FaultyPath, OsProxy and SecretsProxy"""
    from nauyaca.server import handler as hm

    if getattr(hm, "Path", None) is not FaultyPath:
        hm.Path = FaultyPath
    if not isinstance(getattr(hm, "os", None), OsProxy):
        hm.os = OsProxy()
    if not isinstance(getattr(hm, "secrets", None), SecretsProxy):
        hm.secrets = SecretsProxy()
    return hm


class FakeTransport:
    def __init__(self):
        self.out: list[bytes] = []
        self.dropped: list[bytes] = []
        self.closed = False

    def write(self, b):
        (self.dropped if self.closed else self.out).append(bytes(b))

    def close(self):
        self.closed = True

    def abort(self):
        self.closed = True

    def is_closing(self):
        return self.closed

    def get_extra_info(self, name, default=None):
        return ("127.0.0.1", 50000) if name == "peername" else default
