import NauyacaVerif.Gen.Fn.TitanParams
import NauyacaVerif.Gen.Fn.TitanFromLine
import NauyacaVerif.Srv.Conn

/-! Translated `_parse_titan_params` and `TitanRequest.from_line` (protocol/request.py) = the hand-written model
(`Srv.titanSizeParam`, `Srv.titanParse`).  `Gen/Fn/TitanParams.lean` and `Gen/Fn/TitanFromLine.lean` are produced on every run by
`harness/translate.py` from the Python AST of the CURRENT source tree.  `int()` is the model's `Srv.pyInt`, `str.strip` its
`stripWs`, `str.split(";")` its `splitAll`; `parse_url` is a parameter, instantiated with the model's `Url.parseUrl`. -/
namespace NauyacaVerif.Translated
open NauyacaVerif.Gen Py

theorem findIdx_none_iff (c : Char) (s : List Char) : Url.findIdx (· = c) s = none ↔ s.contains c = false := by
  induction s with
  | nil => simp [Url.findIdx]
  | cons a t ih =>
    simp only [Url.findIdx]
    by_cases h : a = c
    · simp [h]
    · have h' : (a == c) = false := by simpa using h
      simp only [h, decide_false, Bool.false_eq_true, ↓reduceIte, Option.map_eq_none_iff, ih, List.contains_cons]
      have : (c == a) = false := by simpa using (fun hh : c = a => h hh.symm)
      simp [this]

/-- `c in s` is exactly "`s.split(c, 1)` has two parts" -/
theorem splitOnce_none_iff (c : Char) (s : List Char) : Url.splitOnce c s = none ↔ s.contains c = false := by
  unfold Url.splitOnce
  cases h : Url.findIdx (· = c) s with
  | none =>
    have := (findIdx_none_iff c s).mp h
    simpa using this
  | some i =>
    simp only [reduceCtorEq, false_iff]
    intro hc
    rw [(findIdx_none_iff c s).mpr hc] at h; cases h

theorem cutAt_of_splitOnce (c : Char) (s a b : List Char) (h : Url.splitOnce c s = some (a, b)) : Url.cutAt c s = (a, b) := by
  simp [Url.cutAt, h]

/-- one step of the loop of `_parse_titan_params`, seen through the lookup of one key -/
theorem params_step (acc : Dict) (part key : List Char) :
    dictGet (if part.contains '=' then dictSet acc (Srv.stripWs (Url.cutAt '=' part).1) (Srv.stripWs (Url.cutAt '=' part).2) else acc) key
      = (match Url.splitOnce '=' part with
         | some (k, v) => if Srv.stripWs k = key then some (Srv.stripWs v) else dictGet acc key
         | none => dictGet acc key) := by
  cases h : Url.splitOnce '=' part with
  | none =>
    have := (splitOnce_none_iff '=' part).mp h
    rw [this]; rfl
  | some kv =>
    obtain ⟨k, v⟩ := kv
    have hc : part.contains '=' = true := by
      cases hh : part.contains '=' with
      | true => rfl
      | false => rw [(splitOnce_none_iff '=' part).mpr hh] at h; cases h
    simp only [hc, ↓reduceIte, cutAt_of_splitOnce _ _ _ _ h, dictGet_set]
    by_cases hk : Srv.stripWs k = key <;> simp [hk]

/-- `_parse_titan_params` (translated), looked up at "size", is the model's `titanSizeParam` (the last duplicate wins) -/
theorem titanParams_size (p : List Char) : dictGet (Fn.titanParams p) Srv.sizeLit = Srv.titanSizeParam p := by
  unfold Fn.titanParams Srv.titanSizeParam
  have key : ∀ (parts : List (List Char)) (acc : Dict) (o : Option (List Char)), dictGet acc Srv.sizeLit = o →
      dictGet (parts.foldl (fun params part =>
          if part.contains '=' then
            let (key, value) := Url.cutAt '=' part
            let params := dictSet params (Srv.stripWs key) (Srv.stripWs value)
            params
          else params) acc) Srv.sizeLit
        = parts.foldl (fun acc part =>
            match Url.splitOnce '=' part with
            | some (k, v) => if Srv.stripWs k = Srv.sizeLit then some (Srv.stripWs v) else acc
            | none => acc) o := by
    intro parts
    induction parts with
    | nil => intro acc o h; simpa using h
    | cons part rest ih =>
      intro acc o h
      simp only [List.foldl_cons]
      apply ih
      have := params_step acc part Srv.sizeLit
      rw [h] at this
      exact this
  exact key _ _ _ (dictGet_nil _)

/-- what the server protocol needs of a parsed Titan request line: the declared size -/
def sizeOf : Except Fn.TErr Fn.TitanReq → Option Nat
  | .ok r => some r.size.toNat
  | .error _ => none

/-- `TitanRequest.from_line` (translated), with the translated parameter parser and the model's `parse_url`, accepts exactly
    the lines the model's `titanParse` accepts, with the same size: same checks (parameters present, `size` present, an
    integer, not negative, the URL part a valid gemini URL once the scheme is swapped) -/
theorem titanFromLine_size (env : Url.Env) (line : List Char) (ht : Srv.titanLit.isPrefixOf line = true) :
    sizeOf (Fn.titanFromLine Fn.titanParams (Url.parseUrl env) line) = Srv.titanParse env line := by
  have ht' : (['t', 'i', 't', 'a', 'n', ':', '/', '/'] : List Char).isPrefixOf line = true := ht
  unfold Fn.titanFromLine Srv.titanParse
  simp only [ht', Bool.not_true, Bool.false_eq_true, ↓reduceIte]
  cases hs : Url.splitOnce ';' line with
  | none =>
    have := (splitOnce_none_iff ';' line).mp hs
    have hm : ¬ ';' ∈ line := by simpa using this
    simp [hm, sizeOf]
  | some up =>
    obtain ⟨u, p⟩ := up
    have hc : line.contains ';' = true := by
      cases hh : line.contains ';' with
      | true => rfl
      | false => rw [(splitOnce_none_iff ';' line).mpr hh] at hs; cases hs
    simp only [hc, Bool.not_true, Bool.false_eq_true, ↓reduceIte, cutAt_of_splitOnce _ _ _ _ hs]
    have hsz : dictGet (Fn.titanParams p) ['s', 'i', 'z', 'e'] = Srv.titanSizeParam p := titanParams_size p
    simp only [hsz]
    cases hp : Srv.titanSizeParam p with
    | none => simp [sizeOf]
    | some sz =>
      simp only [Option.isSome_some, Bool.not_true, Bool.false_eq_true, ↓reduceIte, Option.getD_some]
      cases hi : Srv.pyInt sz with
      | none => simp [sizeOf]
      | some n =>
        simp only
        by_cases hn : n < 0
        · simp [hn, sizeOf]
        · simp only [hn, decide_false, Bool.false_eq_true, ↓reduceIte]
          cases hu : Url.parseUrl env (['g', 'e', 'm', 'i', 'n', 'i', ':', '/', '/'] ++ u.drop 8) with
          | error e =>
            have hu' := hu
            simp only [List.cons_append, List.nil_append] at hu'
            simp [sizeOf, Srv.geminiLit, hu']
          | ok pr =>
            have hu' := hu
            simp only [List.cons_append, List.nil_append] at hu'
            simp [sizeOf, Srv.geminiLit, hu']

/-- non-vacuity -/
example : sizeOf (Fn.titanFromLine Fn.titanParams (Url.parseUrl Srv.asciiEnv) "titan://h/f;mime=text/plain; size = 3 ;size=7".toList) = some 7 := by
  decide
example : sizeOf (Fn.titanFromLine Fn.titanParams (Url.parseUrl Srv.asciiEnv) "titan://h/f;size=-1".toList) = none := by decide
end NauyacaVerif.Translated
